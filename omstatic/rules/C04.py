"""C04 -- connected inputs hold their source value with indices and units applied.

Structural clauses of the data-transfer machinery, decided from the source (no OpenMDAO import):

* order        a nonlinear forward transfer precedes every subsystem evaluation (same iteration for
               Gauss-Seidel style loops, once before the loop for Jacobi style loops); WHO table of sites
* src-index    AllConnGraph.get_src_index_array yields *flat* positions into the *flattened root source*
               for every indexer kind (chain applied in list order to arange(root size).reshape(root
               shape), flattened; the single-indexer shortcut only through shape-aware code)
* chain        the per-input list of src_indices is parent's list + this edge's indices, built on a copy
* discrete     the table written by _setup_discrete_transfers has every key Group._discrete_transfer reads
* xfer-build   index arithmetic of DefaultTransfer._setup_transfers (which offset/size/index belongs to
               the input and which to the output side, which branch handles src_indices)
* xfer-flow    input positions reach the scatter side and output positions the gather side of
               DefaultTransfer._transfer through every hop (helper/constructor argument positions)
* group-xfer   Group._transfer (fwd): a transfer into unit-converted inputs is wrapped by
               scale_to_norm / scale_to_phys on the *input* vector; discrete transfer on every fwd path
* proto        the (factor, offset) tuple of unit_conversion and the (a0, a1, factor, offset) tuple of the
               root scale factors are produced, stored, unpacked and applied in the same order/direction;
               the additive unit offset gets an adder array
* unit-factor  the (factor, offset) of unit_conversion equals what the unit definitions imply, incl. on-demand
               prefixed units and reciprocal units (units.py interpreted with the exact interpreter of C06)
* src-shape-fresh edge indexers are resolved against the current shape of their source at every setup
* chain-order  chains are built before input->input edges are re-attached to the root output
* shape-cache  a changed source shape invalidates the cached shaped instance of an indexer
* edge-indexer every edge owns its Indexer (a promotes() call with several names shares one object)
* scaling-flags the flags that switch unit conversion on (group flag, scaled-subsystem set, transfer flag)
* scale-idx    array ref/ref0 of the source go through the input's src_indices on every scalar/array pattern
* slice-norm   slice bounds that need the source size are resolved before the flat index array is built
* indexer      flat / non-flat dispatch of Indexer.indexed_val, negative index normalisation
* index-arrays shape-aware index arrays are arange(size).reshape(src_shape)[own index]; tuple indices get
               per-dimension shapes; slices are normalised against the indexed dimension
* api          src_indices / flat_src_indices of connect() and promotes() reach the edge attribute that
               the chain construction reads
"""
import ast

from .. import astx, cfg as cfgm
from ..core import AnalysisError
from ..engine import rule, describe, selftest, Mutant, Twin
from ..lib_c04 import Sym, alts, contains, attr_path, show, subst

SOLVER = 'openmdao/solvers/solver.py'
NLBGS = 'openmdao/solvers/nonlinear/nonlinear_block_gs.py'
NLBJ = 'openmdao/solvers/nonlinear/nonlinear_block_jac.py'
RUNONCE = 'openmdao/solvers/nonlinear/nonlinear_runonce.py'
GROUP = 'openmdao/core/group.py'
CONN = 'openmdao/core/conn_graph.py'
XFER = 'openmdao/vectors/default_transfer.py'
XBASE = 'openmdao/vectors/transfer.py'
INDEXER = 'openmdao/utils/indexer.py'
UNITS = 'openmdao/utils/units.py'
DVEC = 'openmdao/vectors/default_vector.py'

describe('C04',
         'Decides structural necessary conditions of "every connected input holds its source value through '
         'the src_indices chain and the unit conversion": transfer-before-evaluation order at every '
         'subsystem evaluation loop (tabled sites, any other site reported); that the flat transfer index '
         'array of an input is the whole src_indices chain applied in order to arange over the ROOT source '
         'shape, flattened, for every indexer class (single-indexer shortcut only if shape-aware or guarded); '
         'copy-then-append construction of the chain on the edge target; key and tuple-position agreement of '
         'the discrete transfer table between producer and consumer; input/output role of every offset, size '
         'and index in DefaultTransfer._setup_transfers and along the argument positions down to the '
         'gather/scatter statement; norm/phys wrapping of unit-converted transfers on the input vector; order '
         'and direction of the (factor, offset) tuple from units.py through Group._compute_root_scale_factors to '
         'DefaultVector._set_scaling (compared as polynomials), adder allocation for unit offsets; the flags that '
         'enable all of this; flat/non-flat dispatch and negative-index normalisation in utils/indexer.py; that '
         'connect()/promotes() arguments reach the graph edge; by abstract execution over (scalar_ref, scalar_ref0) '
         'that every array ref/ref0 of the source is taken through the src_indices of the input; by evaluation '
         'over the sign patterns of (start, stop, step) that no slice bound needing the source size reaches '
         'np.arange(*slc.indices(maxsize)) unresolved.  Does not decide numpy integer arithmetic, MPI transfers '
         '(petsc_transfer.py) or the unit table.',
         ['numpy indexing semantics', 'single process (DefaultTransfer); PETSc transfers are not analysed',
          'dict _conn_abs_in2out maps absolute input name -> absolute source name',
          "names of the repository's tables fix the input/output side: _var_sizes['input'], offsets['output'], "
          "_var_allprocs_abs2idx"])


# =========================================================================== helpers
def _const(t, v):
    return t == ('const', v)


def _k(t, kind):
    """Term *t* is a tuple of the given kind."""
    return isinstance(t, tuple) and len(t) > 0 and t[0] == kind


def _calls_named(node, *names):
    return [c for c in astx.calls(node) if astx.callee_attr(c) in names]


def _mode_split(body, var='mode'):
    """(if-stmt, fwd statements) of a `mode == 'fwd'` dispatch in a statement list.

    Handles ==/!= against 'fwd'/'rev', if/else and the early-return form (`if mode != 'fwd': ...; return` followed
    by the forward code)."""
    for i, st in enumerate(body):
        if isinstance(st, ast.If) and isinstance(st.test, ast.Compare) and len(st.test.ops) == 1 and \
                isinstance(st.test.left, ast.Name) and st.test.left.id == var and \
                astx.const_str(st.test.comparators[0]) in ('fwd', 'rev') and \
                isinstance(st.test.ops[0], (ast.Eq, ast.NotEq)):
            isfwd = (astx.const_str(st.test.comparators[0]) == 'fwd') == isinstance(st.test.ops[0], ast.Eq)
            if isfwd:
                return st, True, list(st.body)
            if st.orelse:
                return st, False, list(st.orelse)
            if st.body and isinstance(st.body[-1], (ast.Return, ast.Raise)):
                return st, False, list(body[i + 1:])
            return st, False, []
    return None, None, []


def _enclosing_for(node):
    out = []
    for a in astx.ancestors(node):
        if isinstance(a, (ast.FunctionDef, ast.AsyncFunctionDef, ast.Lambda)):
            break
        if isinstance(a, ast.For):
            out.append(a)
    return out


def _is_loop_derived(t):
    return contains(t, lambda x: _k(x, 'loopvar'))


def _loop_iters(t):
    out = set()

    def f(x):
        if _k(x, 'loopvar'):
            out.add(x[3])
        return False
    contains(t, f)
    return out


# =========================================================================== C04.order
EVAL = ('_solve_nonlinear', '_apply_nonlinear', '_guess_nonlinear')

# (file, function) -> style ; confirmed by reading
ORDER_SITES = {
    (SOLVER, 'NonlinearSolver._gs_iter'): 'gs',
    (NLBGS, 'NonlinearBlockGS._run_apply'): 'gs',
    (NLBJ, 'NonlinearBlockJac._single_iteration'): 'jac',
    (RUNONCE, 'NonlinearRunOnce.solve'): 'jac',
    (GROUP, 'Group._apply_nonlinear'): 'jac',
    (GROUP, 'Group._guess_nonlinear'): 'gs',
}


def _transfer_kind(sym, call, at):
    """('full'|'partial'|None, term of 3rd arg) of a `X._transfer(vec, mode[, sub])` call."""
    a0, a1 = astx.arg(call, 0, 'vec_name'), astx.arg(call, 1, 'mode')
    if a0 is None or a1 is None:
        return None, None
    if not (_const(sym.term(a0, at), 'nonlinear') and _const(sym.term(a1, at), 'fwd')):
        return None, None
    a2 = astx.arg(call, 2, 'sub')
    if a2 is None or _const(sym.term(a2, at), None):
        return 'full', None
    return 'partial', sym.term(a2, at)


def _eval_sites(sym):
    """[(cfg node, call, receiver term)] of subsystem evaluations on a loop-derived receiver."""
    out = []
    for n in sym.g.calling(*EVAL):
        for c in n.calls():
            if astx.callee_attr(c) in EVAL and isinstance(c.func, ast.Attribute) and not c.args:
                rt = sym.term(c.func.value, n)
                if _is_loop_derived(rt):
                    out.append((n, c, rt))
    return out


@rule('C04.order', floor=8)
def order(repo, out):
    """A nonlinear fwd transfer precedes every subsystem evaluation (same iteration for GS loops)."""
    for (rel, qn), style in ORDER_SITES.items():
        fn = repo.func(rel, qn)
        sym = Sym(fn)
        g = sym.g
        sites = _eval_sites(sym)
        if not sites:
            raise AnalysisError(f'{fn.ident}: no subsystem evaluation on a loop variable found')
        xf = []
        for n in g.calling('_transfer'):
            for c in n.calls():
                if astx.callee_attr(c) == '_transfer' and isinstance(c.func, ast.Attribute):
                    if _is_loop_derived(sym.term(c.func.value, n)):
                        continue
                    kind, sub = _transfer_kind(sym, c, n)
                    if kind:
                        xf.append((n, kind, sub))
        for n, c, rt in sites:
            loops = [lp for lp in _enclosing_for(c) if sym.term(lp.iter, g.nodes_of(lp)[0]) in _loop_iters(rt)]
            if not loops:
                out.unsure(fn, n.ast, 'evaluation receiver is loop-derived but its loop was not found')
                continue
            loop = loops[0]
            body = set(g.body_nodes(loop))
            hdr = g.nodes_of(loop)[0]
            it = sym.term(loop.iter, hdr)

            def names_receiver(sub):
                if sub == ('attr', rt, 'name'):
                    return True
                # a sibling loop variable of the same loop (for sname, sinfo in ...: sub = sinfo.system)
                return any(_k(a, 'loopvar') and a[3] == it for a in alts(sub))
            inloop = [x for x, kind, sub in xf if x in body and (kind == 'full' or names_receiver(sub))]
            wrong = [x for x, kind, sub in xf if x in body and kind == 'partial' and not names_receiver(sub)]
            before = [x for x, kind, sub in xf if x not in body and kind == 'full']
            entry = [m for m, lab in g.succ[hdr] if lab == 'true']
            key = f'order:{astx.callee_attr(c)}'
            if inloop and g.path(entry, [n], avoid=inloop, labels=cfgm.noexc) is None:
                out.ok(fn, n.ast, 'transfer to this subsystem dominates its evaluation in the same iteration')
                continue
            if wrong and not inloop:
                out.bad(fn, wrong[0].ast, 'the partial transfer in the loop does not name the subsystem that is '
                        f'evaluated next ({astx.src(c)}): its inputs are not refreshed', key=key)
                continue
            if style == 'jac' and before and g.dominated_by(n, before, labels=cfgm.noexc) is None:
                out.ok(fn, n.ast, 'full transfer before the loop dominates the evaluation (Jacobi style)')
                continue
            if inloop:
                w = g.path(entry, [n], avoid=inloop, labels=cfgm.noexc)
                out.bad(fn, n.ast, 'the subsystem can be evaluated before the transfer of the same iteration: ' +
                        g.fmt_path(w), key=key)
            elif before and style == 'gs':
                out.bad(fn, n.ast, 'Gauss-Seidel loop transfers once before the loop: subsystems evaluated later '
                        'see stale outputs of the earlier ones', key=key)
            else:
                out.bad(fn, n.ast, "no `_transfer('nonlinear', 'fwd', ...)` precedes this subsystem evaluation: "
                        'inputs are not updated from their sources', key=key)
    # NonlinearRunOnce serial branch delegates to the shared Gauss-Seidel sweep
    fn = repo.func(RUNONCE, 'NonlinearRunOnce.solve')
    g = cfgm.build(fn)
    evs = list(g.calling('_gs_iter'))
    for n in g.calling('_solve_nonlinear'):
        for lp in _enclosing_for(n.ast):
            evs.extend(g.nodes_of(lp))      # the loop header stands for "all subsystems evaluated"
    w = g.path([g.entry], [g.exit], avoid=evs, labels=cfgm.noexc)
    if w is not None:
        out.bad(fn, fn.node, 'NonlinearRunOnce.solve can return without evaluating the subsystems: ' +
                g.fmt_path(w), key='runonce-no-eval')
    else:
        out.ok(fn, fn.node, 'every path evaluates the subsystems (directly after a full transfer or via _gs_iter)')


@rule('C04.order-who', floor=6, tier='thorough')
def order_who(repo, out):
    """No function outside the tabled sites evaluates subsystems in a loop (repo-wide)."""
    for (rel, qn) in ORDER_SITES:
        f = repo.func(rel, qn)
        out.ok(f, f.node, 'tabled evaluation site (decided by C04.order)')
    for rel in repo.shipped():
        text = repo.source(rel)
        if not any(f'.{e}()' in text for e in EVAL):
            continue
        for f in repo.module(rel).funcs.values():
            if (rel, f.qualname) in ORDER_SITES:
                continue
            hits = [c for c in astx.calls(f.node) if astx.callee_attr(c) in EVAL and not c.args and
                    isinstance(c.func, ast.Attribute) and isinstance(c.func.value, ast.Name) and
                    c.func.value.id not in ('self', 'super') and _enclosing_for(c)]
            if not hits:
                continue
            sym = Sym(f)
            for n, c, rt in _eval_sites(sym):
                out.bad(f, n.ast, 'subsystem evaluation in a loop outside the tabled sites: transfer order is not '
                        'established for it', key='order-untabled-site')


# =========================================================================== C04.src-index
_FLATTEN = ('ravel', 'flatten')


def _is_flat_term(t):
    """Term is syntactically a 1-D flattening of something."""
    for a in alts(t):
        if not (isinstance(a, tuple) and a and a[0] == 'call'):
            return False
        f = a[1]
        if f[0] == 'attr' and f[2] in _FLATTEN:
            continue
        if f[0] == 'attr' and f[2] == 'reshape' and (a[2] == (('const', -1),) or
                                                     a[2] == (('tuple', ('const', -1)),)):
            continue
        if f[0] == 'attr' and f[2] in ('atleast_1d', 'asarray', 'ascontiguousarray') and len(a[2]) == 1 and \
                _is_flat_term(a[2][0]):
            continue
        return False
    return True


def _strip_flat(t):
    """Remove flattening / atleast_1d wrappers from a term (also inside alternatives)."""
    if _k(t, 'alt'):
        new = frozenset(_strip_flat(a) for a in t[1])
        return next(iter(new)) if len(new) == 1 else ('alt', new)
    if _k(t, 'call') and _k(t[1], 'attr'):
        recv_is_np = attr_path(t[1][1]) in ('np', 'numpy')
        if t[1][2] in _FLATTEN or (t[1][2] == 'reshape' and not recv_is_np and
                                   t[2] in ((('const', -1),), (('tuple', ('const', -1)),))):
            return _strip_flat(t[2][0] if recv_is_np and t[2] else t[1][1])
        if recv_is_np and t[1][2] in ('atleast_1d', 'asarray', 'ascontiguousarray') and len(t[2]) == 1:
            return _strip_flat(t[2][0])
    return t


def _shape_aware(repo, cls_qn):
    """Does <cls>.as_array in indexer.py depend on the source shape / flatness?"""
    f = repo.try_func(INDEXER, f'{cls_qn}.as_array')
    if f is None:
        return None
    if astx.mentions(f.node, '_src_shape', '_flat_src', 'indexed_val'):
        return True
    # pure delegation to another as_array / shaped_array
    rets = [st for st in astx.walk_stmts(f.node.body) if isinstance(st, ast.Return)]
    if rets and all(st.value is not None and _calls_named(st.value, 'shaped_array', 'as_array') for st in rets):
        return True
    return False


@rule('C04.src-index', floor=3)
def src_index(repo, out):
    """get_src_index_array: whole chain, in order, over the root shape, flattened; shortcut only if shape-aware."""
    fn = repo.func(CONN, 'AllConnGraph.get_src_index_array')
    sym = Sym(fn)
    g = sym.g
    rets = [st for st in astx.walk_stmts(fn.node.body) if isinstance(st, ast.Return) and st.value is not None
            and not (isinstance(st.value, ast.Constant) and st.value.value is None)]
    if not rets:
        raise AnalysisError(f'{fn.ident}: no value-returning statement')

    def is_list(t):
        return isinstance(t, tuple) and t and t[0] == 'attr' and t[2] == 'src_inds_list'

    # consumer side: does _setup_transfers flatten what it gets?
    cons = repo.func(XFER, 'DefaultTransfer._setup_transfers')
    csym = Sym(cons)
    consumer_flattens = None
    for c in _calls_named(cons.node, 'get_src_index_array'):
        st = astx.stmt_of(c)
        consumer_flattens = isinstance(st, ast.Assign) and _is_flat_term(csym.term(st.value))
        if not consumer_flattens and isinstance(st, ast.Assign) and isinstance(st.targets[0], ast.Name):
            # `X = np.atleast_1d(X).ravel()` right after the call, at most guarded by `X is not None`
            nm = st.targets[0].id
            for s2 in astx.walk_stmts(cons.node.body):
                if isinstance(s2, ast.Assign) and isinstance(s2.targets[0], ast.Name) and s2.targets[0].id == nm \
                        and s2 is not st and astx.mentions(s2.value, nm):
                    t2 = csym.term(s2.value)
                    gd = [a for a in astx.ancestors(s2) if isinstance(a, ast.If) and a in astx.ancestors(s2)
                          and a not in list(astx.ancestors(st))]
                    plain = all(isinstance(a.test, ast.Compare) and isinstance(a.test.ops[0], ast.IsNot) and
                                astx.path(a.test.left) == nm and astx.in_body(s2, a, 'body') for a in gd)
                    if _is_flat_term(t2) and plain and contains(t2, lambda x: _k(x, 'attr') and
                                                                x[2] == 'get_src_index_array'):
                        consumer_flattens = True
    if consumer_flattens is None:
        raise AnalysisError(f'{cons.ident}: get_src_index_array is no longer called here')

    class _View:
        """Terms of a helper method seen from the caller: its parameters are replaced by the argument terms."""

        def __init__(self, base, amap):
            self.base, self.amap, self.g, self.rd = base, amap, base.g, base.rd

        def at(self, expr):
            return self.base.at(expr)

        def term(self, expr, at=None, depth=0):
            t_ = self.base.term(expr, at)
            return subst(t_, lambda x: self.amap.get(x, x) if _k(x, 'param') else x) if self.amap else t_
    fn0, sym0 = fn, sym
    n_general = 0
    work = [(fn0, sym0, st, 0) for st in rets]
    while work:
        fn, sym, st, depth = work.pop(0)
        g = sym.g
        at = g.nodes_of(st)[0]
        t = sym.term(st.value, at)
        # `return self._helper(...)`: follow the method of the same class with its parameters bound to the arguments
        if isinstance(st.value, ast.Call) and isinstance(st.value.func, ast.Attribute) and \
                astx.path(st.value.func.value) == 'self' and depth < 2 and fn.cls is not None:
            callee = repo.lookup(fn.rel, fn.cls.name, st.value.func.attr)
            bnd = _bind(st.value, _param_names(callee.node, skip_self=True)) if callee is not None else None
            hrets = [s_ for s_ in astx.walk_stmts(callee.node.body) if isinstance(s_, ast.Return) and
                     s_.value is not None and not (isinstance(s_.value, ast.Constant) and s_.value.value is None)] \
                if callee is not None else []
            if bnd is not None and hrets and callee.node is not fn.node:
                amap = {('param', p_): sym.term(e_, at) for p_, e_ in bnd.items()}
                view = _View(Sym(callee), amap)
                work[0:0] = [(callee, view, s_, depth + 1) for s_ in hrets]
                continue
        flat = _is_flat_term(t)
        general = [a for a in alts(t) if contains(_strip_flat(a), lambda x: _k(x, 'attr') and x[2] == 'indexed_val')]
        if general:
            n_general += 1
            # --- loop over the whole list, in order
            loops = [lp for lp in astx.walk_stmts(fn.node.body) if isinstance(lp, ast.For)
                     and _calls_named(lp, 'indexed_val')]
            okloop = False
            for lp in loops:
                it = sym.term(lp.iter, g.nodes_of(lp)[0])
                if is_list(it):
                    okloop = True
                else:
                    out.bad(fn, lp, f'the chain loop iterates `{astx.src(lp.iter)}`, not the complete '
                            'src_inds_list in root-to-leaf order: the composed index array is wrong for '
                            'promotion chains', key='chain-iteration')
            if not loops:
                out.unsure(fn, st, 'indexed_val is not applied in a for loop over src_inds_list')
                continue
            if not okloop:
                continue
            # each step feeds the previous result:  X = inds.indexed_val(X) with inds the loop variable
            stepok = True
            for lp in loops:
                for c in _calls_named(lp, 'indexed_val'):
                    s2 = astx.stmt_of(c)
                    tgt = s2.targets[0] if isinstance(s2, ast.Assign) and len(s2.targets) == 1 else None
                    recv = sym.term(c.func.value, sym.at(c))
                    if not (tgt is not None and len(c.args) == 1 and astx.same(tgt, c.args[0]) and
                            recv[0] == 'loopvar' and is_list(recv[3])):
                        out.bad(fn, s2, 'a chain step must be `arr = <loop indexer>.indexed_val(arr)`: the result '
                                'of the previous level has to be indexed by the next level', key='chain-step')
                        stepok = False
            if not stepok:
                continue
            # --- base array: arange(size of root).reshape(root shape)
            base = [a for a in alts(_strip_flat(t) if flat else t)
                    if not contains(a, lambda x: _k(x, 'attr')
                                    and x[2] == 'indexed_val')]
            basebad = None
            for b in base:
                if not (b[0] == 'call' and b[1][0] == 'attr' and b[1][2] == 'reshape' and
                        contains(b[1][1], lambda x: _k(x, 'attr') and x[2] == 'arange')):
                    basebad = f'chain base is `{show(b)}`, expected arange(size).reshape(shape)'
                    continue
                shp = b[2][0] if b[2] else None
                if shp is None or not contains(shp, lambda x: _k(x, 'attr')
                                               and x[2] == 'get_root'):
                    basebad = ('the base index array is not shaped like the ROOT source of the connection '
                               f'(reshape argument `{show(shp)}` does not come from self.get_root(node))')
                elif not all(isinstance(s, tuple) and s[0] == 'attr' and s[2] in ('shape', 'global_shape')
                             for s in alts(shp)):
                    basebad = f'reshape argument `{show(shp)}` is not the root shape/global_shape'
            if not base:
                basebad = 'no base array definition reaches the return'
            if basebad:
                out.bad(fn, st, basebad, key='chain-base')
                continue
            out.ok(fn, loops[0], 'chain applied in list order to arange(root size).reshape(root shape)')
            # --- flattened
            if flat or consumer_flattens:
                out.ok(fn, st, 'chain result is flattened ' + ('here' if flat else 'by _setup_transfers'))
            else:
                out.bad(fn, st, 'the composed index array is returned with the shape of the chain result (N-d or '
                        '0-d); DefaultTransfer._setup_transfers/_fill need 1-D flat positions '
                        '(len(inds), arr[start:end] = inds): any src_indices chain with a non 1-D result fails',
                        key='chain-result-not-flat')
            continue
        # ---- shortcut through one indexer
        short = [a for a in alts(_strip_flat(t) if flat else t)]
        meth = None
        for a in short:
            if a[0] == 'call' and a[1][0] == 'attr' and a[1][2] in ('shaped_array', 'as_array', 'flat') and \
                    a[1][1][0] == 'sub' and is_list(a[1][1][1]):
                meth = a[1][2]
                flatkw = dict(a[3]).get('flat')
                if flatkw is not None and not _const(flatkw, True):
                    out.bad(fn, st, 'single-indexer shortcut asks for non-flat indices', key='shortcut-nonflat')
                    meth = 'bad'
        if meth is None:
            out.unsure(fn, st, 'return value is neither the chain composition nor a single-indexer shortcut')
            continue
        if meth == 'bad':
            continue
        if meth != 'shaped_array':
            out.bad(fn, st, f'single-indexer shortcut uses `{meth}()`, which is not normalised against the source '
                    'shape (negative indices stay negative): use shaped_array()', key='shortcut-unshaped')
            continue
        # guards on the path to this return
        guards = []
        for a in astx.ancestors(st):
            if isinstance(a, ast.If) and astx.in_body(st, a, 'body'):
                guards.append(a.test)
        # the shortcut is only the whole chain when the list has exactly one element, and it must be that one
        single = False
        for gd in guards:
            for cj in (gd.values if isinstance(gd, ast.BoolOp) and isinstance(gd.op, ast.And) else [gd]):
                ct = sym.term(cj, at)
                if _k(ct, 'cmp') and ct[1] == 'Eq' and {ct[2], ct[3]} >= {('const', 1)}:
                    other = ct[3] if ct[2] == ('const', 1) else ct[2]
                    if _k(other, 'call') and attr_path(other[1]) == 'len' and len(other[2]) == 1 and \
                            is_list(other[2][0]):
                        single = True
        elem = [a[1][1][2] for a in short if _k(a, 'call') and _k(a[1], 'attr') and _k(a[1][1], 'sub')]
        if not single or not all(e in (('const', 0), ('const', -1)) for e in elem):
            out.bad(fn, st, 'the single-indexer shortcut is taken although the chain may hold more than one level '
                    '(it must be guarded by `len(src_inds_list) == 1`): the other levels of src_indices are ignored',
                    key='shortcut-not-single')
            continue
        flat_guard = False
        odd_guard = None
        for gd in guards:
            for cj in (gd.values if isinstance(gd, ast.BoolOp) and isinstance(gd.op, ast.And) else [gd]):
                if isinstance(cj, ast.Attribute) and cj.attr == '_flat_src':
                    flat_guard = True
                elif isinstance(cj, ast.Compare) and len(cj.ops) == 1 and astx.mentions(cj, 'shape', 'global_shape') \
                        and isinstance(cj.left, ast.Call) and astx.call_name(cj.left) == 'len' and \
                        isinstance(cj.comparators[0], ast.Constant) and \
                        (type(cj.ops[0]), cj.comparators[0].value) in ((ast.Eq, 1), (ast.LtE, 1), (ast.Lt, 2)):
                    flat_guard = True
                elif astx.mentions(cj, '_flat_src', 'ndim', 'shape', 'global_shape'):
                    odd_guard = cj
        if flat_guard:
            out.ok(fn, st, 'single-indexer shortcut is guarded by a flat/1-D source test')
            continue
        if odd_guard is not None:
            out.unsure(fn, st, f'shortcut guard `{astx.src(odd_guard)}` not recognised')
            continue
        classes = [qn for qn in repo.module(INDEXER).classes if qn.startswith('Shaped')]
        if len(classes) < 4:
            raise AnalysisError('Shaped*Indexer classes not found in utils/indexer.py')
        for cq in sorted(classes):
            aware = _shape_aware(repo, cq)
            if aware is None:
                continue
            if aware:
                out.ok((INDEXER, f'{cq}.as_array'), repo.func(INDEXER, f'{cq}.as_array').node,
                       'flat positions depend on the source shape')
            else:
                out.bad(fn, st, f'the single-indexer shortcut returns {cq}.as_array(), which ignores the source '
                        'shape: for a NON-flat index into a multi-dimensional source (e.g. src_indices=1 or [-1, 0] '
                        'selecting rows of a (3,4) source) it yields the raw index values as flat positions; the '
                        'transfer then reads wrong/uninitialised source positions', key=f'single-indexer-shortcut:{cq}')
    fn, sym, g = fn0, sym0, sym0.g
    if n_general == 0:
        out.bad(fn, fn.node, 'no branch composes the src_indices chain (indexed_val over src_inds_list): inputs '
                'promoted with src_indices at several levels cannot get the right source positions',
                key='chain-missing')
    # the list that is read belongs to the queried input
    for st in astx.walk_stmts(fn.node.body):
        if isinstance(st, ast.Assign) and isinstance(st.value, ast.Attribute) and st.value.attr == 'src_inds_list':
            t = sym.term(st.value)
            want = ('tuple', ('const', 'i'), ('param', 'abs_in'))
            if _k(t, 'attr') and _k(t[1], 'sub') and _const(t[1][2], 'attrs') and _k(t[1][1], 'sub') and \
                    t[1][1][2] == want and attr_path(t[1][1][1]) in ('self.nodes', 'self._node', 'self.nodes()'):
                out.ok(fn, st, "src_inds_list of node ('i', abs_in)")
            else:
                out.bad(fn, st, f"src_inds_list is read from `{show(t)}`, not from the node ('i', abs_in) of the "
                        'queried input', key='list-of-other-node')


# =========================================================================== C04.chain
@rule('C04.chain', floor=4)
def chain(repo, out):
    """update_src_inds_lists: child list = copy of parent's list + [edge src_indices]; stored on the child node."""
    fn = repo.func(CONN, 'AllConnGraph.update_src_inds_lists')
    sym = Sym(fn)
    g = sym.g
    stores = [st for st in astx.walk_stmts(fn.node.body) if isinstance(st, ast.Assign) and
              any(isinstance(t, ast.Attribute) and t.attr == 'src_inds_list' for t in st.targets)]
    if not stores:
        raise AnalysisError(f'{fn.ident}: no store to .src_inds_list')
    for st in stores:
        loops = [lp for lp in _enclosing_for(st) if isinstance(lp.target, ast.Tuple) and len(lp.target.elts) == 2
                 and _calls_named(lp.iter, 'dfs_edges', 'bfs_edges', 'edges')]
        if not loops:
            out.unsure(fn, st, 'store is not inside a loop over (u, v) edges')
            continue
        lp = loops[0]
        at = g.nodes_of(st)[0]
        it = sym.term(lp.iter, g.nodes_of(lp)[0])
        U, V = ('loopvar', 0, 2, it), ('loopvar', 1, 2, it)
        tgt = [t for t in st.targets if isinstance(t, ast.Attribute)][0]
        tt = sym.term(tgt.value, at)
        # target: nodes[v]['attrs']
        if not (tt[0] == 'sub' and _const(tt[2], 'attrs') and tt[1][0] == 'sub' and tt[1][2] == V):
            which = 'the edge SOURCE u' if contains(tt, lambda x: x == U) else show(tt)
            out.bad(fn, st, f'the composed list is stored on {which}, not on the edge target v', key='chain-store-node')
            continue
        out.ok(fn, st, 'list stored on the edge target')
        # value: alternatives  P  |  P.copy() then append(E)
        if not isinstance(st.value, ast.Name):
            out.unsure(fn, st, 'stored value is not a local list')
            continue
        name = st.value.id
        defs = sym.rd.defs(at, name)
        parent_defs, copy_defs, other = [], [], []
        for d in defs:
            if d.kind == 'stmt' and isinstance(d.ast, ast.Assign):
                vt = sym.term(d.ast.value, d)
                if vt[0] == 'attr' and vt[2] == 'src_inds_list':
                    parent_defs.append((d, vt))
                    continue
                if vt[0] == 'call' and vt[1][0] == 'attr' and vt[1][2] == 'copy' and not vt[2]:
                    copy_defs.append((d, vt[1][1], 'copy'))
                    continue
                if vt[0] == 'call' and attr_path(vt[1]) == 'list' and len(vt[2]) == 1:
                    copy_defs.append((d, vt[2][0], 'copy'))
                    continue
                if vt[0] == 'bin' and vt[1] == 'Add':
                    copy_defs.append((d, vt, 'concat'))
                    continue
                if vt[0] == 'tuple' and isinstance(d.ast.value, ast.List) and any(x[0] == 'star' for x in vt[1:]):
                    copy_defs.append((d, vt, 'display'))
                    continue
            other.append(d)
        if other or not parent_defs:
            out.unsure(fn, st, f'definitions of `{name}` not recognised')
            continue
        bad = False
        for d, vt in parent_defs:
            pt = vt[1]
            if not (pt[0] == 'sub' and _const(pt[2], 'attrs') and pt[1][0] == 'sub' and pt[1][2] == U):
                out.bad(fn, d.ast, f'the inherited list is read from `{show(pt)}`, not from the edge source u (the '
                        'parent in the connection tree)', key='chain-parent-node')
                bad = True
        if bad:
            continue
        out.ok(fn, parent_defs[0][0].ast, "inherited list is the edge source's list")
        # the edge's own indices
        appends = [c for c in _calls_named(lp, 'append', 'insert', 'extend')
                   if isinstance(c.func.value, ast.Name) and c.func.value.id == name]
        edge_ok = None

        def is_edge_inds(t):
            # edges[u, v].get('src_indices', None)  /  edges[u, v]['src_indices']
            for a in alts(t):
                core = None
                if a[0] == 'call' and a[1][0] == 'attr' and a[1][2] == 'get' and a[2] and _const(a[2][0], 'src_indices'):
                    core = a[1][1]
                elif a[0] == 'sub' and _const(a[2], 'src_indices'):
                    core = a[1]
                if core is None or core[0] != 'sub':
                    return None
                if core[2] != ('tuple', U, V):
                    return False
            return True
        for c in appends:
            cat = sym.at(c)
            meth = astx.callee_attr(c)
            if meth == 'insert' or (meth == 'extend'):
                out.bad(fn, astx.stmt_of(c), f'`{astx.src(c)}`: the indices of this edge must be applied AFTER the '
                        "parent's chain (append at the end of the list)", key='chain-order')
                bad = True
                continue
            r = is_edge_inds(sym.term(c.args[0], cat)) if c.args else None
            if r is False:
                out.bad(fn, astx.stmt_of(c), 'the appended indices are not those of the edge (u, v)', key='chain-edge')
                bad = True
            elif r is None:
                out.unsure(fn, astx.stmt_of(c), 'appended value not recognised as the edge src_indices')
                bad = True
            # the receiver at the append must be a fresh list, never the parent's object
            rdefs = sym.rd.defs(cat, name)
            fresh = {d for d, _, _ in copy_defs}
            if not rdefs or not rdefs <= fresh:
                out.bad(fn, astx.stmt_of(c), f"`{astx.src(c)}` mutates the parent's own src_inds_list (no copy "
                        'reaches this statement): sibling inputs and the parent node get indices that are not theirs',
                        key='chain-alias')
                bad = True
            else:
                for d, src_t, how in copy_defs:
                    if d in rdefs and how == 'copy':
                        if not all(x[0] == 'attr' and x[2] == 'src_inds_list' for x in alts(src_t)):
                            out.unsure(fn, d.ast, 'copied object is not the inherited list')
                            bad = True
                edge_ok = True
        for d, vt, how in copy_defs:
            if how == 'concat':
                l, r = d.ast.value.left, d.ast.value.right
                lt = sym.term(l, d)
                if isinstance(r, ast.List) and len(r.elts) == 1 and \
                        all(x[0] == 'attr' and x[2] == 'src_inds_list' for x in alts(lt)):
                    if is_edge_inds(sym.term(r.elts[0], d)) is True:
                        edge_ok = True
                    else:
                        out.bad(fn, d.ast, 'the concatenated indices are not those of the edge (u, v)', key='chain-edge')
                        bad = True
                elif isinstance(l, ast.List):
                    out.bad(fn, d.ast, "the indices of this edge are put BEFORE the parent's chain", key='chain-order')
                    bad = True
                else:
                    out.unsure(fn, d.ast, 'list concatenation not recognised')
                    bad = True
            elif how == 'display':
                el = d.ast.value.elts
                if len(el) == 2 and isinstance(el[0], ast.Starred) and is_edge_inds(sym.term(el[1], d)) is True:
                    edge_ok = True
                elif len(el) == 2 and isinstance(el[1], ast.Starred):
                    out.bad(fn, d.ast, "the indices of this edge are put BEFORE the parent's chain", key='chain-order')
                    bad = True
                else:
                    out.unsure(fn, d.ast, 'list display not recognised')
                    bad = True
        if bad:
            continue
        if not edge_ok:
            out.bad(fn, st, 'the src_indices of the edge are never added to the inherited list', key='chain-edge-missing')
            continue
        out.ok(fn, st, "edge indices appended to a copy of the parent's list")
    # NodeAttrs.src_inds_list setter keeps the variable metadata (read by scaling/jacobian code) in sync
    cls = repo.cls(CONN, 'NodeAttrs')
    setters = [st for st in cls.body if isinstance(st, ast.FunctionDef) and st.name == 'src_inds_list' and
               any(isinstance(d, ast.Attribute) and d.attr == 'setter' for d in st.decorator_list)]
    if not setters:
        raise AnalysisError('NodeAttrs.src_inds_list setter not found')
    f = setters[0]
    val = f.args.args[1].arg if len(f.args.args) > 1 else None
    own = meta = False
    for st in astx.walk_stmts(f.body):
        if isinstance(st, ast.Assign) and isinstance(st.value, ast.Name) and st.value.id == val:
            for t in st.targets:
                if astx.path(t) == 'self._src_inds_list':
                    own = True
                if isinstance(t, ast.Subscript) and astx.const_str(t.slice) == 'src_inds_list' and \
                        astx.path(t.value) in ('self._locmeta', 'self._meta'):
                    meta = True
    where = (CONN, 'NodeAttrs.src_inds_list')
    getters = [st for st in cls.body if isinstance(st, ast.FunctionDef) and st.name == 'src_inds_list' and
               st not in setters]
    got = any(isinstance(r, ast.Return) and astx.path(r.value) == 'self._src_inds_list'
              for gt in getters for r in astx.walk_stmts(gt.body))
    if own and got:
        out.ok(where, f, 'setter stores the list on the node; the getter returns it' +
               (' (and the local metadata copy is kept in sync)' if meta else ''))
    elif not own:
        out.bad(where, f, 'the setter does not store the list on the node (self._src_inds_list): '
                'get_src_index_array reads a stale chain', key='chain-setter')
    else:
        out.unsure(where, f, 'getter of src_inds_list not recognised')


# =========================================================================== C04.discrete
@rule('C04.discrete', floor=3)
def discrete(repo, out):
    """Every key Group._discrete_transfer reads on one process is written by _setup_discrete_transfers."""
    cons = repo.func(GROUP, 'Group._discrete_transfer')
    prod = repo.func(XFER, 'DefaultTransfer._setup_discrete_transfers')
    csym = Sym(cons)

    def is_serial_test(t):
        # comm.size == 1  /  comm.size > 1 (returns 'serial' / 'mpi' for the true branch)
        if isinstance(t, ast.Compare) and len(t.ops) == 1 and isinstance(t.left, ast.Attribute) and \
                t.left.attr == 'size' and astx.mentions(t.left, 'comm') and \
                isinstance(t.comparators[0], ast.Constant) and t.comparators[0].value == 1:
            if isinstance(t.ops[0], ast.Eq):
                return 'serial'
            if isinstance(t.ops[0], (ast.Gt, ast.NotEq)):
                return 'mpi'
        return None

    # ---- consumer: which keys are read on the serial path
    reads = []
    for st in astx.walk_stmts(cons.node.body):
        if isinstance(st, ast.For) and isinstance(st.iter, ast.Subscript) and \
                astx.path(st.iter.value) == 'self._discrete_transfers':
            mode = None
            for a in astx.ancestors(st):
                if isinstance(a, ast.If) and is_serial_test(a.test):
                    m = is_serial_test(a.test)
                    inbody = astx.in_body(st, a, 'body')
                    mode = m if inbody else ('mpi' if m == 'serial' else 'serial')
            if mode in (None, 'serial'):
                reads.append(st)
    if not reads:
        raise AnalysisError(f'{cons.ident}: serial loop over self._discrete_transfers[key] not found')
    for st in reads:
        kt = csym.term(st.iter.slice, csym.g.nodes_of(st)[0])
        keys = set()
        for a in alts(kt):
            if a[0] == 'ifexp':
                keys.add(a[2])
                keys.add(a[3])
            else:
                keys.add(a)
        reads_none = ('const', None) in keys
        # element protocol: 4-tuple (src_sys, src_var, tgt_sys, tgt_var); object assigned target <- source
        tgt = st.target
        if isinstance(tgt, ast.Tuple) and len(tgt.elts) == 4 and all(isinstance(e, ast.Name) for e in tgt.elts):
            n = [e.id for e in tgt.elts]
            assigns = [s for s in astx.walk_stmts(st.body) if isinstance(s, ast.Assign) and
                       isinstance(s.targets[0], ast.Subscript) and
                       isinstance(s.targets[0].value, ast.Attribute) and
                       s.targets[0].value.attr in ('_discrete_inputs', '_discrete_outputs')]
            if len(assigns) != 1:
                out.unsure(cons, st, 'discrete assignment not recognised')
            else:
                s = assigns[0]
                bsym = csym

                def sysname(e):
                    # X._discrete_inputs[k]: which tuple position names system X
                    t = bsym.term(e.value.value, bsym.g.nodes_of(s)[0])
                    for i, nm in enumerate(n):
                        if contains(t, lambda x: _k(x, 'loopvar') and x[1] == i):
                            return i
                    return None
                lhs, rhs = s.targets[0], s.value
                okp = (isinstance(rhs, ast.Subscript) and isinstance(rhs.value, ast.Attribute) and
                       lhs.value.attr == '_discrete_inputs' and rhs.value.attr == '_discrete_outputs' and
                       sysname(lhs) == 2 and sysname(rhs) == 0 and
                       isinstance(lhs.slice, ast.Name) and lhs.slice.id == n[3] and
                       isinstance(rhs.slice, ast.Name) and rhs.slice.id == n[1])
                if okp:
                    out.ok(cons, s, 'target system input [tgt_var] <- source system output [src_var] '
                           '(tuple positions 2,3 <- 0,1)')
                else:
                    out.bad(cons, s, 'the discrete assignment does not move element (src_sys, src_var) into '
                            '(tgt_sys, tgt_var) of the transfer tuple written by _setup_discrete_transfers',
                            key='discrete-direction')
        # ---- producer
        psym = Sym(prod)
        writes = []   # (stmt, key term, mpi_only)
        for s in astx.walk_stmts(prod.node.body):
            tgt_sub = None
            if isinstance(s, ast.Assign) and isinstance(s.targets[0], ast.Subscript):
                tgt_sub = s.targets[0]
            elif isinstance(s, ast.Expr) and isinstance(s.value, ast.Call) and \
                    astx.callee_attr(s.value) in ('append', 'extend') and \
                    isinstance(s.value.func.value, ast.Subscript):
                tgt_sub = s.value.func.value
            if tgt_sub is None:
                continue
            base = psym.term(tgt_sub.value, psym.g.nodes_of(s)[0])
            if not contains(base, lambda x: _k(x, 'call') and
                            attr_path(x[1]) in ('defaultdict', 'dict', 'collections.defaultdict')) and \
                    astx.path(tgt_sub.value) not in ('group._discrete_transfers',):
                continue
            # only the table stored on group._discrete_transfers
            mpi_only = False
            for a in astx.ancestors(s):
                if isinstance(a, ast.If) and is_serial_test(a.test):
                    m = is_serial_test(a.test)
                    inbody = astx.in_body(s, a, 'body')
                    if (m == 'mpi') == inbody:
                        mpi_only = True
            writes.append((s, psym.term(tgt_sub.slice, psym.g.nodes_of(s)[0]), mpi_only))
        tabname = [s for s in astx.walk_stmts(prod.node.body) if isinstance(s, ast.Assign) and
                   any(astx.path(t) == 'group._discrete_transfers' for t in s.targets)]
        if not tabname or not writes:
            raise AnalysisError(f'{prod.ident}: table group._discrete_transfers / its writes not found')
        per_target = [w for w in writes if not w[2] and w[1] != ('const', None)]
        none_serial = [w for w in writes if not w[2] and w[1] == ('const', None)]
        none_mpi = [w for w in writes if w[2] and w[1] == ('const', None)]
        if per_target:
            # key of the per-target entry is the target subsystem part of the INPUT name
            w = per_target[0]
            kt2 = w[1]
            okk = contains(kt2, lambda x: _k(x, 'loopvar') and x[1] == 0 and
                           contains(x[3], lambda y: _k(y, 'attr') and
                                    y[2] == '_conn_discrete_in2out'))
            if okk:
                out.ok(prod, w[0], 'per-subsystem entry keyed by the subsystem of the target (input) name')
            else:
                out.bad(prod, w[0], 'the per-subsystem entry is not keyed by the subsystem that owns the target '
                        'input: a partial transfer to a subsystem does not find its discrete inputs',
                        key='discrete-key')
        else:
            out.bad(prod, prod.node, 'no per-subsystem entry is written on a single process', key='discrete-key')
        if reads_none:
            if none_serial:
                out.ok(prod, none_serial[0][0], 'full-transfer entry [None] written on the single-process path')
            else:
                handled = [t for t in astx.walk(st) if isinstance(t, ast.Compare) and
                           isinstance(t.ops[0], (ast.Is, ast.IsNot)) and astx.mentions(t, 'key', 'sub')]
                if handled:
                    out.unsure(cons, st, 'consumer treats key None specially; not analysed')
                else:
                    out.bad(prod, (none_mpi[0][0] if none_mpi else prod.node),
                            'Group._discrete_transfer(None) reads self._discrete_transfers[None] when comm.size == 1, '
                            'but the entry [None] is only written under `comm.size > 1`: a full transfer '
                            '(NonlinearBlockJac._single_iteration, Group._apply_nonlinear) moves no discrete '
                            'variable, so discrete inputs never receive their source object',
                            key='discrete-full-transfer-serial')


# =========================================================================== C04.xfer-build
def _norm_iproc(t):
    """Drop the per-process row selection `X[group.comm.rank]` (present only when the array is non-empty)."""
    def f(x):
        if _k(x, 'sub') and attr_path(x[2]) is not None and attr_path(x[2]).endswith('comm.rank'):
            return x[1]
        return x
    return subst(t, f)


def _mk(op, l, r):
    if op in ('Add', 'Mult') and repr(r) < repr(l):
        l, r = r, l
    return ('bin', op, l, r)


def _call(fname, *args):
    return ('call', ('name', fname), tuple(args), ())


class _XB:
    """Expected terms of DefaultTransfer._setup_transfers (roles fixed by the names of the repository's
    data structures: _conn_abs_in2out, _var_allprocs_abs2idx, _var_sizes['input'], offsets['input'|'output'])."""

    def __init__(self, sym, loop):
        g = sym.g
        self.it = sym.term(loop.iter, g.nodes_of(loop)[0])
        self.IN = ('loopvar', 0, 2, self.it)
        self.OUT = ('loopvar', 1, 2, self.it)

    def side(self, t):
        """'in' / 'out' / 'mixed' / None: which connection end a term is computed from."""
        i = contains(t, lambda x: x == self.IN)
        o = contains(t, lambda x: x == self.OUT)
        return 'mixed' if i and o else 'in' if i else 'out' if o else None


def _describe_pos(t, xb):
    """Classify a term as an offset/size/index of the input or output side: (what, io-table, element-side)."""
    t = _norm_iproc(t)
    if _k(t, 'sub'):
        base, idx = t[1], t[2]
        # element index: group._var_allprocs_abs2idx[<IN|OUT>]
        eside = None
        if _k(idx, 'sub') and attr_path(idx[1]) is not None and attr_path(idx[1]).endswith('_var_allprocs_abs2idx'):
            eside = 'in' if idx[2] == xb.IN else 'out' if idx[2] == xb.OUT else None
        if _k(base, 'sub') and _k(base[2], 'const') and base[2][1] in ('input', 'output'):
            io = base[2][1]
            b2 = base[1]
            if _k(b2, 'call') and attr_path(b2[1]) == '_global2local_offsets':
                return ('offset', io, eside)
            if attr_path(b2) is not None and attr_path(b2).endswith('_var_sizes'):
                return ('size', io, eside)
        # meta_in['size']
        if _const(idx, 'size') and _k(base, 'sub') and _k(base[1], 'sub') and _k(base[1][2], 'const') and \
                attr_path(base[1][1]) is not None and attr_path(base[1][1]).endswith('_var_abs2meta'):
            io = base[1][2][1]
            eside = 'in' if base[2] == xb.IN else 'out' if base[2] == xb.OUT else None
            return ('size', io, eside)
    return None


def _check_range(t, xb, io, want_side):
    """range(off, off + size) over one variable of the given side.  Returns None if right else a reason."""
    if not (_k(t, 'call') and attr_path(t[1]) == 'range' and len(t[2]) == 2):
        return 'unrecognised', f'`{show(t)}` is not range(start, start + size)'
    a, b = t[2]
    da = _describe_pos(a, xb)
    if da is None:
        return 'unrecognised', f'range start `{show(a)}` not recognised'
    if da != ('offset', io, want_side):
        return 'bad', (f'range start is the {da[0]} of the {da[1]} table at the index of the {da[2]} variable; '
                       f'expected the offset of the {io} table at the index of the {want_side} variable')
    if not (_k(b, 'bin') and b[1] == 'Add'):
        return 'unrecognised', f'range stop `{show(b)}` is not start + size'
    parts = [b[2], b[3]]
    na = _norm_iproc(a)
    rest = [p for p in parts if _norm_iproc(p) != na]
    if len(rest) != 1:
        return 'bad', f'range stop `{show(b)}` is not the range start plus a size'
    dz = _describe_pos(rest[0], xb)
    if dz is None:
        return 'unrecognised', f'range length `{show(rest[0])}` not recognised'
    if dz[0] != 'size' or dz[1] != 'input' or dz[2] != 'in':
        return 'bad', (f'range length is the {dz[0]} of the {dz[1]} table at the {dz[2]} variable; a connection '
                       'moves exactly size(input) values')
    return None


@rule('C04.xfer-build', floor=5)
def xfer_build(repo, out):
    """_setup_transfers: input positions from input offsets/sizes, output positions from src_indices + output offset."""
    fn = repo.func(XFER, 'DefaultTransfer._setup_transfers')
    sym = Sym(fn)
    g = sym.g
    loops = [lp for lp in astx.walk_stmts(fn.node.body) if isinstance(lp, ast.For) and
             isinstance(lp.iter, ast.Call) and astx.callee_attr(lp.iter) == 'items' and
             (astx.path(lp.iter.func.value) or '').endswith('_conn_abs_in2out')]
    if len(loops) != 1 or not (isinstance(loops[0].target, ast.Tuple) and len(loops[0].target.elts) == 2):
        raise AnalysisError(f'{fn.ident}: loop `for abs_in, abs_out in group._conn_abs_in2out.items()` not found')
    loop = loops[0]
    xb = _XB(sym, loop)
    # the call that hands the lists over
    hand = None
    for st in astx.walk_stmts(fn.node.body):
        if isinstance(st, ast.Assign) and isinstance(st.targets[0], ast.Subscript) and \
                astx.const_str(st.targets[0].slice) == 'fwd' and isinstance(st.value, ast.Call) and \
                astx.callee_attr(st.value) == '_setup_index_arrays':
            hand = st
    if hand is None:
        raise AnalysisError(f"{fn.ident}: `transfers['fwd'] = _setup_index_arrays(...)` not found")
    callee = repo.func(XFER, '_setup_index_arrays')
    pnames = [a.arg for a in callee.node.args.args]
    if len(pnames) < 3:
        raise AnalysisError('_setup_index_arrays signature changed')

    def arg_for(call, i):
        return astx.arg(call, i, pnames[i])
    a_in, a_out, a_tot = arg_for(hand.value, 1), arg_for(hand.value, 2), arg_for(hand.value, 0)
    if not all(isinstance(a, ast.Name) for a in (a_in, a_out, a_tot)):
        out.unsure(fn, hand, 'arguments of _setup_index_arrays are not plain locals')
        return
    appends = {}
    for c in _calls_named(loop, 'append'):
        r = c.func.value
        if isinstance(r, ast.Subscript) and isinstance(r.value, ast.Name) and r.value.id in (a_in.id, a_out.id):
            appends.setdefault(r.value.id, []).append(c)
    if len(appends.get(a_in.id, [])) != 1 or len(appends.get(a_out.id, [])) != 1:
        out.bad(fn, hand, f'each connection must append exactly one entry to `{a_in.id}` (argument `{pnames[1]}`) and '
                f'one to `{a_out.id}` (argument `{pnames[2]}`); found '
                f'{len(appends.get(a_in.id, []))} and {len(appends.get(a_out.id, []))}: the two lists pair up '
                'positionally', key='xfer-append-pairing')
        return
    cin, cout = appends[a_in.id][0], appends[a_out.id][0]
    # (1) same subsystem key, derived from the input name
    kin, kout = sym.term(cin.func.value.slice, sym.at(cin)), sym.term(cout.func.value.slice, sym.at(cout))
    if kin != kout:
        out.bad(fn, astx.stmt_of(cout), 'input and output positions of a connection are filed under different '
                'subsystem keys: partial transfers pair wrong positions', key='xfer-key')
    elif xb.side(kin) != 'in':
        out.bad(fn, astx.stmt_of(cin), 'forward transfer lists must be keyed by the subsystem of the INPUT '
                f'(found `{show(kin)}`): a partial transfer to a subsystem would not update its inputs',
                key='xfer-key')
    elif not (_k(kin, 'sub') and _const(kin[2], 0) and contains(kin, lambda x: _k(x, 'attr') and x[2] == 'split')):
        out.unsure(fn, astx.stmt_of(cin), f'subsystem key `{show(kin)}` not recognised')
    else:
        out.ok(fn, astx.stmt_of(cin), 'both lists keyed by the first path component of the input below the group')
    # (2) input positions
    tin = _norm_iproc(sym.term(cin.args[0], sym.at(cin)))
    bad_any = False
    for a in alts(tin):
        r = _check_range(a, xb, 'input', 'in')
        if r is not None:
            bad_any = True
            if r[0] == 'bad':
                out.bad(fn, astx.stmt_of(cin), 'input positions: ' + r[1], key='xfer-input-positions')
            else:
                out.unsure(fn, astx.stmt_of(cin), 'input positions: ' + r[1])
    if not bad_any:
        out.ok(fn, astx.stmt_of(cin), 'input positions = range(offset_in[idx_in], + size_in[idx_in])')
    # (3) output positions: two definitions selected by `src_indices is None`
    if not isinstance(cout.args[0], ast.Name):
        out.unsure(fn, astx.stmt_of(cout), 'output positions are not a local')
        return
    oname = cout.args[0].id
    odefs = sym.rd.defs(sym.at(cout), oname)
    seen = {'none': 0, 'idx': 0}
    for d in odefs:
        if not (d.kind == 'stmt' and isinstance(d.ast, ast.Assign)):
            out.unsure(fn, d.ast, 'definition of the output positions not recognised')
            continue
        par = d.ast._parent
        pol = None
        if isinstance(par, ast.If) and isinstance(par.test, ast.Compare) and len(par.test.ops) == 1 and \
                isinstance(par.test.ops[0], (ast.Is, ast.IsNot)) and \
                isinstance(par.test.comparators[0], ast.Constant) and par.test.comparators[0].value is None:
            tt = sym.term(par.test.left, g.nodes_of(par)[0])
            if _k(_strip_flat(tt), 'call') and _k(_strip_flat(tt)[1], 'attr') and \
                    _strip_flat(tt)[1][2] == 'get_src_index_array':
                isnone = isinstance(par.test.ops[0], ast.Is)
                inbody = d.ast in par.body
                pol = 'none' if isnone == inbody else 'idx'
        if pol is None:
            out.unsure(fn, d.ast, 'output positions are not selected by `src_indices is None`')
            continue
        vt = _norm_iproc(sym.term(d.ast.value, d))
        seen[pol] += 1
        if pol == 'none':
            r = _check_range(vt, xb, 'output', 'out')
            if r is None:
                out.ok(fn, d.ast, 'no src_indices: output positions = range(offset_out[idx_out], + size_in)')
            elif r[0] == 'bad':
                out.bad(fn, d.ast, 'output positions without src_indices: ' + r[1], key='xfer-output-range')
            else:
                out.unsure(fn, d.ast, r[1])
        else:
            ok = False
            why = f'`{show(vt)}` is not src_indices + offset_out[idx_out]'
            if _k(vt, 'bin') and vt[1] == 'Add':
                parts = [vt[2], vt[3]]
                si = [p for p in parts if _k(_strip_flat(p), 'call') and _k(_strip_flat(p)[1], 'attr') and
                      _strip_flat(p)[1][2] == 'get_src_index_array']
                off = [p for p in parts if p not in si]
                if len(si) == 1 and len(off) == 1:
                    sc = _strip_flat(si[0])
                    do = _describe_pos(off[0], xb)
                    if sc[2] != (xb.IN,):
                        why = ('src_indices are looked up for `' + show(sc[2][0] if sc[2] else None) +
                               '`, not for the input of this connection')
                    elif do is None:
                        why = None
                        out.unsure(fn, d.ast, f'offset `{show(off[0])}` not recognised')
                    elif do != ('offset', 'output', 'out'):
                        why = (f'src_indices are shifted by the {do[0]} of the {do[1]} table at the {do[2]} '
                               'variable; they are positions inside the SOURCE and need the offset of the source in '
                               'the output vector')
                    else:
                        ok = True
            if ok:
                out.ok(fn, d.ast, 'with src_indices: output positions = src_indices + offset_out[idx_out]')
            elif why:
                out.bad(fn, d.ast, 'output positions with src_indices: ' + why, key='xfer-output-indices')
    if seen['none'] == 0 or seen['idx'] == 0:
        out.bad(fn, astx.stmt_of(cout), 'output positions need both forms: a contiguous range when there are no '
                'src_indices and src_indices + offset otherwise', key='xfer-output-forms')
    # (4) total size
    augs = [st for st in astx.walk_stmts(loop.body) if isinstance(st, ast.AugAssign) and
            isinstance(st.target, ast.Name) and st.target.id == a_tot.id]
    if len(augs) != 1 or not isinstance(augs[0].op, ast.Add):
        out.bad(fn, hand, f'`{a_tot.id}` must grow by the input size exactly once per connection', key='xfer-total')
    else:
        dz = _describe_pos(sym.term(augs[0].value, g.nodes_of(augs[0])[0]), xb)
        if dz is None:
            out.unsure(fn, augs[0], 'size term not recognised')
        elif dz != ('size', 'input', 'in'):
            out.bad(fn, augs[0], f'total transfer length grows by the {dz[0]} of the {dz[1]} table at the {dz[2]} '
                    'variable instead of the input size: index arrays are allocated with the wrong length',
                    key='xfer-total')
        else:
            # same iteration as the appends (not guarded differently)
            if astx.enclosing(augs[0], (ast.If, ast.For)) is not astx.enclosing(astx.stmt_of(cin), (ast.If, ast.For)):
                out.bad(fn, augs[0], 'total size and index lists are updated under different conditions',
                        key='xfer-total')
            else:
                out.ok(fn, augs[0], 'total length += size_in[idx_in] together with the appends')


# =========================================================================== C04.xfer-flow
def _param_names(fnode, skip_self=False):
    ps = [a.arg for a in fnode.args.posonlyargs + fnode.args.args]
    return ps[1:] if skip_self and ps and ps[0] in ('self', 'cls') else ps


def _bind(call, pnames):
    """Map parameter name -> argument expr for a call (positional + keywords)."""
    m = {}
    for i, a in enumerate(call.args):
        if isinstance(a, ast.Starred):
            return None
        if i < len(pnames):
            m[pnames[i]] = a
    for k in call.keywords:
        if k.arg is None:
            return None
        m[k.arg] = k.value
    return m


@rule('C04.xfer-flow', floor=9)
def xfer_flow(repo, out):
    """Input positions reach the scatter index and output positions the gather index of DefaultTransfer._transfer."""
    arrays = repo.func(XFER, '_setup_index_arrays')
    views = repo.func(XFER, '_setup_index_views')
    setup = repo.func(XFER, 'DefaultTransfer._setup_transfers')
    xfer = repo.func(XFER, 'DefaultTransfer._transfer')
    init = repo.lookup(XFER, 'DefaultTransfer', '__init__')
    if init is None:
        raise AnalysisError('DefaultTransfer.__init__ not resolvable')
    # ---- hop 0: which local of _setup_transfers holds input / output positions (by what is appended)
    ssym = Sym(setup)
    loops = [lp for lp in astx.walk_stmts(setup.node.body) if isinstance(lp, ast.For) and
             isinstance(lp.iter, ast.Call) and astx.callee_attr(lp.iter) == 'items' and
             (astx.path(lp.iter.func.value) or '').endswith('_conn_abs_in2out')]
    if len(loops) != 1:
        raise AnalysisError(f'{setup.ident}: connection loop not found')
    xb = _XB(ssym, loops[0])
    role_of_local = {}
    for c in _calls_named(loops[0], 'append'):
        r = c.func.value
        if isinstance(r, ast.Subscript) and isinstance(r.value, ast.Name) and c.args:
            t = _norm_iproc(ssym.term(c.args[0], ssym.at(c)))
            roles = set()
            for a in alts(t):
                if contains(a, lambda x: _k(x, 'attr') and x[2] == 'get_src_index_array'):
                    roles.add('O')
                elif _k(a, 'call') and attr_path(a[1]) == 'range' and a[2]:
                    d = _describe_pos(a[2][0], xb)
                    roles.add({'input': 'I', 'output': 'O'}.get(d[1]) if d else None)
                else:
                    roles.add(None)
            if len(roles) == 1 and None not in roles:
                role_of_local.setdefault(r.value.id, set()).add(roles.pop())
    pa = _param_names(arrays.node)
    n_ok = 0
    dict_role = {}       # param name of _setup_index_arrays -> 'I'/'O'
    for st in astx.walk_stmts(setup.node.body):
        if isinstance(st, ast.Assign) and isinstance(st.value, ast.Call) and \
                astx.callee_attr(st.value) == '_setup_index_arrays' and \
                isinstance(st.targets[0], ast.Subscript) and astx.const_str(st.targets[0].slice) == 'fwd':
            b = _bind(st.value, pa)
            if b is None:
                out.unsure(setup, st, 'star-args call')
                return
            for p, a in b.items():
                if isinstance(a, ast.Name) and a.id in role_of_local and len(role_of_local[a.id]) == 1:
                    dict_role[p] = next(iter(role_of_local[a.id]))
    if sorted(dict_role.values()) != ['I', 'O']:
        raise AnalysisError(f'{setup.ident}: could not identify the input/output position lists passed to '
                            '_setup_index_arrays')
    out.ok(setup, setup.node, f'lists handed over as {dict_role}')
    # ---- hop 1: _setup_index_views: roles of its parameters -> roles of the returned arrays
    pv = _param_names(views.node)
    vsym = Sym(views)
    filled = {}          # local array name -> set of param names it is filled from
    for st in astx.walk_stmts(views.node.body):
        # X[a:b] = rng   with rng a loop variable over ranges = <param>.items() value
        if isinstance(st, ast.Assign) and isinstance(st.targets[0], ast.Subscript) and \
                isinstance(st.targets[0].value, ast.Name) and isinstance(st.value, ast.Name):
            t = vsym.term(st.value, vsym.g.nodes_of(st)[0])
            srcs = set()
            contains(t, lambda x: srcs.add(x[1]) if _k(x, 'param') else False)
            if _is_loop_derived(t) and srcs & set(pv):
                filled.setdefault(st.targets[0].value.id, set()).update(srcs & set(pv))
        # _fill(X[a:b], <param>[key])
        if isinstance(st, ast.Expr) and isinstance(st.value, ast.Call) and astx.callee_attr(st.value) == '_fill' \
                and len(st.value.args) == 2:
            a0, a1 = st.value.args
            base = a0.value if isinstance(a0, ast.Subscript) else a0
            if isinstance(base, ast.Name):
                # the list that is copied: the subscripted container, not its key
                cont = a1.value if isinstance(a1, ast.Subscript) else a1
                t = vsym.term(cont, vsym.g.nodes_of(st)[0])
                srcs = set()
                contains(t, lambda x: srcs.add(x[1]) if _k(x, 'param') else False)
                filled.setdefault(base.id, set()).update(srcs & set(pv))
    rets = [st for st in astx.walk_stmts(views.node.body) if isinstance(st, ast.Return)]
    if len(rets) != 1 or not isinstance(rets[0].value, ast.Tuple) or len(rets[0].value.elts) != 2 or \
            not all(isinstance(e, ast.Name) for e in rets[0].value.elts):
        out.unsure(views, views.node, 'return value is not a pair of local arrays')
        return
    ret_from = []
    for e in rets[0].value.elts:
        f = filled.get(e.id, set())
        if len(f) != 1:
            out.unsure(views, rets[0], f'cannot tell which list fills `{e.id}` ({sorted(f)})')
            return
        ret_from.append(next(iter(f)))
    # write-back of the per-subsystem views
    for st in astx.walk_stmts(views.node.body):
        if isinstance(st, ast.Assign) and isinstance(st.targets[0], ast.Subscript) and \
                isinstance(st.targets[0].value, ast.Name) and st.targets[0].value.id in pv and \
                isinstance(st.value, ast.Subscript) and isinstance(st.value.value, ast.Name) and \
                st.value.value.id in filled:
            src = filled[st.value.value.id]
            if src == {st.targets[0].value.id}:
                out.ok(views, st, 'per-subsystem view written back to the list it was filled from')
                n_ok += 1
            else:
                out.bad(views, st, f'`{st.targets[0].value.id}[...]` receives a view of the array filled from '
                        f'`{sorted(src)}`: per-subsystem transfers would use input positions as output positions '
                        '(or vice versa)', key='views-writeback')
    # the window [lo:hi] of a write-back must start where the subsystem's block starts: `lo` may not be a
    # cursor that is advanced while the block is filled
    for st in astx.walk_stmts(views.node.body):
        if isinstance(st, ast.Assign) and isinstance(st.targets[0], ast.Subscript) and \
                isinstance(st.targets[0].value, ast.Name) and st.targets[0].value.id in pv and \
                isinstance(st.value, ast.Subscript) and isinstance(st.value.slice, ast.Slice) and \
                isinstance(st.value.slice.lower, ast.Name):
            lo = st.value.slice.lower.id
            outer = _enclosing_for(st)
            inner = [lp for lp in astx.walk_stmts(outer[0].body) if isinstance(lp, ast.For)] if outer else []
            moved = [d for d in vsym.rd.defs(vsym.g.nodes_of(st)[0], lo)
                     if d.kind == 'stmt' and any(astx.in_body(d.ast, lp, 'body') for lp in inner)]
            if moved:
                out.bad(views, st, f'the view starts at `{lo}`, which was advanced while this subsystem\'s block was '
                        'filled: the per-subsystem index view is empty/shifted and partial transfers move nothing or '
                        'the wrong positions', key='views-window')
    # ---- hop 2: _setup_index_arrays
    asym = Sym(arrays)
    pinit = _param_names(init.node, skip_self=True)
    attr_of_param = {}
    for st in astx.walk_stmts(init.node.body):
        if isinstance(st, ast.Assign) and isinstance(st.value, ast.Name) and st.value.id in pinit:
            for t in st.targets:
                if isinstance(t, ast.Attribute) and astx.path(t.value) == 'self':
                    attr_of_param[st.value.id] = t.attr
    attr_role = {}       # attribute of the transfer object -> set of roles stored in it

    def role_of_expr(e, at):
        """Role of an index-array expression inside _setup_index_arrays."""
        t = asym.term(e, at)
        roles = set()
        for a in alts(t):
            if _k(a, 'unpack') and _k(a[3], 'call') and attr_path(a[3][1]) == '_setup_index_views':
                # which param of views does position a[1] come from; which of OUR params was passed there
                call_nodes = [c for c in _calls_named(arrays.node, '_setup_index_views')]
                b = _bind(call_nodes[0], pv) if call_nodes else None
                src_param = ret_from[a[1]] if a[1] < len(ret_from) else None
                arg = b.get(src_param) if b else None
                roles.add(dict_role.get(arg.id) if isinstance(arg, ast.Name) else None)
            elif _k(a, 'loopvar') and _k(a[3], 'call') and _k(a[3][1], 'attr') and a[3][1][2] in ('items', 'values'):
                want = 1 if a[3][1][2] == 'items' else 0
                roles.add(dict_role.get(a[3][1][1][1]) if a[1] == want and _k(a[3][1][1], 'param') else None)
            elif _k(a, 'sub') and _k(a[1], 'param'):
                roles.add(dict_role.get(a[1][1]))
            else:
                roles.add(None)
        return roles.pop() if len(roles) == 1 else None
    ctor_calls = [c for c in _calls_named(arrays.node, 'DefaultTransfer')]
    if len(ctor_calls) < 2:
        raise AnalysisError(f'{arrays.ident}: DefaultTransfer(...) constructions not found')
    for c in ctor_calls:
        b = _bind(c, pinit)
        at = asym.at(c)
        if b is None:
            out.unsure(arrays, astx.stmt_of(c), 'star-args constructor call')
            continue
        got = {}
        for p, a in b.items():
            if p in attr_of_param and attr_of_param[p] in ('_in_inds', '_out_inds'):
                got[attr_of_param[p]] = role_of_expr(a, at)
        if set(got) != {'_in_inds', '_out_inds'} or None in got.values():
            out.unsure(arrays, astx.stmt_of(c), f'index arguments not recognised ({got})')
            continue
        for k, v in got.items():
            attr_role.setdefault(k, set()).add(v)
        if got == {'_in_inds': 'I', '_out_inds': 'O'}:
            # per-subsystem construction: both arrays belong to the same subsystem key
            bi, bo = b.get([p for p in pinit if attr_of_param.get(p) == '_in_inds'][0]), \
                b.get([p for p in pinit if attr_of_param.get(p) == '_out_inds'][0])
            ti, to = asym.term(bi, at), asym.term(bo, at)
            if _k(ti, 'loopvar') and _k(to, 'sub'):
                key = ('loopvar', 0, ti[2], ti[3])
                if to[2] != key:
                    out.bad(arrays, astx.stmt_of(c), 'the per-subsystem transfer pairs the input positions of one '
                            f'subsystem with the output positions of `{show(to[2])}`', key='arrays-subsystem-key')
                    continue
            out.ok(arrays, astx.stmt_of(c), 'Transfer(in_inds=<input positions>, out_inds=<output positions>)')
            n_ok += 1
        else:
            out.bad(arrays, astx.stmt_of(c), 'the transfer object is constructed with '
                    f"_in_inds <- {'input' if got['_in_inds'] == 'I' else 'OUTPUT'} positions and _out_inds <- "
                    f"{'output' if got['_out_inds'] == 'O' else 'INPUT'} positions: values would be gathered from "
                    'input positions of the output vector', key='arrays-ctor-roles')
    if set(attr_of_param.values()) >= {'_in_inds', '_out_inds'}:
        out.ok(init, init.node, f'constructor stores {attr_of_param}')
    else:
        out.bad(init, init.node, 'Transfer.__init__ does not store both index arrays (_in_inds, _out_inds)',
                key='transfer-init')
    # ---- hop 3: the gather/scatter statement
    xs = Sym(xfer)
    px = _param_names(xfer.node, skip_self=True)
    _, _, fwd = _mode_split(astx.strip_doc(xfer.node.body))
    sets = [c for s2 in fwd for c in _calls_named(s2, 'set_val')]
    if len(sets) != 1:
        out.bad(xfer, xfer.node, 'the fwd branch of DefaultTransfer._transfer must perform exactly one '
                '`in_vec.set_val(out_vec[...][out positions], in positions)`', key='transfer-fwd-form')
        return
    c = sets[0]
    at = xs.at(c)
    val = astx.arg(c, 0, 'val')
    idxs = astx.arg(c, 1, 'idxs')
    recv = xs.term(c.func.value, at)
    okk = True

    def held_roles(t):
        names = {x for x in ('_in_inds', '_out_inds')
                 if contains(t, lambda y, x=x: _k(y, 'attr') and y[2] == x and y[1] == ('param', 'self'))}
        return {next(iter(attr_role.get(nm, {None}))) if len(attr_role.get(nm, ())) == 1 else None for nm in names}
    if recv != ('param', px[0]):
        out.bad(xfer, astx.stmt_of(c), f'values are written into `{show(recv)}`; the first argument passed by '
                f'Group._transfer (`{px[0]}`) is the input vector', key='transfer-fwd-target')
        okk = False
    if idxs is None:
        out.bad(xfer, astx.stmt_of(c), 'set_val without positions overwrites the whole input vector',
                key='transfer-fwd-scatter')
        okk = False
    else:
        r = held_roles(xs.term(idxs, at))
        if r != {'I'}:
            out.bad(xfer, astx.stmt_of(c), f'scatter positions `{astx.src(idxs)}` hold '
                    f"{'output' if r == {'O'} else 'unknown'} positions; the input vector must be written at the "
                    'input positions', key='transfer-fwd-scatter')
            okk = False
    tv = xs.term(val, at) if val is not None else None          # local aliases are looked through
    if not _k(tv, 'sub'):
        out.unsure(xfer, astx.stmt_of(c), 'transferred value is not a gather `array[positions]`')
        okk = False
    else:
        srcs = set()
        contains(tv[1], lambda x: srcs.add(x[1]) if _k(x, 'param') else False)
        if srcs != {px[1]}:
            out.bad(xfer, astx.stmt_of(c), f'values are gathered from `{show(tv[1])}`, not from the output '
                    f'vector argument `{px[1]}`', key='transfer-fwd-gather')
            okk = False
        r = held_roles(tv[2])
        if r != {'O'}:
            out.bad(xfer, astx.stmt_of(c), f'gather positions `{show(tv[2])}` hold '
                    f"{'input' if r == {'I'} else 'unknown'} positions; source values live at the output positions",
                    key='transfer-fwd-gather')
            okk = False
    if okk:
        out.ok(xfer, astx.stmt_of(c), 'in_vec[input positions] = out_vec[output positions]')
    # ---- hop 4: Group._transfer passes (input vector, output vector, mode)
    gt = repo.func(GROUP, 'Group._transfer')
    gs = Sym(gt)
    _, _, fwd_body = _mode_split(astx.strip_doc(gt.node.body))
    for c in [c for st in fwd_body for c in _calls_named(st, '_transfer')]:   # forward (value) transfers only
        if not (isinstance(c.func, ast.Attribute) and astx.path(c.func.value) != 'self'):
            continue
        b = _bind(c, px)
        at = gs.at(c)
        if b is None or px[0] not in b or px[1] not in b:
            out.unsure(gt, astx.stmt_of(c), 'transfer call arguments not recognised')
            continue
        kinds = []
        for p in px[:2]:
            t = gs.term(b[p], at)
            k = None
            if _k(t, 'sub') and _k(t[1], 'sub') and attr_path(t[1][1]) == 'self._vectors' and _k(t[1][2], 'const'):
                k = (t[1][2][1], t[2])
            kinds.append(k)
        if None in kinds:
            out.unsure(gt, astx.stmt_of(c), 'vector arguments not recognised')
        elif (kinds[0][0], kinds[1][0]) != ('input', 'output'):
            out.bad(gt, astx.stmt_of(c), f'transfer called with ({kinds[0][0]}, {kinds[1][0]}) vectors; '
                    f'DefaultTransfer._transfer expects ({px[0]}, {px[1]}) = (input, output)', key='group-xfer-args')
        elif kinds[0][1] != kinds[1][1]:
            out.bad(gt, astx.stmt_of(c), 'input and output vector of a transfer belong to different vector names '
                    f'(`{show(kinds[0][1])}` vs `{show(kinds[1][1])}`)', key='group-xfer-args')
        else:
            out.ok(gt, astx.stmt_of(c), 'xfer._transfer(inputs[vec_name], outputs[vec_name], mode)')


# =========================================================================== C04.group-xfer
@rule('C04.group-xfer', floor=4)
def group_xfer(repo, out):
    """Group._transfer (fwd): scaled transfers are wrapped norm->xfer->phys on the input vector; discrete transfer too."""
    fn = repo.func(GROUP, 'Group._transfer')
    sym = Sym(fn)
    g = sym.g
    # the fwd branch
    fwd_if, isfwd, body = _mode_split(astx.strip_doc(fn.node.body))
    if fwd_if is None:
        raise AnalysisError(f"{fn.ident}: `if mode == 'fwd'` not found")
    xcalls = [c for st in body for c in _calls_named(st, '_transfer')
              if isinstance(c.func, ast.Attribute) and astx.path(c.func.value) != 'self']
    if not xcalls:
        out.bad(fn, fwd_if, 'the forward branch performs no transfer', key='group-fwd-no-transfer')
        return
    hdr = g.nodes_of(fwd_if)[0]
    fwd_entry = [m for m, lab in g.succ[hdr] if lab == ('true' if isfwd else 'false')]

    def scaled_flag(test):
        return isinstance(test, ast.Attribute) and test.attr == '_has_input_scaling'
    n_scaled = 0
    for c in xcalls:
        st = astx.stmt_of(c)
        n = g.nodes_of(st)[0]
        guard = None
        for a in astx.ancestors(st):
            if a is fwd_if:
                break
            if isinstance(a, ast.If) and scaled_flag(a.test):
                guard = 'scaled' if astx.in_body(st, a, 'body') else 'plain'
            elif isinstance(a, ast.If) and isinstance(a.test, ast.UnaryOp) and isinstance(a.test.op, ast.Not) \
                    and scaled_flag(a.test.operand):
                guard = 'plain' if astx.in_body(st, a, 'body') else 'scaled'
        invec = astx.arg(c, 0, 'in_vec')
        if invec is None:
            out.unsure(fn, st, 'transfer call without input vector argument')
            continue
        tin = sym.term(invec, n)

        def scale_nodes(name):
            res = []
            for m in g.calling(name):
                for c2 in m.calls():
                    if astx.callee_attr(c2) == name and isinstance(c2.func, ast.Attribute):
                        md = astx.arg(c2, 0, 'mode')
                        mdv = sym.term(md, m) if md is not None else ('const', 'fwd')
                        res.append((m, sym.term(c2.func.value, m), mdv, c2))
            return res
        norms, physs = scale_nodes('scale_to_norm'), scale_nodes('scale_to_phys')
        if guard == 'plain':
            out.ok(fn, st, 'unscaled transfer on the branch without input scaling')
            continue
        # scaled (or unguarded) transfer: must be wrapped
        goodn = [m for m, rt, md, _ in norms if rt == tin and md == ('const', 'fwd')]
        goodp = [m for m, rt, md, _ in physs if rt == tin and md == ('const', 'fwd')]
        wrongvec = [c2 for m, rt, md, c2 in norms + physs if rt != tin and g.path(fwd_entry, [m], labels=cfgm.noexc)]
        wrongmode = [c2 for m, rt, md, c2 in norms + physs if rt == tin and md != ('const', 'fwd') and
                     g.path(fwd_entry, [m], labels=cfgm.noexc)]
        assume_scaled = None
        for a in astx.ancestors(st):
            if isinstance(a, ast.If) and (scaled_flag(a.test)):
                assume_scaled = g.assume(astx.dump(a.test), True)
        if wrongvec:
            out.bad(fn, astx.stmt_of(wrongvec[0]), f'`{astx.src(wrongvec[0])}` rescales a vector that is not the '
                    f'input vector handed to the transfer (`{astx.src(invec)}`): inputs keep normalised values / '
                    'outputs are corrupted', key='group-wrap-vector')
            continue
        if wrongmode:
            out.bad(fn, astx.stmt_of(wrongmode[0]), f'`{astx.src(wrongmode[0])}` in the forward branch uses the '
                    'reverse-mode scaling', key='group-wrap-mode')
            continue
        if guard is None and not goodn and not goodp:
            # no scaling branch at all: then unit conversion/scaling is never applied
            out.bad(fn, st, 'the forward transfer is never wrapped by scale_to_norm()/scale_to_phys() on the input '
                    'vector: inputs with a unit conversion or a scaled source receive the normalised source value',
                    key='group-wrap-missing')
            continue
        w1 = g.path(fwd_entry, [n], avoid=goodn, labels=cfgm.noexc, edge_ok=assume_scaled)
        if w1 is not None:
            out.bad(fn, st, 'a transfer with input scaling runs without a preceding scale_to_norm() of the input '
                    'vector: ' + g.fmt_path(w1), key='group-wrap-norm')
            continue
        w2 = g.path(g.normal_succ(n), [g.exit], avoid=goodp, labels=cfgm.noexc, edge_ok=assume_scaled)
        if w2 is not None:
            out.bad(fn, st, 'after a transfer with input scaling the input vector is not brought back with '
                    'scale_to_phys(): unit conversion / scaling is not applied to the received values: ' +
                    g.fmt_path(w2), key='group-wrap-phys')
            continue
        # no phys before the transfer, no norm after
        early = [m for m in goodp if g.path(fwd_entry, [m], avoid=[n], labels=cfgm.noexc, edge_ok=assume_scaled)]
        if early:
            out.bad(fn, early[0].ast, 'scale_to_phys() precedes the transfer (norm/phys swapped)', key='group-wrap-order')
            continue
        n_scaled += 1
        out.ok(fn, st, 'scale_to_norm() -> transfer -> scale_to_phys() on the input vector')
    if n_scaled == 0:
        out.bad(fn, fwd_if, 'no forward transfer is wrapped by scale_to_norm()/scale_to_phys(): unit conversion and '
                'source scaling are never applied to inputs', key='group-wrap-missing')
    # every fwd path with a transfer object performs a transfer
    xnodes = [g.nodes_of(astx.stmt_of(c))[0] for c in xcalls]
    tests = [st for st in astx.walk_stmts(body) if isinstance(st, ast.If) and isinstance(st.test, ast.Compare) and
             isinstance(st.test.ops[0], ast.IsNot) and astx.path(st.test.left) == 'xfer']
    for t in tests:
        tn = g.nodes_of(t)[0]
        starts = [m for m, lab in g.succ[tn] if lab == 'true']
        w = g.path(starts, [g.exit], avoid=xnodes, labels=cfgm.noexc)
        if w is not None:
            out.bad(fn, t, 'a forward path with a transfer object skips the transfer: ' + g.fmt_path(w),
                    key='group-fwd-skip')
        else:
            out.ok(fn, t, 'every path with a transfer object transfers')
    # discrete transfer on every fwd path of the nonlinear vector (assuming discrete connections exist)
    def assume_discrete(n, m, lab):
        if n.kind == 'test' and lab == 'false':
            t = n.ast.test
            if astx.mentions(t, '_conn_discrete_in2out'):
                # assumed true only when every conjunct is part of the assumption "a forward transfer of the
                # nonlinear vector in a group that owns discrete connections"
                def assumed(cj):
                    if (astx.path(cj) or '').endswith('_conn_discrete_in2out'):
                        return True
                    return isinstance(cj, ast.Compare) and len(cj.ops) == 1 and isinstance(cj.ops[0], ast.Eq) and \
                        isinstance(cj.left, ast.Name) and \
                        (cj.left.id, astx.const_str(cj.comparators[0])) in (('vec_name', 'nonlinear'), ('mode', 'fwd'))
                conj = t.values if isinstance(t, ast.BoolOp) and isinstance(t.op, ast.And) else [t]
                if all(assumed(cj) for cj in conj):
                    return False
            if isinstance(t, ast.Compare) and isinstance(t.left, ast.Name) and t.left.id == 'mode' and \
                    astx.const_str(t.comparators[0]) == 'fwd' and isinstance(t.ops[0], ast.Eq):
                return False
        if n.kind == 'test' and lab == 'true':
            t = n.ast.test
            if isinstance(t, ast.Compare) and isinstance(t.left, ast.Name) and t.left.id == 'mode' and \
                    astx.const_str(t.comparators[0]) == 'fwd' and isinstance(t.ops[0], ast.NotEq):
                return False
        return True
    # nodes that hand over the discrete variables: direct calls, or calls of a method of this class that does it on
    # every path on which discrete connections exist
    dn, dargs = [], []
    for m in g.nodes:
        for c2 in (m.calls() if m.kind in ('stmt', 'test', 'iter', 'with') else []):
            if not (isinstance(c2.func, ast.Attribute) and astx.path(c2.func.value) == 'self'):
                continue
            if c2.func.attr == '_discrete_transfer':
                a0 = astx.arg(c2, 0, 'sub')
                dn.append(m)
                dargs.append((m, sym.term(a0, m) if a0 is not None else None))
                continue
            callee = repo.lookup(GROUP, 'Group', c2.func.attr)
            if callee is None or callee.node is fn.node or \
                    '_discrete_transfer' not in {astx.callee_attr(x) for x in astx.calls(callee.node)}:
                continue
            hs = Sym(callee)
            hd = hs.g.calling('_discrete_transfer')
            if not hd or hs.g.path([hs.g.entry], [hs.g.exit], avoid=hd, labels=cfgm.noexc,
                                   edge_ok=assume_discrete) is not None:
                continue        # the helper does not always hand over: it does not count
            b = _bind(c2, _param_names(callee.node, skip_self=True))
            if b is None:
                continue
            amap = {('param', p_): sym.term(e_, m) for p_, e_ in b.items()}
            dn.append(m)
            for h in hd:
                for c3 in h.calls():
                    if astx.callee_attr(c3) == '_discrete_transfer':
                        a0 = astx.arg(c3, 0, 'sub')
                        t0 = hs.term(a0, h) if a0 is not None else None
                        dargs.append((m, subst(t0, lambda x: amap.get(x, x) if _k(x, 'param') else x)
                                      if t0 is not None else None))
    if not dn:
        out.bad(fn, fwd_if, 'discrete variables are never transferred', key='group-discrete')
        return
    okd = True
    for m, t0 in dargs:
        if t0 not in (('param', 'sub'), ('const', None)):
            out.bad(fn, m.ast, 'the discrete transfer must cover the same subsystem `sub` as the continuous one '
                    '(or everything)', key='group-discrete-sub')
            okd = False
    w = g.path([g.entry], [g.exit], avoid=dn, labels=cfgm.noexc, edge_ok=assume_discrete)
    if w is not None:
        out.bad(fn, fwd_if, "a forward transfer of the 'nonlinear' vector can finish without the discrete transfer: "
                'discrete inputs keep a stale object: ' + g.fmt_path(w), key='group-discrete-skip')
        okd = False
    if okd:
        out.ok(fn, dn[0].ast, f'{len(dn)} discrete transfer call(s); every forward path with discrete connections '
               'passes one')


# =========================================================================== C04.proto
@rule('C04.proto', floor=11)
def proto(repo, out):
    """(factor, offset) of unit_conversion and (a0, a1, factor, offset) of the scale factors: order and direction."""
    # ---- producer 1: PhysicalUnit.conversion_tuple_to -> (factor, offset)
    f = repo.func(UNITS, 'PhysicalUnit.conversion_tuple_to')
    s = Sym(f)
    rets = [st for st in astx.walk_stmts(f.node.body) if isinstance(st, ast.Return) and st.value is not None]
    other = f.node.args.args[1].arg if len(f.node.args.args) > 1 else None
    for st in rets:
        if not (isinstance(st.value, ast.Tuple) and len(st.value.elts) == 2):
            out.unsure(f, st, 'conversion tuple is not a 2-tuple literal')
            continue
        t0, t1 = (s.term(e, s.g.nodes_of(st)[0]) for e in st.value.elts)
        want0 = ('bin', 'Div', ('attr', ('param', 'self'), '_factor'), ('attr', ('param', other), '_factor'))
        has_off = lambda t: contains(t, lambda x: _k(x, 'attr') and x[2] == '_offset')   # noqa: E731
        if t0 == want0 and has_off(t1) and not has_off(t0):
            out.ok(f, st, 'returns (self._factor / other._factor, offset)')
        elif has_off(t0) and not has_off(t1):
            out.bad(f, st, 'conversion tuple returned as (offset, factor); every consumer unpacks '
                    '(factor, offset) and applies (x + offset) * factor', key='proto-tuple-order')
        elif t0 != want0 and _k(t0, 'bin') and t0[1] == 'Div' and not has_off(t0):
            out.bad(f, st, f'multiplicative part is `{show(t0)}`; converting self -> other needs '
                    'self._factor / other._factor', key='proto-factor-direction')
        else:
            out.unsure(f, st, 'conversion tuple not recognised')
    # ---- producer 2: unit_conversion(old, new) = find(old).conversion_tuple_to(find(new))
    f = repo.func(UNITS, 'unit_conversion')
    s = Sym(f)
    ps = [a.arg for a in f.node.args.args]
    for st in astx.walk_stmts(f.node.body):
        if isinstance(st, ast.Return) and isinstance(st.value, ast.Call) and \
                astx.callee_attr(st.value) == 'conversion_tuple_to':
            at = s.g.nodes_of(st)[0]
            rt = s.term(st.value.func.value, at)
            a0 = s.term(st.value.args[0], at) if st.value.args else None
            src_r = {x for x in ps if contains(rt, lambda y, x=x: y == ('param', x))}
            src_a = {x for x in ps if contains(a0, lambda y, x=x: y == ('param', x))}
            if src_r == {ps[0]} and src_a == {ps[1]}:
                out.ok(f, st, f'{ps[0]} -> {ps[1]}')
            elif src_r == {ps[1]} and src_a == {ps[0]}:
                out.bad(f, st, f'unit_conversion({ps[0]}, {ps[1]}) returns the tuple for {ps[1]} -> {ps[0]}',
                        key='proto-direction')
            else:
                out.unsure(f, st, 'receiver/argument of conversion_tuple_to not recognised')
    # ---- consumer 1: Group._compute_root_scale_factors
    f = repo.func(GROUP, 'Group._compute_root_scale_factors')
    s = Sym(f)
    g = s.g
    ucalls = _calls_named(f.node, 'unit_conversion')
    if not ucalls:
        raise AnalysisError(f'{f.ident}: unit_conversion is not called')

    def node_kind(t):
        # conn_graph.nodes[('i'|'o', name)]['attrs'].units
        for a in alts(t):
            if _k(a, 'attr') and a[2] == 'units' and _k(a[1], 'sub') and _const(a[1][2], 'attrs') and \
                    _k(a[1][1], 'sub') and _k(a[1][1][2], 'tuple') and len(a[1][1][2]) == 3 and \
                    _k(a[1][1][2][1], 'const'):
                return a[1][1][2][1][1], a[1][1][2][2]
            if _k(a, 'sub') and _const(a[2], 'units'):
                # meta dict form: allprocs_abs2meta['output'][src]['units']
                b = a[1]
                if _k(b, 'sub') and _k(b[1], 'sub') and _k(b[1][2], 'const') and b[1][2][1] in ('input', 'output'):
                    return b[1][2][1][0], b[2]
        return None
    for c in ucalls:
        st = astx.stmt_of(c)
        at = g.nodes_of(st)[0]
        if not (isinstance(st, ast.Assign) and isinstance(st.targets[0], ast.Tuple) and
                len(st.targets[0].elts) == 2 and all(isinstance(e, ast.Name) for e in st.targets[0].elts)):
            out.bad(f, st, 'the result of unit_conversion is a (factor, offset) pair and must be unpacked into two names',
                    key='proto-unpack')
            continue
        if len(c.args) != 2:
            out.unsure(f, st, 'unit_conversion call form not recognised')
            continue
        k0, k1 = node_kind(s.term(c.args[0], at)), node_kind(s.term(c.args[1], at))
        if k0 is None or k1 is None:
            out.unsure(f, st, 'unit arguments are not the units of connection-graph nodes')
            continue
        if (k0[0], k1[0]) == ('o', 'i'):
            # the output node must be the source OF this input
            src_ok = _k(k0[1], 'sub') and attr_path(k0[1][1]) is not None and \
                attr_path(k0[1][1]).endswith('_conn_global_abs_in2out') and k0[1][2] == k1[1]
            if src_ok:
                out.ok(f, st, 'unit_conversion(units of the source, units of the input)')
            else:
                out.bad(f, st, 'the output node whose units are used is not the connected source of the input',
                        key='proto-consumer-nodes')
        elif (k0[0], k1[0]) == ('i', 'o'):
            out.bad(f, st, 'unit_conversion(units of the INPUT, units of the SOURCE): the tuple converts in the wrong '
                    'direction (inputs would hold source values divided instead of multiplied by the factor)',
                    key='proto-consumer-direction')
        else:
            out.unsure(f, st, f'unit arguments come from nodes {k0[0]!r}, {k1[0]!r}')
    # stored 4-tuple
    stores = [st for st in astx.walk_stmts(f.node.body) if isinstance(st, ast.Assign) and
              isinstance(st.targets[0], ast.Subscript) and isinstance(st.value, ast.Dict) and
              any(astx.const_str(k) == 'input' for k in st.value.keys)]
    n4 = 0
    for st in stores:
        v = [v for k, v in zip(st.value.keys, st.value.values) if astx.const_str(k) == 'input'][0]
        if not (isinstance(v, ast.Tuple) and len(v.elts) == 4):
            out.bad(f, st, "scale_factors[...]['input'] must be the 4-tuple (a0, a1, factor, offset) unpacked by "
                    'DefaultVector._set_scaling', key='proto-store-arity')
            continue
        at = g.nodes_of(st)[0]
        t2, t3 = s.term(v.elts[2], at), s.term(v.elts[3], at)
        if _const(t2, None) and _const(t3, None):
            out.ok(f, st, 'scaling only: (a0, a1, None, None)')
            continue
        # must be positions 0 and 1 of a unit_conversion(...) result
        def pos(t):
            for a in alts(t):
                if _k(a, 'unpack') and _k(a[3], 'call') and attr_path(a[3][1]) == 'unit_conversion':
                    return a[1]
            return None
        p2, p3 = pos(t2), pos(t3)
        if (p2, p3) == (0, 1):
            n4 += 1
            out.ok(f, st, 'stores (a0, a1, factor, offset) with factor/offset in unit_conversion order')
        elif (p2, p3) == (1, 0):
            out.bad(f, st, 'stores (a0, a1, offset, factor): DefaultVector._set_scaling unpacks '
                    '(a0, a1, factor, offset)', key='proto-store-order')
        else:
            out.unsure(f, st, 'factor/offset slots not recognised')
    if n4 == 0:
        out.bad(f, f.node, 'no input entry carries the unit conversion (factor, offset): unit conversion of '
                'connected inputs is lost', key='proto-store-missing')
    # adder allocation flag sees the converted offset
    augs = [st for st in astx.walk_stmts(f.node.body) if isinstance(st, ast.AugAssign) and
            astx.path(st.target) == 'self._has_input_adder']
    if len(augs) != 1:
        out.bad(f, f.node, 'self._has_input_adder is not accumulated: the additive part of unit conversions '
                '(degC -> degF) has no storage', key='proto-adder-flag')
    else:
        st = augs[0]
        t = s.term(st.value, g.nodes_of(st)[0])
        unit_alt = [a for a in alts_deep(t) if contains(a, lambda x: _k(x, 'unpack') and _k(x[3], 'call') and
                                                        attr_path(x[3][1]) == 'unit_conversion' and x[1] == 1)]
        if isinstance(st.op, ast.BitOr) and unit_alt:
            out.ok(f, st, 'adder flag |= any((ref0 + offset) * factor)')
        elif not isinstance(st.op, ast.BitOr):
            out.bad(f, st, 'the adder flag must accumulate with |= over all inputs', key='proto-adder-flag')
        else:
            out.bad(f, st, 'the adder allocation test does not see the unit offset: an input whose only additive '
                    'term is the unit offset (degC -> degF with ref0 == 0) gets no adder array and the offset is '
                    'silently dropped', key='proto-adder-flag')
    # _get_root_vectors: factors (and the adder flag) are computed before do_adder reads the flag
    f2 = repo.func(GROUP, 'Group._get_root_vectors')
    g2 = cfgm.build(f2)
    comp = g2.calling('_compute_root_scale_factors')
    reads = g2.where(lambda n: n.kind == 'stmt' and isinstance(n.ast, ast.Assign) and
                     any(isinstance(x, ast.Attribute) and x.attr == '_has_input_adder' and
                         isinstance(x.ctx, ast.Load) for x in astx.walk(n.ast.value)))
    if not comp or not reads:
        out.unsure(f2, f2.node, '_compute_root_scale_factors call / _has_input_adder read not found')
    else:
        flag = [a for a in astx.ancestors(comp[0].ast) if isinstance(a, ast.If)]
        eo = g2.assume(astx.dump(flag[0].test), True) if flag else None
        for r in reads:
            if g2.path([g2.entry], [r], avoid=comp, labels=cfgm.noexc, edge_ok=eo) is not None:
                out.bad(f2, r.ast, 'self._has_input_adder is read before _compute_root_scale_factors() has set it: '
                        'the input adder array is not allocated and unit offsets are dropped',
                        key='proto-adder-order')
            else:
                out.ok(f2, r.ast, 'adder flag read after the scale factors were computed')
    # ---- consumer 2: DefaultVector._set_scaling
    f = repo.func(DVEC, 'DefaultVector._set_scaling')
    s = Sym(f)
    g = s.g
    unp = [st for st in astx.walk_stmts(f.node.body) if isinstance(st, ast.Assign) and
           isinstance(st.targets[0], ast.Tuple) and len(st.targets[0].elts) == 4 and
           isinstance(st.value, ast.Subscript)]
    if len(unp) != 1:
        out.bad(f, f.node, '_set_scaling must unpack the 4-tuple (a0, a1, factor, offset) exactly once',
                key='proto-consume-arity')
        return
    u = unp[0]
    ut = s.term(u.value, g.nodes_of(u)[0])

    def slot(t):
        """Position (0..3) in the unpacked tuple of a term, else None."""
        if _k(t, 'unpack') and t[2] == 4 and t[3] == ut:
            return t[1]
        return None
    A0, A1, FA, OF = (('unpack', i, 4, ut) for i in range(4))
    # nonlinear branch with unit conversion: innermost `if <slot2> is not None:` then `if islinear: else:`
    assigns = {}
    for st in astx.walk_stmts(f.node.body):
        if isinstance(st, ast.Assign) and isinstance(st.targets[0], ast.Name) and st.targets[0].id in \
                ('scale0', 'scale1') or (isinstance(st, ast.Assign) and isinstance(st.targets[0], ast.Name)
                                         and _enclosing_if_chain(st, s, FA)):
            assigns.setdefault(_branch_of(st, s, FA), []).append(st)
    nl = assigns.get(('unit', 'nonlinear'), [])
    if len(nl) < 2:
        out.unsure(f, u, 'nonlinear unit-conversion branch of _set_scaling not recognised')
        return
    # which local ends up in the adder / scaler array
    sink = {}
    for st in astx.walk_stmts(f.node.body):
        if isinstance(st, ast.Assign) and isinstance(st.targets[0], ast.Subscript) and \
                isinstance(st.targets[0].value, ast.Name) and isinstance(st.value, ast.Name):
            tt = s.term(st.targets[0].value, g.nodes_of(st)[0])
            if _k(tt, 'unpack') and tt[2] == 2 and attr_path(tt[3]) == 'self._scaling':
                sink[st.value.id] = 'scaler' if tt[1] == 0 else 'adder'
    want = {'adder': _mk('Mult', _mk('Add', A0, OF), FA), 'scaler': _mk('Mult', A1, FA)}
    seen = set()
    for st in nl:
        nm = st.targets[0].id
        role = sink.get(nm)
        if role is None:
            continue
        seen.add(role)
        t = s.term(st.value, g.nodes_of(st)[0])
        names = {A0: 'a0', A1: 'a1', FA: 'factor', OF: 'offset'}
        pt, pw = _poly(t, names), _poly(want[role], names)
        if pt is None:
            out.unsure(f, st, f'{role} expression `{astx.src(st.value)}` is outside the +,-,*,/ fragment over the tuple slots')
        elif pt == pw:
            out.ok(f, st, f'{role} = ' + ('(a0 + offset) * factor' if role == 'adder' else 'a1 * factor'))
        else:
            out.bad(f, st, f'nonlinear input {role} is `{_poly_show(pt)}` in terms of the stored (a0, a1, factor, offset); '
                    'the input in its own units is (a0 + a1*x + offset) * factor, i.e. adder (a0 + offset) * factor and '
                    'scaler a1 * factor', key=f'proto-apply-{role}')
    if seen != {'adder', 'scaler'}:
        out.unsure(f, u, f'adder/scaler assignment of the nonlinear unit branch not recognised ({sorted(seen)})')
    # _scale_reverse applies scaler then adder; scale_to_phys passes *self._scaling = (scaler, adder)
    f3 = repo.func(DVEC, 'DefaultVector._scale_reverse')
    p3 = _param_names(f3.node, skip_self=True)
    ops = []
    for st in astx.walk_stmts(f3.node.body):
        if isinstance(st, ast.AugAssign) and isinstance(st.value, ast.Name) and st.value.id in p3:
            ops.append((type(st.op).__name__, p3.index(st.value.id)))
    if ops == [('Mult', 0), ('Add', 1)]:
        out.ok(f3, f3.node, 'phys = norm * scaling[0] + scaling[1]')
    elif sorted(ops) == [('Add', 1), ('Mult', 0)] or ops == [('Mult', 1), ('Add', 0)] or ops == [('Add', 0), ('Mult', 1)]:
        out.bad(f3, f3.node, f'_scale_reverse applies {ops}; with (scaler, adder) = self._scaling the physical value '
                'is data * scaler + adder', key='proto-scale-reverse')
    else:
        out.unsure(f3, f3.node, f'_scale_reverse operations not recognised: {ops}')


def _poly(t, names):
    """Laurent polynomial {monomial: coeff} of a term over named atoms (+, -, *, / by a single monomial), else None.

    A monomial is a sorted tuple of (atom name, exponent)."""
    from fractions import Fraction
    if t in names:
        return {((names[t], 1),): Fraction(1)}
    if _k(t, 'const') and isinstance(t[1], (int, float)) and not isinstance(t[1], bool):
        return {(): Fraction(t[1])} if t[1] != 0 else {}
    if _k(t, 'un') and t[1] == 'USub':
        p = _poly(t[2], names)
        return None if p is None else {m: -c for m, c in p.items()}
    if _k(t, 'bin'):
        a, b = _poly(t[2], names), _poly(t[3], names)
        if a is None or b is None:
            return None
        if t[1] in ('Add', 'Sub'):
            res = dict(a)
            for m, c in b.items():
                res[m] = res.get(m, 0) + (c if t[1] == 'Add' else -c)
            return {m: c for m, c in res.items() if c != 0}

        def mul(m1, m2, sign=1):
            d = dict(m1)
            for n, e in m2:
                d[n] = d.get(n, 0) + sign * e
            return tuple(sorted((n, e) for n, e in d.items() if e != 0))
        if t[1] == 'Mult':
            res = {}
            for m1, c1 in a.items():
                for m2, c2 in b.items():
                    m = mul(m1, m2)
                    res[m] = res.get(m, 0) + c1 * c2
            return {m: c for m, c in res.items() if c != 0}
        if t[1] == 'Div' and len(b) == 1:
            (m2, c2), = b.items()
            return {mul(m1, m2, -1): c1 / c2 for m1, c1 in a.items()}
    return None


def _poly_show(p):
    if not p:
        return '0'
    parts = []
    for m, c in sorted(p.items()):
        mono = '*'.join(n if e == 1 else f'{n}**{e}' for n, e in m) or '1'
        parts.append(mono if c == 1 else f'{c}*{mono}')
    return ' + '.join(parts)


def alts_deep(t):
    """All alternatives of nested alt-terms (the term itself included)."""
    res = [t]
    if isinstance(t, tuple):
        if t and t[0] == 'alt':
            for a in t[1]:
                res.extend(alts_deep(a))
        else:
            for x in t:
                if isinstance(x, (tuple, frozenset)):
                    res.extend(alts_deep(x))
    elif isinstance(t, frozenset):
        for a in t:
            res.extend(alts_deep(a))
    return res


def _enclosing_if_chain(st, s, FA):
    return _branch_of(st, s, FA) is not None


def _branch_of(st, s, FA):
    """('unit'|'plain', 'linear'|'nonlinear') branch of a statement in _set_scaling, or None."""
    unit = lin = None
    for a in astx.ancestors(st):
        if not isinstance(a, ast.If):
            continue
        inbody = astx.in_body(st, a, 'body')
        t = a.test
        if isinstance(t, ast.Compare) and len(t.ops) == 1 and isinstance(t.ops[0], (ast.Is, ast.IsNot)) and \
                isinstance(t.comparators[0], ast.Constant) and t.comparators[0].value is None:
            tt = s.term(t.left, s.g.nodes_of(a)[0])
            if tt == FA or (_k(tt, 'unpack') and _k(FA, 'unpack') and tt[2:] == FA[2:] and tt[1] in (2, 3)):
                notnone = isinstance(t.ops[0], ast.IsNot)
                if unit is None:
                    unit = 'unit' if notnone == inbody else 'plain'
        else:
            tt = s.term(t, s.g.nodes_of(a)[0])
            # islinear := self._name == 'linear'
            def is_lin(x):
                return _k(x, 'cmp') and x[1] == 'Eq' and {x[2], x[3]} == {('attr', ('param', 'self'), '_name'),
                                                                         ('const', 'linear')}
            if is_lin(tt):
                if lin is None:
                    lin = 'linear' if inbody else 'nonlinear'
            elif _k(tt, 'ast') or True:
                # `islinear and isinput` etc.: conjunction containing islinear
                if isinstance(t, ast.BoolOp) and isinstance(t.op, ast.And) and \
                        any(is_lin(s.term(v, s.g.nodes_of(a)[0])) for v in t.values):
                    if lin is None:
                        lin = 'linear' if inbody else 'nonlinear?'
    if unit is None or lin is None:
        return None
    return unit, lin


# =========================================================================== C04.scale-idx
class _Undecided(Exception):
    pass


def _bool_eval(test, env_of):
    """Evaluate an AST test made of not/and/or over atoms; env_of(expr) -> bool or raises _Undecided."""
    if isinstance(test, ast.BoolOp):
        vals = [_bool_eval(v, env_of) for v in test.values]
        return all(vals) if isinstance(test.op, ast.And) else any(vals)
    if isinstance(test, ast.UnaryOp) and isinstance(test.op, ast.Not):
        return not _bool_eval(test.operand, env_of)
    return env_of(test)


@rule('C04.scale-idx', floor=2)
def scale_idx(repo, out):
    """Array ref/ref0 of the source go through the input's src_indices on every (scalar_ref, scalar_ref0) pattern."""
    fn = repo.func(GROUP, 'Group._compute_root_scale_factors')
    sym = Sym(fn)
    g = sym.g
    conv = [c for c in _calls_named(fn.node, 'idx_list_to_index_array')]
    if len(conv) != 1:
        raise AnalysisError(f'{fn.ident}: idx_list_to_index_array call not found')
    c = conv[0]
    cst = astx.stmt_of(c)
    at = sym.at(c)
    lt = sym.term(c.args[0], at) if c.args else None
    ok_list = False
    for a in alts(lt):
        if _k(a, 'sub') and _const(a[2], 'src_inds_list') and _k(a[1], 'loopvar') and a[1][1] == 1 and \
                contains(a[1][3], lambda x: _k(x, 'sub') and _const(x[2], 'input')):
            ok_list = True
        elif _k(a, 'attr') and a[2] == 'src_inds_list' and contains(a, lambda x: x == ('const', 'i')):
            ok_list = True
    if ok_list:
        out.ok(fn, cst, "index array built from the input's own src_inds_list")
    else:
        out.bad(fn, cst, f'index array is built from `{show(lt)}`, not from the src_inds_list of the input whose '
                'scale factors are computed', key='scale-idx-list')
    if not (isinstance(cst, ast.Assign) and isinstance(cst.targets[0], ast.Name)):
        out.unsure(fn, cst, 'index array is not stored in a local')
        return
    idx_name = cst.targets[0].id
    block = cst._parent
    if not isinstance(block, ast.If) or cst not in block.body:
        out.unsure(fn, cst, 'index array is not computed inside the `not (scalar_ref and scalar_ref0)` block')
        return

    def from_conv(t):
        return all(contains(a, lambda x: _k(x, 'call') and attr_path(x[1]) == 'idx_list_to_index_array')
                   for a in alts(t))

    # which locals are ref / ref0 of the connected source, and which flags say "scalar"
    def src_role(t):
        for a in alts(t):
            while _k(a, 'sub') and from_conv(a[2]):
                a = a[1]
            if _k(a, 'sub') and _k(a[2], 'const') and a[2][1] in ('ref', 'ref0'):
                base = a[1]
                src_ok = _k(base, 'sub') and _k(base[2], 'sub') and attr_path(base[2][1]) is not None and \
                    attr_path(base[2][1]).endswith('_conn_global_abs_in2out')
                return a[2][1], src_ok
        return None
    var_role = {}
    for st in astx.walk_stmts(block.body):
        if isinstance(st, ast.Assign) and len(st.targets) == 1 and isinstance(st.targets[0], ast.Name) and \
                isinstance(st.value, ast.Subscript) and isinstance(st.value.value, ast.Name) and \
                st.value.value.id == st.targets[0].id:
            r = src_role(sym.term(st.value.value, g.nodes_of(st)[0]))
            if r:
                var_role[st.targets[0].id] = r
    if sorted(r[0] for r in var_role.values()) != ['ref', 'ref0']:
        # maybe only one of them is indexed at all
        if len(var_role) == 1:
            nm, (what, _) = next(iter(var_role.items()))
            other = 'ref0' if what == 'ref' else 'ref'
            out.bad(fn, block, f'only {what} of the source is taken through the src_indices; an array {other} keeps the '
                    'size and order of the source while the input is indexed', key=f'scale-idx-unindexed:{other}')
        else:
            out.unsure(fn, block, 'ref/ref0 locals not recognised')
        return
    for nm, (what, src_ok) in var_role.items():
        if not src_ok:
            out.bad(fn, block, f'`{nm}` is not the {what} of the connected source '
                    '(allprocs_meta_out[self._conn_global_abs_in2out[abs_in]])', key=f'scale-idx-source:{what}')
            return
    name_of = {what: nm for nm, (what, _) in var_role.items()}

    def flag_of(expr, node):
        """'ref'/'ref0' if expr is the "<that> is scalar" flag, else None."""
        t = sym.term(expr, node)
        if _k(t, 'cmp') and t[1] == 'Eq' and ('const', 0) in t[2:]:
            other = t[3] if t[2] == ('const', 0) else t[2]
            if _k(other, 'call') and attr_path(other[1]) in ('np.ndim', 'numpy.ndim') and len(other[2]) == 1:
                r = src_role(other[2][0])
                return r[0] if r else None
        return None

    # ---- abstract execution of the block for every pattern on which it is entered
    verdicts = []          # (pattern, kind, what, stmt)
    undecided = None
    for scal in ((False, False), (False, True), (True, False), (True, True)):
        env = {'ref': scal[0], 'ref0': scal[1]}

        def env_of(expr, node):
            f = flag_of(expr, node)
            if f is None:
                raise _Undecided(astx.src(expr))
            return env[f]
        try:
            if not _bool_eval(block.test, lambda e: env_of(e, g.nodes_of(block)[0])):
                continue
        except _Undecided as u:
            undecided = f'guard atom `{u}` is not a scalar-ness flag of ref/ref0'
            break
        state = {w: ('scalar' if env[w] else 'array') for w in ('ref', 'ref0')}
        where = {}

        def run(stmts):
            for st in stmts:
                if isinstance(st, ast.If):
                    if all(isinstance(b, ast.Raise) for b in st.body) and not st.orelse:
                        continue                                   # error exits for unsupported set-ups
                    if astx.mentions(st.test, idx_name) and not any(astx.mentions(st, n) and
                                                                   any(isinstance(t, ast.Name) and t.id == n
                                                                       for s2 in astx.walk_stmts(st.body + st.orelse)
                                                                       for t in astx.assigned_targets(s2))
                                                                   for n in name_of.values()):
                        continue                                   # reshaping of the index array itself
                    v = _bool_eval(st.test, lambda e: env_of(e, g.nodes_of(st)[0]))
                    run(st.body if v else st.orelse)
                    continue
                if isinstance(st, ast.Assign) and len(st.targets) == 1 and isinstance(st.targets[0], ast.Name):
                    nm = st.targets[0].id
                    if nm == idx_name:
                        continue
                    if nm in var_role:
                        w = var_role[nm][0]
                        v = st.value
                        if isinstance(v, ast.Subscript) and isinstance(v.value, ast.Name) and v.value.id == nm:
                            it = sym.term(v.slice, g.nodes_of(st)[0])
                            if not from_conv(it) or it != sym._name(idx_name, g.nodes_of(st)[0], 0):
                                state[w] = 'other-index'
                            elif state[w] == 'array':
                                state[w] = 'indexed'
                            elif state[w] == 'scalar':
                                state[w] = 'scalar-indexed'
                            where[w] = st
                            continue
                        if isinstance(v, ast.Call) and astx.callee_attr(v) in ('full', 'broadcast_to', 'full_like'):
                            shp = v.args[0] if astx.callee_attr(v) == 'full' else (v.args[1] if len(v.args) > 1 else None)
                            okshape = None
                            if isinstance(shp, ast.Attribute) and shp.attr == 'shape' and isinstance(shp.value, ast.Name):
                                if shp.value.id in var_role and shp.value.id != nm:
                                    okshape = state[var_role[shp.value.id][0]] == 'indexed'
                                elif shp.value.id == idx_name:
                                    okshape = True
                            if okshape is None:
                                raise _Undecided(f'fill shape `{astx.src(shp)}`')
                            state[w] = 'filled' if (okshape and state[w] == 'scalar') else \
                                'filled-unindexed-shape' if state[w] == 'scalar' else 'array-overwritten'
                            where[w] = st
                            continue
                    if any(astx.mentions(st, n) for n in name_of.values()):
                        raise _Undecided(f'statement `{astx.src(st)}`')
                    continue
                if isinstance(st, (ast.Expr, ast.Pass)) and not any(astx.mentions(st, n) for n in name_of.values()):
                    continue
                raise _Undecided(f'statement `{astx.src(st)}`')
        try:
            run(block.body[block.body.index(cst) + 1:])
        except _Undecided as u:
            undecided = str(u)
            break
        pat = ', '.join(f"{w} {'scalar' if env[w] else 'array'}" for w in ('ref', 'ref0'))
        for w in ('ref', 'ref0'):
            verdicts.append((pat, state[w], w, where.get(w)))
    if undecided:
        out.unsure(fn, block, f'cannot evaluate the ref/ref0 block: {undecided}')
        return
    bad = [v for v in verdicts if v[1] not in ('indexed', 'scalar', 'filled')]
    if not verdicts:
        out.unsure(fn, block, 'the block is never entered')
        return
    msgs = {
        'array': 'is an array but is NOT taken through the src_indices of the input (it keeps the size and order of the '
                 'source): the scaling applied to the input differs from that of the source elements it receives, so '
                 'the input silently holds wrong values',
        'filled-unindexed-shape': 'is scalar and is filled to the shape of the partner BEFORE the partner is indexed '
                                  '(source size instead of input size): shape mismatch in a1 = ref - ref0',
        'scalar-indexed': 'is scalar but is subscripted with the index array',
        'other-index': 'is subscripted with something that is not the index array of the input',
        'array-overwritten': 'is an array and is overwritten by a constant fill',
    }
    seen = set()
    for pat, kind, w, st in bad:
        key = {'array': f'scale-idx-unindexed:{w}', 'filled-unindexed-shape': f'scale-fill-shape:{w}'}.get(
            kind, f'scale-idx-{kind}:{w}')
        if key in seen:
            continue
        seen.add(key)
        out.bad(fn, st if st is not None else block, f'when {pat}: {w} of the source {msgs[kind]}', key=key)
    if not bad:
        npat = len({v[0] for v in verdicts})
        out.ok(fn, block, f'on all {npat} (scalar_ref, scalar_ref0) patterns every array is indexed by the src_indices '
               'and a scalar partner is filled to the indexed shape')
        for w in ('ref', 'ref0'):
            sts = [v[3] for v in verdicts if v[2] == w and v[1] == 'indexed' and v[3] is not None]
            if sts:
                out.ok(fn, sts[0], f'{w}[src_indices] whenever {w} is an array')


# =========================================================================== C04.slice-norm
_ABS = (None, 'neg', 'zero', 'pos')


def _abs_cmp(val, op, k):
    """Truth of `val <op> k` for an abstract int val in {neg, zero, pos} and k == 0."""
    if val is None:
        raise _Undecided('comparison with None')
    if k != 0:
        raise _Undecided('comparison with a non-zero literal')
    rep = {'neg': -1, 'zero': 0, 'pos': 1}[val]
    return {'Lt': rep < 0, 'LtE': rep <= 0, 'Gt': rep > 0, 'GtE': rep >= 0, 'Eq': rep == 0, 'NotEq': rep != 0}[op]


_SWAPOP = {'Lt': 'Gt', 'LtE': 'GtE', 'Gt': 'Lt', 'GtE': 'LtE', 'Eq': 'Eq', 'NotEq': 'NotEq'}


def _slice_cond(t, pat, extra=None):
    """Evaluate a condition term over slice fields under pattern {start, stop, step -> abstract value}."""
    SLC = ('attr', ('param', 'self'), '_slice')
    if extra is not None:
        v = extra(t)
        if v is not None:
            return v
    if _k(t, 'bool'):
        res = None
        for v in t[2:]:
            r = _slice_cond(v, pat, extra)
            if t[1] == 'And' and not r:
                return False
            if t[1] == 'Or' and r:
                return True
            res = r
        return bool(res) if t[1] == 'Or' else True
    if _k(t, 'un') and t[1] == 'Not':
        return not _slice_cond(t[2], pat, extra)
    if _k(t, 'cmp'):
        op, l, r = t[1], t[2], t[3]

        def field(x):
            return x[2] if _k(x, 'attr') and x[1] == SLC and x[2] in ('start', 'stop', 'step') else None
        if field(r) and not field(l):
            l, r, op = r, l, _SWAPOP.get(op, op)
        f = field(l)
        if f:
            if op in ('Is', 'IsNot') and r == ('const', None):
                return (pat[f] is None) == (op == 'Is')
            if _k(r, 'const') and isinstance(r[1], int) and op in _SWAPOP:
                return _abs_cmp(pat[f], op, r[1])
        if extra is not None:
            v = extra(t)
            if v is not None:
                return v
    raise _Undecided(show(t))


@rule('C04.slice-norm', floor=2)
def slice_norm(repo, out):
    """A slice whose bounds reach np.arange(*slc.indices(maxsize)) unresolved must have non-negative explicit bounds."""
    SELF = ('param', 'self')
    SLC = ('attr', SELF, '_slice')
    SRC = ('attr', SELF, '_src_shape')
    DIM0 = ('sub', SRC, ('const', 0))
    # ---- producer: which patterns keep the raw slice (abstract execution of shaped_instance per sign pattern)
    fn = repo.func(INDEXER, 'SliceIndexer.shaped_instance')
    sym = Sym(fn)
    if not _calls_named(fn.node, 'ShapedSliceIndexer'):
        raise AnalysisError(f'{fn.ident}: no ShapedSliceIndexer construction')

    def slice_kind(t):
        """'raw' / 'resolved' for a term that is the own slice or its resolution against src_shape[0]."""
        if t == SLC:
            return 'raw'
        if _k(t, 'call') and attr_path(t[1]) == 'slice' and len(t[2]) == 1 and _k(t[2][0], 'star') and \
                _k(t[2][0][1], 'call') and t[2][0][1][1] == ('attr', SLC, 'indices') and t[2][0][1][2] == (DIM0,):
            return 'resolved'
        return None

    class _Done(Exception):
        def __init__(self, kind, st):
            self.kind, self.st = kind, st

    def mentions_slice(t):
        return contains(t, lambda x: x == SLC)

    def execute(stmts, pat, env):
        """Run statements; raises _Done(kind, stmt) at the ShapedSliceIndexer construction."""
        for st in stmts:
            node = sym.g.nodes_of(st)[0] if sym.g.nodes_of(st) else None
            if isinstance(st, ast.If):
                tt = sym.term(st.test, node)
                if not mentions_slice(tt):
                    # guards that do not look at the slice (cached instance, unknown shape): early exits are skipped
                    if all(isinstance(x, (ast.Return, ast.Raise)) for x in st.body) and not st.orelse:
                        continue
                    raise _Undecided(f'test `{astx.src(st.test)}`')
                execute(st.body if _slice_cond(tt, pat) else st.orelse, pat, env)
                continue
            if isinstance(st, ast.Assign):
                ctor = [c for c in _calls_named(st.value, 'ShapedSliceIndexer')]
                if ctor:
                    c = ctor[0]
                    arg = c.args[0] if c.args else None
                    if isinstance(arg, ast.Name) and arg.id in env:
                        raise _Done(env[arg.id], st)
                    k = slice_kind(sym.term(arg, node)) if arg is not None else None
                    if k is None:
                        raise _Undecided(f'ShapedSliceIndexer argument `{astx.src(arg)}`')
                    raise _Done(k, st)
                k = slice_kind(sym.term(st.value, node))
                for t in st.targets:
                    if isinstance(t, ast.Name):
                        if k is not None:
                            env[t.id] = k
                        else:
                            env.pop(t.id, None)
                continue
            if isinstance(st, (ast.Expr, ast.Pass)):
                continue
            if isinstance(st, ast.Return):
                raise _Undecided('return before the shaped slice is built')
            raise _Undecided(f'statement `{astx.src(st)}`')
        return None

    def select(pat):
        try:
            execute(astx.strip_doc(fn.node.body), pat, {})
        except _Done as d:
            return d.st, d.kind
        raise _Undecided('no ShapedSliceIndexer construction on this path')
    first_ctor = astx.stmt_of(_calls_named(fn.node, 'ShapedSliceIndexer')[0])
    # ---- consumer: which patterns evaluate np.arange(*slc.indices(sys.maxsize)) on a 1-D source
    fa = repo.func(INDEXER, 'ShapedSliceIndexer.as_array')
    sa = Sym(fa)
    rets = []
    for st in astx.walk_stmts(fa.node.body):
        if isinstance(st, ast.Return) and st.value is not None:
            t = sa.term(st.value, sa.g.nodes_of(st)[0])
            if _k(t, 'sub') and t[2] == SLC and _k(t[1], 'call') and attr_path(t[1][1]) in ('np.arange', 'numpy.arange') \
                    and t[1][2] and t[1][2][0] == DIM0:
                kind = 'exact'
            elif _k(t, 'call') and attr_path(t[1]) in ('np.arange', 'numpy.arange') and t[2] and _k(t[2][0], 'star') \
                    and _k(t[2][0][1], 'call') and t[2][0][1][1] == ('attr', SLC, 'indices'):
                arg = t[2][0][1][2]
                kind = 'maxsize' if arg and attr_path(arg[0]) == 'sys.maxsize' else 'exact' if arg == (DIM0,) else None
            else:
                kind = 'other'
            conds = []
            for a in astx.ancestors(st):
                if isinstance(a, ast.If):
                    conds.append((sa.term(a.test, sa.g.nodes_of(a)[0]), astx.in_body(st, a, 'body')))
            rets.append((st, kind, conds))

    def one_dim(t):
        # len(self._src_shape) == 1 holds in the analysed (flat / 1-D source) case; `flat` argument: default True
        if _k(t, 'cmp') and t[1] == 'Eq' and {t[2], t[3]} == {('call', ('name', 'len'), (SRC,), ()), ('const', 1)}:
            return True
        if t == ('param', 'flat'):
            return True
        return None
    offenders = {'neg': [], 'open': []}
    npat = 0
    try:
        for start in _ABS:
            for stop in _ABS:
                for step in ('pos', 'neg'):
                    pat = dict(start=start, stop=stop, step=step)
                    npat += 1
                    sel = [select(pat)]
                    if sel[0][1] == 'resolved':
                        continue
                    rsel = [(st, kind) for st, kind, conds in rets
                            if all(_slice_cond(t, pat, one_dim) == pol for t, pol in conds)]
                    if len(rsel) != 1 or rsel[0][1] in (None, 'other'):
                        out.unsure(fa, fa.node, f'as_array result for an unresolved slice with {pat} not recognised')
                        return
                    if rsel[0][1] == 'exact':
                        continue
                    # unresolved slice evaluated with indices(sys.maxsize): right only for explicit non-negative bounds
                    # (an open start is 0 for a positive step)
                    start_ok = start in ('zero', 'pos') or (start is None and step == 'pos')
                    stop_ok = stop in ('zero', 'pos')
                    if start_ok and stop_ok:
                        continue
                    which = 'neg' if 'neg' in (start, stop) else 'open'
                    offenders[which].append((pat, sel[0][0]))
    except _Undecided as u:
        out.unsure(fn, fn.node, f'normalisation condition not evaluable: {u}')
        return

    def fmt(p):
        f = lambda v: {None: 'open', 'neg': '<0', 'zero': '0', 'pos': '>0'}[v]   # noqa: E731
        return f"[{f(p['start'])}:{f(p['stop'])}:{'+' if p['step'] == 'pos' else '-'}step]"
    if offenders['neg']:
        pats, st = [fmt(p) for p, _ in offenders['neg']], offenders['neg'][0][1]
        encl = [a for a in astx.ancestors(st) if isinstance(a, ast.If)]
        st = encl[0] if encl else st          # the test that lets the negative bound through
        out.bad(fn, st, f'a negative slice bound survives into the shaped slice for {len(pats)} sign pattern(s) '
                f'{pats[:6]}; ShapedSliceIndexer.as_array expands it with slc.indices(sys.maxsize), i.e. counts it from '
                'the end of a maxsize-long array: the transfer index array is empty/wrong (e.g. om.slicer[-4:5])',
                key='slice-negative-bound-unresolved')
    else:
        out.ok(fn, first_ctor, f'every negative start/stop is resolved against src_shape[0] on all {npat} sign patterns '
               '(or the slice is applied to arange(src_shape[0]) directly)')
    if offenders['open']:
        pats, st = [fmt(p) for p, _ in offenders['open']], offenders['open'][0][1]
        out.bad(fn, st, f'an open slice bound survives unresolved for {len(pats)} sign pattern(s) {pats[:6]} and is '
                'expanded with slc.indices(sys.maxsize): an open start with a negative step becomes maxsize-1 (an open '
                'stop with a positive step maxsize): the index array is empty or too big to allocate '
                '(e.g. om.slicer[:0:-1] as flat src_indices)', key='slice-open-bound-unresolved')
    else:
        out.ok(fn, first_ctor, 'every open bound that needs the source size is resolved')


# =========================================================================== C04.indexer
@rule('C04.indexer', floor=6)
def indexer_rule(repo, out):
    """Indexer.indexed_val flat/non-flat dispatch; negative indices normalised with the indexed dimension."""
    fn = repo.func(INDEXER, 'Indexer.indexed_val')
    sym = Sym(fn)
    arr = fn.node.args.args[1].arg
    ifs = [st for st in fn.node.body if isinstance(st, ast.If)]
    if len(ifs) != 1 or astx.path(ifs[0].test) != 'self._flat_src' and not (
            isinstance(ifs[0].test, ast.UnaryOp) and astx.path(ifs[0].test.operand) == 'self._flat_src'):
        out.unsure(fn, fn.node, 'indexed_val is not a single `if self._flat_src` dispatch')
    else:
        neg = isinstance(ifs[0].test, ast.UnaryOp)
        rest = ifs[0].orelse or fn.node.body[fn.node.body.index(ifs[0]) + 1:]   # fall-through after `if ...: return`
        branches = {'flat': rest if neg else ifs[0].body, 'nonflat': ifs[0].body if neg else rest}
        for kind, body in branches.items():
            rets = [st for st in astx.walk_stmts(body) if isinstance(st, ast.Return)]
            if len(rets) != 1 or not isinstance(rets[0].value, ast.Subscript):
                out.unsure(fn, ifs[0], f'{kind} branch does not return a subscript')
                continue
            r = rets[0]
            at = sym.g.nodes_of(r)[0]
            base, idx = sym.term(r.value.value, at), sym.term(r.value.slice, at)
            base_flat = _is_flat_term(base) or (_k(base, 'attr') and base[2] == 'flat')
            base_arr = (_strip_flat(base) if _is_flat_term(base) else base[1] if base_flat else base) == ('param', arr)
            idx_kind = None
            if _k(idx, 'call') and not idx[2]:
                if idx[1] == ('attr', ('param', 'self'), 'flat'):
                    idx_kind = 'flat'
                elif idx[1] == ('param', 'self'):
                    idx_kind = 'call'
            if not base_arr or idx_kind is None:
                out.unsure(fn, r, f'{kind} branch: `{astx.src(r.value)}` not recognised')
            elif kind == 'flat' and base_flat and idx_kind == 'flat':
                out.ok(fn, r, 'flat source: arr.ravel()[self.flat()]')
            elif kind == 'nonflat' and not base_flat and idx_kind == 'call':
                out.ok(fn, r, 'non-flat source: arr[self()]')
            else:
                out.bad(fn, r, f"{'flat' if kind == 'flat' else 'non-flat'} source indexed as `{astx.src(r.value)}`: "
                        'flat src_indices address the flattened array (arr.ravel()[self.flat()]), non-flat ones the '
                        'shaped array (arr[self()])', key=f'indexed-val-{kind}')
    for qn, cd in repo.module(INDEXER).classes.items():
        if qn != 'Indexer' and any(isinstance(st, ast.FunctionDef) and st.name == 'indexed_val' for st in cd.body):
            out.bad((INDEXER, f'{qn}.indexed_val'), cd, f'{qn} overrides indexed_val: the flat/non-flat dispatch is no '
                    'longer shared by all index forms', key='indexed-val-override')
    # _get_shapes: a flat source is seen as 1-D of the full size (negative flat indices count from the very end)
    fn = repo.func(INDEXER, 'Indexer._get_shapes')
    sym = Sym(fn)
    okf = None
    for st in astx.walk_stmts(fn.node.body):
        if isinstance(st, ast.If) and astx.path(st.test) == 'self._flat_src':
            for s2 in st.body:
                if isinstance(s2, ast.Assign) and isinstance(s2.targets[0], ast.Name) and \
                        s2.targets[0].id == fn.node.args.args[1].arg:
                    t = sym.term(s2.value, sym.g.nodes_of(s2)[0])
                    okf = (okf is not False) and _k(t, 'tuple') and len(t) == 2 and _k(t[1], 'call') and \
                        attr_path(t[1][1]) in ('shape_to_len', 'np.prod', 'numpy.prod', 'math.prod')
                    where = s2
    if okf:
        out.ok(fn, where, 'flat source shape = (total size,)')
    elif okf is False:
        out.bad(fn, where, 'a flat source must be given the 1-D shape (total size,): negative flat indices and '
                'open-ended flat slices are resolved against shape[0]', key='flat-shape')
    else:
        out.bad(fn, fn.node, 'the source shape of a flat indexer is not flattened: negative flat indices are resolved '
                'against the first dimension only', key='flat-shape')
    # negative normalisation
    fi = repo.func(INDEXER, 'IntIndexer.shaped_instance')
    si = Sym(fi)
    ctor = [c for c in _calls_named(fi.node, 'ShapedIntIndexer')]
    IDX = ('attr', ('param', 'self'), '_idx')
    DIM0 = ('sub', ('attr', ('param', 'self'), '_src_shape'), ('const', 0))
    n_ok = 0
    for c in ctor:
        st = astx.stmt_of(c)
        par = st._parent
        if not (isinstance(par, ast.If) and len(c.args) >= 1):
            out.unsure(fi, st, 'ShapedIntIndexer construction outside the sign test')
            continue
        tt = si.term(par.test, si.g.nodes_of(par)[0])
        if not (_k(tt, 'cmp') and tt[2:] in ((IDX, ('const', 0)),) and tt[1] in ('Lt', 'GtE')
                or _k(tt, 'cmp') and tt[2:] == (('const', 0), IDX) and tt[1] in ('Gt', 'LtE')):
            if _k(tt, 'cmp') and IDX in tt[2:] and ('const', 0) in tt[2:]:
                out.bad(fi, par, f'sign test `{astx.src(par.test)}` does not separate negative from non-negative '
                        'indices (index 0 must stay 0)', key='neg-int-test')
            else:
                out.unsure(fi, par, 'sign test not recognised')
            continue
        neg_true = (tt[1] == 'Lt' and tt[2] == IDX) or (tt[1] == 'Gt' and tt[3] == IDX)
        in_neg = (st in par.body) == neg_true
        at = si.term(c.args[0], si.at(c))
        want = _mk('Add', IDX, DIM0) if in_neg else IDX
        if at == want:
            out.ok(fi, st, 'negative index + src_shape[0]' if in_neg else 'non-negative index unchanged')
            n_ok += 1
        else:
            out.bad(fi, st, f"{'negative' if in_neg else 'non-negative'} int index is normalised to `{show(at)}`; "
                    f"expected `{show(want)}`", key='neg-int-' + ('neg' if in_neg else 'pos'))
    fa = repo.func(INDEXER, 'ArrayIndexer.shaped_instance')
    sa = Sym(fa)
    ARR = ('attr', ('param', 'self'), '_arr')
    augs = [st for st in astx.walk_stmts(fa.node.body) if isinstance(st, ast.AugAssign) and
            isinstance(st.target, ast.Subscript)]
    if len(augs) != 1:
        out.unsure(fa, fa.node, 'negative array indices are not normalised by a masked in-place update')
    else:
        st = augs[0]
        at = sa.g.nodes_of(st)[0]
        mask = sa.term(st.target.slice, at)
        base = sa.term(st.target.value, at)
        val = sa.term(st.value, at)
        mask_ok = mask in (('cmp', 'Lt', ARR, ('const', 0)), ('cmp', 'Gt', ('const', 0), ARR))
        copy_ok = _k(base, 'call') and ((_k(base[1], 'attr') and base[1][2] == 'copy' and base[1][1] == ARR) or
                                        (attr_path(base[1]) in ('np.array', 'numpy.array') and base[2] == (ARR,)))
        if not mask_ok:
            out.bad(fa, st, f'the mask `{show(mask)}` does not select exactly the negative entries of self._arr',
                    key='neg-array-mask')
        elif not isinstance(st.op, ast.Add) or val != DIM0:
            out.bad(fa, st, f'negative entries are shifted by `{astx.src(st.value)}` with `{type(st.op).__name__}`; '
                    'they count from the end of the indexed dimension: += self._src_shape[0]', key='neg-array-shift')
        elif not copy_ok:
            out.bad(fa, st, "negative entries are normalised in place in the user's index array (no copy): a second "
                    'set_src_shape with another shape shifts already normalised values', key='neg-array-copy')
        else:
            # the normalised copy is what the shaped indexer gets
            ctor = [c for c in _calls_named(fa.node, 'ShapedArrayIndexer')]
            tn = st.target.value.id if isinstance(st.target.value, ast.Name) else None
            passed = [c for c in ctor if c.args and isinstance(c.args[0], ast.Name) and c.args[0].id == tn]
            if passed:
                out.ok(fa, st, 'negative entries += src_shape[0] on a copy that is handed to ShapedArrayIndexer')
            else:
                out.bad(fa, st, 'the normalised copy is not what ShapedArrayIndexer receives', key='neg-array-unused')


# =========================================================================== C04.scaling-flags
@rule('C04.scaling-flags', floor=7)
def scaling_flags(repo, out):
    """Flags that switch input scaling/unit conversion on: group flag, per-transfer flag, scaled subsystem set."""
    # ---- (a) Group._check_connections
    fn = repo.func(GROUP, 'Group._check_connections')
    sym = Sym(fn)
    g = sym.g
    SELF_FLAG = ('attr', ('param', 'self'), '_has_input_scaling')
    stores = [st for st in astx.walk_stmts(fn.node.body) if isinstance(st, (ast.Assign, ast.AugAssign)) and
              any(astx.path(t) == 'self._has_input_scaling' for t in astx.assigned_targets(st))]
    prop = unit = 0
    for st in stores:
        at = g.nodes_of(st)[0]
        vt = sym.term(st.value, at)
        guards = [a for a in astx.ancestors(st) if isinstance(a, ast.If) and astx.in_body(st, a, 'body')]
        loops = _enclosing_for(st)
        if _const(vt, True):
            # propagation from a subsystem
            okp = False
            for gd in guards:
                tt = sym.term(gd.test, g.nodes_of(gd)[0])
                if _k(tt, 'attr') and tt[2] == '_has_input_scaling' and _k(tt[1], 'loopvar') and \
                        contains(tt[1][3], lambda x: _k(x, 'attr') and x[2] in ('_subsystems_myproc', '_subsystems_allprocs',
                                                                                   '_sorted_subsystems_myproc')):
                    okp = True
            if okp:
                prop += 1
                out.ok(fn, st, 'flag propagated from every subsystem')
            else:
                out.unsure(fn, st, 'unconditional/unknown way of setting the flag')
            continue
        # units based definition
        if not loops:
            out.unsure(fn, st, 'flag assignment outside the connection loop')
            continue
        it = sym.term(loops[0].iter, g.nodes_of(loops[0])[0])
        IN, OUT = ('loopvar', 0, 2, it), ('loopvar', 1, 2, it)

        def units_of(t):
            # <allprocs meta>[io][name]['units']  ->  (io, name)
            if _k(t, 'sub') and _const(t[2], 'units') and _k(t[1], 'sub') and _k(t[1][1], 'sub') and \
                    _k(t[1][1][2], 'const'):
                return t[1][1][2][1], t[1][2]
            return None
        disj = vt[2:] if _k(vt, 'bool') and vt[1] == 'Or' else (vt,)
        has_out_scaling = any(d == ('attr', ('param', 'self'), '_has_output_scaling') for d in disj)
        unit_ok = None
        for d in disj:
            conj = d[2:] if _k(d, 'bool') and d[1] == 'And' else (d,)
            for cj in conj:
                if _k(cj, 'cmp') and units_of(cj[2]) and units_of(cj[3]):
                    sides = {units_of(cj[2]), units_of(cj[3])}
                    if cj[1] == 'NotEq' and sides == {('input', IN), ('output', OUT)}:
                        unit_ok = True
                    elif cj[1] == 'Eq':
                        unit_ok = 'eq'
                    else:
                        unit_ok = False
        monotone = isinstance(st, ast.AugAssign) and isinstance(st.op, ast.BitOr) or \
            any(d == SELF_FLAG for d in disj) or \
            any(contains(sym.term(gd.test, g.nodes_of(gd)[0]), lambda x: x == ('un', 'Not', SELF_FLAG)) for gd in guards)
        if unit_ok is True and monotone:
            unit += 1
            out.ok(fn, st, 'flag set when both units are defined and different' +
                   (' (or outputs are scaled)' if has_out_scaling else '') + ', never reset to False')
        elif unit_ok == 'eq':
            out.bad(fn, st, 'input scaling is switched on when the units of input and source are EQUAL instead of '
                    'different: connections that need a unit conversion are transferred unconverted',
                    key='flag-units-test')
        elif unit_ok is False:
            out.bad(fn, st, 'the unit test does not compare the units of this input with the units of its source',
                    key='flag-units-test')
        elif unit_ok is None:
            known = lambda d: d in (('attr', ('param', 'self'), '_has_output_scaling'), SELF_FLAG) or _k(d, 'const')  # noqa: E731
            if all(known(d) for d in disj):
                out.bad(fn, st, 'the flag no longer depends on the units of the connected variables: unit conversion '
                        'of inputs is never set up when no output is scaled', key='flag-units-test')
            else:
                out.unsure(fn, st, 'flag expression contains a term that is not recognised as a unit comparison')
        else:
            out.bad(fn, st, 'the flag is recomputed for every connection without keeping an earlier True: only the '
                    'last connection decides whether any input gets unit conversion', key='flag-not-monotone')
    if prop == 0:
        out.bad(fn, fn.node, "a subsystem's _has_input_scaling is not propagated to the parent group: the root never "
                'computes input scale factors for connections owned below it', key='flag-propagation')
    if unit == 0 and not any(True for st in stores if not _const(sym.term(st.value, g.nodes_of(st)[0]), True)):
        out.bad(fn, fn.node, 'the group flag _has_input_scaling is never derived from the units of its connections',
                key='flag-units-test')
    # root computes the factors iff any flag is set
    f2 = repo.func(GROUP, 'Group._get_root_vectors')
    s2 = Sym(f2)
    for c in _calls_named(f2.node, '_compute_root_scale_factors'):
        gds = [a for a in astx.ancestors(c) if isinstance(a, ast.If) and astx.in_body(astx.stmt_of(c), a, 'body')]
        seen = set()
        for gd in gds:
            tt = s2.term(gd.test, s2.g.nodes_of(gd)[0])
            for d in (tt[2:] if _k(tt, 'bool') and tt[1] == 'Or' else (tt,)):
                if _k(d, 'attr') and d[1] == ('param', 'self'):
                    seen.add(d[2])
        if not gds or '_has_input_scaling' in seen:
            out.ok(f2, astx.stmt_of(c), 'scale factors are computed whenever _has_input_scaling is set')
        else:
            out.bad(f2, astx.stmt_of(c), 'scale factors are not computed when only _has_input_scaling is set (pure '
                    'unit conversion, no output scaling)', key='flag-root-compute')
    f3 = repo.func(GROUP, 'Group._compute_root_scale_factors')
    s3 = Sym(f3)
    blk = [st for st in f3.node.body if isinstance(st, ast.If) and _calls_named(st, 'unit_conversion')]
    if len(blk) == 1:
        tt = s3.term(blk[0].test, s3.g.nodes_of(blk[0])[0])
        if tt == SELF_FLAG:
            out.ok(f3, blk[0], 'input factors computed under self._has_input_scaling')
        else:
            out.bad(f3, blk[0], f'input scale factors are computed under `{astx.src(blk[0].test)}`, not under '
                    'self._has_input_scaling: pure unit conversions are skipped', key='flag-input-block')
    else:
        out.unsure(f3, f3.node, 'input-scaling block not recognised')
    # ---- (b) scaled_in_set in _setup_transfers
    fn = repo.func(XFER, 'DefaultTransfer._setup_transfers')
    sym = Sym(fn)
    g = sym.g
    loops = [lp for lp in astx.walk_stmts(fn.node.body) if isinstance(lp, ast.For) and
             isinstance(lp.iter, ast.Call) and astx.callee_attr(lp.iter) == 'items' and
             (astx.path(lp.iter.func.value) or '').endswith('_conn_abs_in2out')]
    if len(loops) != 1:
        raise AnalysisError(f'{fn.ident}: connection loop not found')
    xb = _XB(sym, loops[0])
    hand = [st for st in astx.walk_stmts(fn.node.body) if isinstance(st, ast.Assign) and
            isinstance(st.targets[0], ast.Subscript) and astx.const_str(st.targets[0].slice) == 'fwd' and
            isinstance(st.value, ast.Call) and astx.callee_attr(st.value) == '_setup_index_arrays']
    if not hand:
        raise AnalysisError(f"{fn.ident}: transfers['fwd'] assignment not found")
    callee = repo.func(XFER, '_setup_index_arrays')
    pa = _param_names(callee.node)
    b = _bind(hand[0].value, pa)
    set_arg = b.get(pa[4]) if b and len(pa) > 4 else None
    in_arg = b.get(pa[1]) if b else None
    if not isinstance(set_arg, ast.Name) or not isinstance(in_arg, ast.Name):
        out.unsure(fn, hand[0], 'scaled subsystem set / input list argument not recognised')
        return
    adds = [c for c in _calls_named(loops[0], 'add') if isinstance(c.func.value, ast.Name) and
            c.func.value.id == set_arg.id]
    key_in = [sym.term(c.func.value.slice, sym.at(c)) for c in _calls_named(loops[0], 'append')
              if isinstance(c.func.value, ast.Subscript) and isinstance(c.func.value.value, ast.Name) and
              c.func.value.value.id == in_arg.id]
    fwd_add = None
    for c in adds:
        kt = sym.term(c.args[0], sym.at(c)) if c.args else None
        if key_in and kt == key_in[0]:
            fwd_add = c
    if fwd_add is None:
        out.bad(fn, hand[0], f'no `{set_arg.id}.add(<subsystem of the input>)`: transfers never learn that their inputs '
                'need unit conversion / scaling and skip scale_to_norm/scale_to_phys', key='scaled-set-add')
    else:
        st = astx.stmt_of(fwd_add)
        gds = [a for a in astx.ancestors(st) if isinstance(a, ast.If) and astx.in_body(st, a, 'body')]
        conj = []
        for gd in gds:
            if astx.in_body(gd, loops[0], 'body') or gd in loops[0].body:
                tt = sym.term(gd.test, g.nodes_of(gd)[0])
                conj.extend(tt[2:] if _k(tt, 'bool') and tt[1] == 'And' else (tt,))
        member = [cj for cj in conj if _k(cj, 'cmp') and cj[1] == 'In']
        name_ok = kind_ok = None
        for cj in member:
            left, right = cj[2], cj[3]
            if _k(left, 'const') and left[1] in ('input', 'output', 'residual'):
                kind_ok = (left[1] == 'input') and _k(right, 'sub') and right[2] == xb.IN
                if left[1] == 'input' and _k(right, 'sub') and right[2] != xb.IN:
                    name_ok = False
            elif left in (xb.IN, xb.OUT):
                if attr_path(right) is not None and attr_path(right).endswith('_scale_factors'):
                    name_ok = (left == xb.IN) if name_ok is None else name_ok and left == xb.IN
        # skip the abs_in in abs2meta['input'] continuity test
        if name_ok and kind_ok:
            out.ok(fn, st, "subsystem marked as scaled iff scale_factors[abs_in] has an 'input' entry")
        elif name_ok is None or kind_ok is None:
            out.unsure(fn, st, 'condition of the scaled-set update not recognised')
        else:
            out.bad(fn, st, "the scaled-subsystem set must be updated when scale_factors[<input name>] has an 'input' "
                    'entry; the present test looks at ' + ('another variable' if not name_ok else 'another kind') +
                    ': transfers into unit-converted inputs run without scale_to_norm/scale_to_phys',
                    key='scaled-set-condition')
    # ---- (c) flags handed to the transfer objects
    asym = Sym(callee)
    init = repo.lookup(XFER, 'DefaultTransfer', '__init__')
    pinit = _param_names(init.node, skip_self=True)
    flagp = [p for p in pinit if 'scaling' in p]
    if len(flagp) != 1:
        out.unsure(init, init.node, 'has_input_scaling parameter not found')
        return
    SET = ('param', pa[4])
    for c in _calls_named(callee.node, 'DefaultTransfer'):
        bb = _bind(c, pinit)
        st = astx.stmt_of(c)
        if bb is None or flagp[0] not in bb:
            out.bad(callee, st, 'transfer constructed without the has_input_scaling flag', key='xfer-flag-missing')
            continue
        at = asym.at(c)
        ft = asym.term(bb[flagp[0]], at)
        inds = [bb[p] for p in pinit if p == 'in_inds']
        it = asym.term(inds[0], at) if inds else None
        per_sub = _k(it, 'loopvar')
        if per_sub:
            key = ('loopvar', 0, it[2], it[3])
            if ft == ('cmp', 'In', key, SET):
                out.ok(callee, st, 'per-subsystem transfer: flag = subsystem in scaled set')
            else:
                out.bad(callee, st, f'per-subsystem transfer flag is `{show(ft)}`; it must be `<this subsystem> in '
                        f'{pa[4]}`', key='xfer-flag-sub')
        else:
            nonempty = (ft in (('cmp', 'Gt', ('call', ('name', 'len'), (SET,), ()), ('const', 0)),
                               ('cmp', 'Lt', ('const', 0), ('call', ('name', 'len'), (SET,), ())),
                               ('cmp', 'GtE', ('call', ('name', 'len'), (SET,), ()), ('const', 1)),
                               ('cmp', 'NotEq', ('call', ('name', 'len'), (SET,), ()), ('const', 0)),
                               ('call', ('name', 'bool'), (SET,), ())))
            if nonempty:
                out.ok(callee, st, 'full transfer: flag = scaled set is non-empty')
            else:
                out.bad(callee, st, f'full transfer flag is `{show(ft)}`; it must be true as soon as any subsystem is in '
                        f'{pa[4]}', key='xfer-flag-full')


# =========================================================================== C04.index-arrays
@rule('C04.index-arrays', floor=5)
def index_arrays(repo, out):
    """Shape-aware index arrays: arange(size).reshape(src_shape)[own index]; per-dimension shapes for tuple indices."""
    SELF = ('param', 'self')
    SRC = ('attr', SELF, '_src_shape')

    def is_virtual(t):
        """np.arange(shape_to_len(self._src_shape)...).reshape(self._src_shape)"""
        if not (_k(t, 'call') and _k(t[1], 'attr') and t[1][2] == 'reshape' and t[2] == (SRC,)):
            return False
        inner = t[1][1]
        if not (_k(inner, 'call') and attr_path(inner[1]) in ('np.arange', 'numpy.arange') and inner[2]):
            return False
        sz = inner[2][0]
        return _k(sz, 'call') and attr_path(sz[1]) in ('shape_to_len', 'np.prod', 'numpy.prod') and sz[2] == (SRC,)
    for cls, owns in (('ShapedSliceIndexer', (('attr', SELF, '_slice'), ('call', SELF, (), ()))),
                      ('ShapedMultiIndexer', (('call', SELF, (), ()), ('attr', SELF, '_tup')))):
        own = owns[0]
        fn = repo.func(INDEXER, f'{cls}.as_array')
        sym = Sym(fn)
        subs = []
        for st in astx.walk_stmts(fn.node.body):
            for w in astx.walk(st):
                if isinstance(w, ast.Subscript) and isinstance(w.ctx, ast.Load):
                    bt = sym.term(w.value, sym.g.nodes_of(st)[0])
                    if any(is_virtual(a) for a in alts(bt)):
                        subs.append((st, w, bt))
        odd = None
        for st in astx.walk_stmts(fn.node.body):
            for c in _calls_named(st, 'reshape'):
                if c.args and _calls_named(c.func, 'arange'):
                    at_ = sym.term(c.args[0], sym.g.nodes_of(st)[0])
                    if _k(at_, 'sub') and at_[1] == SRC:
                        odd = (st, c)
        if odd is not None:
            out.bad(fn, odd[0], f'the virtual index array is shaped `{astx.src(odd[1].args[0])}`, not like the source '
                    '(self._src_shape): row-major flat positions come out permuted', key=f'virtual-shape:{cls}')
            continue
        if not subs:
            if astx.mentions(fn.node, '_src_shape'):
                out.unsure(fn, fn.node, 'as_array reads the source shape but not through arange(size).reshape(shape)[index]')
            else:
                out.bad(fn, fn.node, f'{cls}.as_array does not depend on self._src_shape: flat positions of a non-flat '
                        'index into a multi-dimensional source cannot be right', key=f'virtual-array:{cls}')
            continue
        allok = True
        for st, w, bt in subs:
            it = sym.term(w.slice, sym.g.nodes_of(st)[0])
            if not all(is_virtual(a) for a in alts(bt)):
                out.unsure(fn, st, 'base of the index expression not recognised')
                allok = False
            elif it not in owns:
                out.bad(fn, st, f'the virtual index array is indexed by `{astx.src(w.slice)}`, not by the indexer\'s own '
                        f'index `{show(own)}`', key=f'virtual-index:{cls}')
                allok = False
        if allok:
            out.ok(fn, subs[0][0], 'arange(size).reshape(src_shape)[own index]')
    # per-dimension source shapes of a tuple index
    fn = repo.func(INDEXER, 'ShapedMultiIndexer.set_src_shape')
    sym = Sym(fn)
    n_ok = 0
    for lp in [st for st in astx.walk_stmts(fn.node.body) if isinstance(st, ast.For)]:
        calls = [c for c in _calls_named(lp, 'set_src_shape')]
        if len(calls) != 1:
            continue
        c = calls[0]
        at = sym.at(c)
        it = sym.term(lp.iter, sym.g.nodes_of(lp)[0])
        recv = sym.term(c.func.value, at)
        a0 = sym.term(c.args[0], at) if c.args else None
        flat_branch = any(isinstance(a, ast.If) and astx.path(a.test) == 'self._flat_src' and astx.in_body(lp, a, 'body')
                          for a in astx.ancestors(lp))
        LIST = ('attr', SELF, '_idx_list')
        if flat_branch:
            if it == LIST and a0 == SRC:
                out.ok(fn, lp, 'flat source: every sub-indexer sees the flat shape')
                n_ok += 1
            else:
                out.unsure(fn, lp, 'flat branch not recognised')
            continue
        if not (_k(it, 'call') and attr_path(it[1]) == 'zip' and len(it[2]) >= 2):
            out.bad(fn, lp, 'each sub-indexer of a tuple index must get the size of ITS OWN source dimension '
                    '(zip(self._idx_list, self._src_shape, ...)); negative entries are resolved against it',
                    key='multi-dim-shapes')
            continue
        if it[2][0] != LIST or it[2][1] != SRC:
            out.bad(fn, lp, f'sub-indexers are paired with `{show(it[2][1])}` instead of the dimensions of '
                    'self._src_shape in order', key='multi-dim-shapes')
            continue
        n = len(it[2])
        if recv == ('loopvar', 0, n, it) and a0 == ('loopvar', 1, n, it):
            out.ok(fn, lp, 'sub-indexer i gets src_shape[i]')
            n_ok += 1
        else:
            out.bad(fn, lp, f'`{astx.src(c)}`: the sub-indexer does not receive its own dimension of the source shape',
                    key='multi-dim-shapes')
    # slices: negative start/stop resolved against the indexed dimension
    fn = repo.func(INDEXER, 'SliceIndexer.shaped_instance')
    sym = Sym(fn)
    DIM0 = ('sub', SRC, ('const', 0))
    calls = [c for c in _calls_named(fn.node, 'indices')]
    if not calls:
        out.unsure(fn, fn.node, 'slice.indices(...) normalisation not found')
    for c in calls:
        at = sym.at(c)
        recv = sym.term(c.func.value, at)
        a0 = sym.term(c.args[0], at) if c.args else None
        slc = ('attr', SELF, '_slice')
        if recv != slc:
            out.unsure(fn, astx.stmt_of(c), 'indices() receiver is not the own slice')
        elif a0 != DIM0:
            out.bad(fn, astx.stmt_of(c), f'negative/open slice bounds are resolved against `{astx.src(c.args[0]) if c.args else ""}`; '
                    'a slice indexes dimension 0 of its (possibly flattened) source: self._src_shape[0]',
                    key='slice-normalise-dim')
        else:
            # the normalised slice is what the shaped indexer gets
            par = c._parent
            while par is not None and not (isinstance(par, ast.Call) and astx.callee_attr(par) == 'ShapedSliceIndexer'):
                par = getattr(par, '_parent', None)
                if isinstance(par, ast.stmt):
                    par = None
            if par is None:
                # stored in a local that is passed to ShapedSliceIndexer later
                st_ = astx.stmt_of(c)
                tg = [t.id for t in getattr(st_, 'targets', []) if isinstance(t, ast.Name)]
                if any(isinstance(c2.args[0], ast.Name) and c2.args[0].id in tg
                       for c2 in _calls_named(fn.node, 'ShapedSliceIndexer') if c2.args):
                    par = st_
            if par is not None:
                out.ok(fn, astx.stmt_of(c), 'ShapedSliceIndexer(slice(*self._slice.indices(src_shape[0])))')
            else:
                out.unsure(fn, astx.stmt_of(c), 'normalised slice does not feed ShapedSliceIndexer directly')


# =========================================================================== C04.unit-factor
# (source units, input units, function whose clause the probe exercises)
UNIT_PAIRS = [
    ('km', 'ft', 'PhysicalUnit.conversion_tuple_to'), ('hr', 's', 'PhysicalUnit.conversion_tuple_to'),
    ('degC', 'degF', 'PhysicalUnit.conversion_tuple_to'), ('degF', 'K', 'PhysicalUnit.conversion_tuple_to'),
    ('m/hr', 'ft/s', 'PhysicalUnit.__div__'), ('kN*mm', 'N*m', 'PhysicalUnit.__mul__'),
    ('m**2', 'sq', 'PhysicalUnit.__pow__'),
    # one- and two-letter prefixes created on demand
    ('cm', 'm', '_find_unit'), ('m', 'dam', '_find_unit'), ('dam', 'cm', '_find_unit'), ('daN', 'N', '_find_unit'),
    ('dalb', 'kg', '_find_unit'), ('kft', 'dam', '_find_unit'),
    # reciprocal units  <number>/<unit>
    ('1/hr', '1/s', 'PhysicalUnit.__rdiv__'), ('1/s', '1/hr', 'PhysicalUnit.__rdiv__'),
    ('1/ft', '1/m', 'PhysicalUnit.__rdiv__'), ('1/km', '1/ft', 'PhysicalUnit.__rdiv__'),
    ('2.0/hr', '1/s', 'PhysicalUnit.__rdiv__'), ('1/sq', '1/m**2', 'PhysicalUnit.__rdiv__'),
    ('1/hr', 's**-1', 'PhysicalUnit.__rdiv__'),
]


@rule('C04.unit-factor', floor=15)
def unit_factor(repo, out):
    """The (factor, offset) that unit_conversion hands to the transfer is the one the unit definitions imply (exact)."""
    try:
        from . import C06 as _c06
    except Exception as e:   # pragma: no cover
        raise AnalysisError(f'C06 rule module (units interpreter) not importable: {e}')
    for a, b, qn in UNIT_PAIRS:
        lab = _c06.Lab(repo)          # fresh unit cache: every probe takes the creation path itself
        fn = lab.fn(qn)
        with _c06.guarded(out, fn):
            try:
                sa = _c06.spec_eval(a, lab.spec, _c06.PREFIXES)
                sb = _c06.spec_eval(b, lab.spec, _c06.PREFIXES)
            except _c06.SpecReject as e:
                raise AnalysisError(f'probe pair ({a}, {b}) has no meaning in the synthetic library: {e}')
            if sa.p != sb.p:
                raise AnalysisError(f'probe pair ({a}, {b}) is not dimensionally compatible')
            # x_in = (x_src + offset) * factor  with  x_base = (x + d) * f  on both sides
            want = (sa.f / sb.f, sa.d - sb.d * sb.f / sa.f)
            k, v = _c06.attempt(lambda: lab.call('unit_conversion', a, b))
            if k == 'raise':
                out.bad(fn, fn.node, f'unit_conversion({a!r}, {b!r}) raises {v}; a connection from {a} to {b} is valid '
                        f'and needs factor {want[0]}, offset {want[1]}', key=f'conv:{a}->{b}')
                continue
            if not (isinstance(v, tuple) and len(v) == 2):
                out.unsure(fn, fn.node, f'unit_conversion({a!r}, {b!r}) does not return a pair')
                continue
            got = (_c06.frac(v[0]), _c06.frac(v[1]))
            if got == want:
                out.ok(fn, fn.node, f'{a} -> {b}: factor {got[0]}, offset {got[1]}')
            else:
                out.bad(fn, fn.node, f'an input in {b} connected to a source in {a} is converted with (factor, offset) = '
                        f'({got[0]}, {got[1]}); the definitions of the two units imply ({want[0]}, {want[1]}): the '
                        'input silently holds the source value in the wrong scale', key=f'conv:{a}->{b}')


# =========================================================================== C04.src-shape-fresh
@rule('C04.src-shape-fresh', floor=2)
def src_shape_fresh(repo, out):
    """An edge's src_indices are (re)resolved against the CURRENT shape of their source node at every setup."""
    mod = repo.module(CONN)
    # a module-wide reset of the remembered shape would make a `_src_shape is None` guard harmless
    resets = [st for f in mod.funcs.values() for st in astx.walk_stmts(f.node.body)
              if isinstance(st, ast.Assign) and any(isinstance(t, ast.Attribute) and t.attr == '_src_shape'
                                                    for t in st.targets)
              and isinstance(st.value, ast.Constant) and st.value.value is None]

    def sites(fn, depth=0):
        """[(stmt in fn, receiver term, shape term, stale guard or None, where-func)] with terms in fn's frame.

        set_src_shape calls made directly, or inside a method of the same class called from fn (its parameters are
        replaced by the argument terms of the call)."""
        sym = Sym(fn)
        res = []
        for c in astx.calls(fn.node):
            if not isinstance(c.func, ast.Attribute):
                continue
            at = sym.at(c)
            if c.func.attr == 'set_src_shape':
                rt = sym.term(c.func.value, at)
                shp = sym.term(c.args[0], at) if c.args else None
                stale = None
                st = astx.stmt_of(c)
                for a in astx.ancestors(st):
                    if isinstance(a, ast.If) and astx.in_body(st, a, 'body'):
                        for cj in (a.test.values if isinstance(a.test, ast.BoolOp) and isinstance(a.test.op, ast.And)
                                   else [a.test]):
                            t = sym.term(cj, sym.g.nodes_of(a)[0])
                            if _k(t, 'cmp') and t[1] == 'Is' and t[3] == ('const', None) and \
                                    t[2] == ('attr', rt, '_src_shape'):
                                stale = a
                            elif _k(t, 'un') and t[1] == 'Not' and t[2] == ('attr', rt, '_src_shape'):
                                stale = a
                res.append((st, rt, shp, stale, fn))
            elif depth < 2 and astx.path(c.func.value) == 'self' and fn.cls is not None:
                callee = repo.lookup(fn.rel, fn.cls.name, c.func.attr)
                if callee is None or callee.node is fn.node or \
                        'set_src_shape' not in {astx.callee_attr(x) for x in astx.calls(callee.node)}:
                    continue
                b = _bind(c, _param_names(callee.node, skip_self=True))
                if b is None:
                    continue
                amap = {('param', p): sym.term(e, at) for p, e in b.items()}

                def back(t):
                    return subst(t, lambda x: amap.get(x, x) if _k(x, 'param') else x)
                for st2, rt2, shp2, stale2, w in sites(callee, depth + 1):
                    res.append((astx.stmt_of(c), back(rt2), back(shp2) if shp2 is not None else None, stale2, w))
        return res
    n = 0
    for qn in ('AllConnGraph.get_parent_val_shape_units', 'AllConnGraph.resolve_output_input_connection'):
        fn = repo.func(CONN, qn)
        found = [x for x in sites(fn) if contains(x[1], lambda y: y == ('const', 'src_indices'))]
        if not found:
            out.bad(fn, fn.node, 'the src_indices of the edge are never given the shape of their source node: negative '
                    'indices, open slices and `...` cannot be resolved', key='src-shape-never-set')
            continue
        for st, rt, shp, stale, where in found:
            n += 1
            edge_first = None
            for a in alts(rt):
                # self.edges[(u, v)].get('src_indices', None)  |  self.edges[edge].get(...)
                if _k(a, 'call') and _k(a[1], 'attr') and a[1][2] == 'get' and _k(a[1][1], 'sub'):
                    key = a[1][1][2]
                    if _k(key, 'tuple') and len(key) == 3:
                        edge_first = key[1]
            shape_ok = shp is not None and all(
                _k(x, 'attr') and x[2] in ('shape', 'global_shape') and _k(x[1], 'sub') and _const(x[1][2], 'attrs')
                and _k(x[1][1], 'sub') and (edge_first is None or x[1][1][2] == edge_first) for x in alts(shp))
            if not shape_ok:
                out.bad(fn, st, f'the indexer of the edge is resolved against `{show(shp)}`, not against the shape of '
                        'the source-side node of that edge', key='src-shape-of-other-node')
                continue
            via = '' if where is fn else f' (in {where.qualname})'
            if stale is None:
                out.ok(fn, st, 'src_indices.set_src_shape(<shape of the source node>) on every resolution' + via)
            elif resets:
                out.unsure(where, stale, 'shape only set when unset, and _src_shape is reset somewhere; not analysed')
            else:
                out.bad(where, stale, 'the source shape is only given to the indexer while it has none '
                        '(`if src_indices._src_shape is None`): the Indexer object of a connect()/promotes() made '
                        'outside setup() survives a re-setup, so after the source was resized negative indices, open '
                        'slices and `...` are still resolved against the OLD source shape and the input silently gets '
                        'the wrong source entries (Indexer.set_src_shape is already a no-op for an unchanged shape)',
                        key='stale-src-shape')
    if n == 0:
        raise AnalysisError('no set_src_shape call on an edge indexer found in the connection resolution')


# =========================================================================== C04.chain-order
@rule('C04.chain-order', floor=1)
def chain_order(repo, out):
    """The src_indices chains are derived from the connection tree BEFORE input->input edges are re-attached to the root."""
    fn = repo.func(CONN, 'AllConnGraph.setup_global_connections')
    g = cfgm.build(fn)
    rd = cfgm.ReachingDefs(g)

    def calling(name):
        res = list(g.calling(name))
        for n in g.nodes:      # bound-method alias:  f = self.<name> ; f(model)
            for c in (n.calls() if n.kind in ('stmt', 'test', 'iter', 'with') else []):
                if isinstance(c.func, ast.Name):
                    v = rd.value(n, c.func.id)
                    if isinstance(v, ast.Attribute) and v.attr == name and n not in res:
                        res.append(n)
        return res
    upd = calling('update_src_inds_lists')
    tr = calling('transform_input_input_connections')
    if not upd:
        out.bad(fn, fn.node, 'update_src_inds_lists is never called: inputs have no src_indices chain', key='chain-never-built')
        return
    if not tr:
        out.ok(fn, upd[0].ast, 'chains are built; no input->input rewrite in this function')
        return
    # the rewrite replaces  source -> upstream input -[idx2]-> target  by  source -[idx2]-> target : a chain built
    # afterwards has lost the indices through which the upstream input reads the source
    for t in tr:
        w = g.dominated_by(t, upd, labels=cfgm.noexc)
        if w is not None:
            out.bad(fn, t.ast, 'input->input connections are re-attached to the root output before the src_indices '
                    'chains are built (update_src_inds_lists): the target of connect(<input>, <other input>, '
                    'src_indices=...) loses the src_indices through which the upstream input reads the source and '
                    'silently receives source[own indices]: ' + g.fmt_path(w), key='chain-after-rewire')
            continue
        late = g.reach(g.normal_succ(t), labels=cfgm.noexc) & set(upd)
        if late:
            out.bad(fn, next(iter(late)).ast, 'the src_indices chains are rebuilt after input->input connections were '
                    're-attached to the root output: the indices of the upstream input are dropped from the chain',
                    key='chain-after-rewire')
        else:
            out.ok(fn, t.ast, 'update_src_inds_lists dominates the input->input rewrite and is not repeated after it')


# =========================================================================== C04.shape-cache
@rule('C04.shape-cache', floor=2)
def shape_cache(repo, out):
    """Indexer.set_src_shape: a new source shape invalidates the cached shaped instance on every normal path."""
    fn = repo.func(INDEXER, 'Indexer.set_src_shape')
    g = cfgm.build(fn)

    def assigns(attr, none):
        return g.where(lambda n: n.kind == 'stmt' and isinstance(n.ast, ast.Assign) and
                       any(astx.path(t) == f'self.{attr}' for t in n.ast.targets) and
                       (isinstance(n.ast.value, ast.Constant) and n.ast.value.value is None) == none)
    news = assigns('_src_shape', False)
    inv = assigns('_shaped_inst', True)
    if not news:
        raise AnalysisError(f'{fn.ident}: assignment of the new source shape not found')
    for a in news:
        after = g.path(g.normal_succ(a), [g.exit], avoid=inv, labels=cfgm.noexc)
        before = g.dominated_by(a, inv, labels=cfgm.noexc)
        if after is None or before is None:
            out.ok(fn, a.ast, 'self._shaped_inst = None accompanies every change of self._src_shape')
        else:
            out.bad(fn, a.ast, 'the source shape changes but the cached shaped instance (self._shaped_inst) is kept on '
                    'the normal path: shaped_instance()/shaped_array()/flat() keep returning negative indices and open '
                    'slices resolved against the OLD shape when the same indexer is given another source shape '
                    '(re-setup with a resized source): ' + g.fmt_path(after), key='shaped-cache-stale')
    # subclasses that override set_src_shape go through the base implementation
    n_over = 0
    for qn, cd in repo.module(INDEXER).classes.items():
        if qn == 'Indexer':
            continue
        for st in cd.body:
            if isinstance(st, ast.FunctionDef) and st.name == 'set_src_shape':
                n_over += 1
                sup = [c for c in astx.calls(st) if astx.callee_attr(c) == 'set_src_shape' and
                       isinstance(c.func.value, ast.Call) and astx.call_name(c.func.value) == 'super']
                g2 = cfgm.build(st)
                supn = [n for n in g2.nodes if n.kind in ('stmt', 'test') and any(c in sup for c in n.calls())]
                where = (INDEXER, f'{qn}.set_src_shape')
                if supn and g2.path([g2.entry], [g2.exit], avoid=supn, labels=cfgm.noexc) is None:
                    out.ok(where, st, 'override delegates to Indexer.set_src_shape on every path')
                elif astx.mentions(st, '_shaped_inst'):
                    out.unsure(where, st, 'override manages the shaped-instance cache itself; not analysed')
                else:
                    out.bad(where, st, f'{qn}.set_src_shape can return without calling Indexer.set_src_shape: source '
                            'shape and shaped-instance cache are not updated', key=f'shape-override:{qn}')
    # the cache is only trusted while set: shaped_instance() implementations return it only when not None
    out.count('overrides', n_over)


# =========================================================================== C04.edge-indexer
@rule('C04.edge-indexer', floor=1)
def edge_indexer(repo, out):
    """Every graph edge owns its Indexer: an object shared by several promoted names is copied per edge."""
    pr = repo.func(GROUP, 'Group.promotes')
    ps = Sym(pr)
    shared = None
    # is one _PromotesInfo attached to several names?  (name, info) pairs produced by a comprehension / loop over
    # the names with `info` defined outside of it
    for c in _calls_named(pr.node, 'extend', 'append'):
        if not (isinstance(c.func.value, ast.Subscript) and astx.mentions(c.func.value, '_var_promotes')) or not c.args:
            continue
        a = c.args[0]
        if isinstance(a, (ast.GeneratorExp, ast.ListComp)) and isinstance(a.elt, ast.Tuple) and len(a.elt.elts) == 2:
            info = a.elt.elts[1]
            if isinstance(info, ast.Name):
                t = ps.term(info, ps.at(c))
                if any(_k(x, 'call') and attr_path(x[1]) == '_PromotesInfo' for x in alts(t)):
                    shared = astx.stmt_of(c)
            elif isinstance(info, ast.Call) and astx.callee_attr(info) in ('_PromotesInfo', 'copy', 'deepcopy'):
                pass        # one object per name
    ap = repo.func(CONN, 'AllConnGraph.add_promotion')
    asym = Sym(ap)
    calls = [c for c in _calls_named(ap.node, 'check_add_edge')]
    if not calls:
        raise AnalysisError(f'{ap.ident}: check_add_edge call not found')
    for c in calls:
        kw = astx.kwarg(c, 'src_indices')
        if kw is None:
            continue      # reported by C04.api
        t = asym.term(kw, asym.at(c))
        raw = [x for x in alts(t) if x == ('attr', ('param', 'pinfo'), 'src_indices')]
        fresh = [x for x in alts(t) if _k(x, 'call') and (
            (_k(x[1], 'attr') and x[1][2] in ('copy', '__copy__', '__deepcopy__') and
             x[1][1] == ('attr', ('param', 'pinfo'), 'src_indices')) or
            attr_path(x[1]) in ('copy.copy', 'copy.deepcopy', 'copy', 'deepcopy', 'indexer'))]
        if shared is None:
            out.ok(ap, astx.stmt_of(c), 'each promoted name gets its own promotion info object')
        elif raw:
            out.bad(ap, astx.stmt_of(c), 'the Indexer of a promotes() call is shared by every name of that call '
                    f'(`{astx.src(shared)}` in Group.promotes) and is put on each edge as it is: the edges resolve it '
                    'against the shapes of DIFFERENT sources (set_src_shape), the last one wins, so negative indices '
                    'and open slices of the other inputs are resolved against the wrong source size '
                    "(promotes('c', inputs=['a', 'b'], src_indices=[-1, 0]) with sources of different sizes)",
                    key='shared-promotes-indexer')
        elif fresh:
            out.ok(ap, astx.stmt_of(c), 'the edge receives its own copy of the promoted src_indices')
        else:
            out.unsure(ap, astx.stmt_of(c), f'origin of the edge src_indices `{show(t)}` not recognised')


# =========================================================================== C04.api
SYSTEM = 'openmdao/core/system.py'


@rule('C04.api', floor=9)
def api(repo, out):
    """src_indices / flat_src_indices given to connect() and promotes() reach the edge attribute read by the chain."""
    # ---- (1) Group.connect
    fn = repo.func(GROUP, 'Group.connect')
    sym = Sym(fn)
    g = sym.g
    idx_calls = [c for c in _calls_named(fn.node, 'indexer') if isinstance(c.func, ast.Name)]
    if len(idx_calls) != 1:
        out.unsure(fn, fn.node, 'indexer(...) call in connect not recognised')
    else:
        c = idx_calls[0]
        at = sym.at(c)
        a0 = sym.term(c.args[0], at) if c.args else None
        fl = astx.arg(c, 2, 'flat_src')
        ft = sym.term(fl, at) if fl is not None else None
        if a0 != ('param', 'src_indices'):
            out.bad(fn, astx.stmt_of(c), 'the indexer is not built from the src_indices argument', key='api-connect-indexer')
        elif ft != ('param', 'flat_src_indices'):
            out.bad(fn, astx.stmt_of(c), 'the flat_src_indices argument of connect() is not passed to the indexer '
                    f'(flat_src={astx.src(fl) if fl is not None else "<default False>"}): flat indices into a '
                    'multi-dimensional source are interpreted as non-flat', key='api-connect-flat')
        else:
            out.ok(fn, astx.stmt_of(c), 'indexer(src_indices, flat_src=flat_src_indices)')
    stores = [st for st in astx.walk_stmts(fn.node.body) if isinstance(st, ast.Assign) and
              isinstance(st.targets[0], ast.Subscript) and isinstance(st.value, ast.Tuple) and
              astx.mentions(st.targets[0].value, 'manual_connections', '_manual_connections',
                            '_static_manual_connections')]
    if len(stores) != 1:
        out.unsure(fn, fn.node, 'store into the manual connection table not recognised')
        store_shape = None
    else:
        st = stores[0]
        at = g.nodes_of(st)[0]
        key = sym.term(st.targets[0].slice, at)
        elts = [sym.term(e, at) for e in st.value.elts]

        def is_indices(t):
            return all(a == ('param', 'src_indices') or
                       (_k(a, 'call') and attr_path(a[1]) == 'indexer' and a[2] and a[2][0] == ('param', 'src_indices'))
                       for a in alts(t))
        roles = ['tgt' if key == ('param', 'tgt_name') else 'src' if key == ('param', 'src_name') else None]
        for e in elts:
            roles.append('src' if e == ('param', 'src_name') else 'tgt' if e == ('param', 'tgt_name') else
                         'idx' if is_indices(e) else None)
        store_shape = roles
        if None in roles or sorted(roles) != ['idx', 'src', 'tgt']:
            out.bad(fn, st, 'the manual connection entry must hold the source name and the src_indices of the '
                    f'connect() call, keyed by the target (found roles {roles}): the indices of the connection are '
                    'lost or attached to another variable', key='api-connect-store')
        else:
            out.ok(fn, st, f'manual connection entry: key={roles[0]}, value=({roles[1]}, {roles[2]})')
    # ---- (2) AllConnGraph.add_manual_connections
    fn = repo.func(CONN, 'AllConnGraph.add_manual_connections')
    sym = Sym(fn)
    g = sym.g
    loops = [lp for lp in astx.walk_stmts(fn.node.body) if isinstance(lp, ast.For) and
             isinstance(lp.iter, ast.Call) and astx.callee_attr(lp.iter) == 'items' and
             astx.mentions(lp.iter, '_manual_connections', 'manual_connections')]
    cae = repo.func(CONN, 'AllConnGraph.check_add_edge')
    pcae = _param_names(cae.node, skip_self=True)
    if len(loops) != 1 or store_shape is None or None in store_shape:
        out.unsure(fn, fn.node, 'loop over the manual connection table not recognised')
    else:
        lp = loops[0]
        it = sym.term(lp.iter, g.nodes_of(lp)[0])
        # position -> role according to the producer
        pos_role = {0: store_shape[0], (1, 0): store_shape[1], (1, 1): store_shape[2]}
        calls = [c for c in _calls_named(lp, 'check_add_edge')]
        if len(calls) != 1:
            out.unsure(fn, lp, 'check_add_edge call not recognised')
        else:
            c = calls[0]
            at = sym.at(c)
            b = _bind(c, pcae)

            def role_of(t):
                rs = set()
                contains(t, lambda x: rs.add(pos_role.get(x[1])) if _k(x, 'loopvar') and x[3] == it else False)
                return rs
            rsrc = role_of(sym.term(b['src'], at)) if b and 'src' in b else set()
            rtgt = role_of(sym.term(b['tgt'], at)) if b and 'tgt' in b else set()
            kw = astx.kwarg(c, 'src_indices')
            ridx = role_of(sym.term(kw, at)) if kw is not None else None
            if rsrc != {'src'} or rtgt != {'tgt'}:
                out.bad(fn, astx.stmt_of(c), f'edge added from {sorted(map(str, rsrc))} to {sorted(map(str, rtgt))} of '
                        'the manual connection entry; it must go from the source name to the target name',
                        key='api-manual-edge-direction')
            elif ridx is None:
                out.bad(fn, astx.stmt_of(c), 'the edge of a manual connection is added without `src_indices=`: '
                        'connect(..., src_indices=...) has no effect on the transferred values',
                        key='api-manual-edge-indices')
            elif ridx != {'idx'}:
                out.bad(fn, astx.stmt_of(c), 'the `src_indices=` of the edge is not the src_indices element of the '
                        'manual connection entry', key='api-manual-edge-indices')
            else:
                out.ok(fn, astx.stmt_of(c), 'check_add_edge(group, <src node>, <tgt node>, src_indices=<entry indices>)')
    # ---- (6) check_add_edge stores the attributes
    adds = [c for c in _calls_named(cae.node, 'add_edge')]
    if len(adds) == 1 and any(k.arg is None and isinstance(k.value, ast.Name) and k.value.id == cae.node.args.kwarg.arg
                              for k in adds[0].keywords) and cae.node.args.kwarg is not None and \
            [astx.path(a) for a in adds[0].args[:2]] == pcae[1:3]:
        out.ok(cae, astx.stmt_of(adds[0]), 'add_edge(src, tgt, **kwargs)')
    else:
        out.bad(cae, cae.node, 'check_add_edge must add the edge (src, tgt) with all keyword attributes '
                '(`self.add_edge(src, tgt, **kwargs)`): src_indices of connections/promotions are dropped',
                key='api-edge-attrs')
    # ---- (3) Group.promotes -> _PromotesInfo -> indexer
    fn = repo.func(GROUP, 'Group.promotes')
    sym = Sym(fn)
    pi = repo.func(GROUP, '_PromotesInfo.__init__')
    ppi = _param_names(pi.node, skip_self=True)
    calls = [c for c in _calls_named(fn.node, '_PromotesInfo')]
    want = {'src_indices': ('param', 'src_indices'), 'flat': ('param', 'flat_src_indices')}
    for c in calls:
        b = _bind(c, ppi)
        at = sym.at(c)
        if b is None:
            out.unsure(fn, astx.stmt_of(c), 'star-args')
            continue
        bad = [p for p, w in want.items() if p not in b or sym.term(b[p], at) != w]
        shp = sym.term(b['src_shape'], at) if 'src_shape' in b else None
        if shp is None or not contains(shp, lambda x: x == ('param', 'src_shape')):
            bad.append('src_shape')
        if bad:
            out.bad(fn, astx.stmt_of(c), f'_PromotesInfo receives the wrong value for {bad} (its parameters are '
                    f'{ppi}): flat_src_indices/src_shape of promotes() are mixed up', key='api-promotes-args')
        else:
            out.ok(fn, astx.stmt_of(c), '_PromotesInfo(src_indices, flat_src_indices, src_shape)')
    psym = Sym(pi)
    icalls = [c for c in _calls_named(pi.node, 'indexer') if isinstance(c.func, ast.Name)]
    for c in icalls:
        at = psym.at(c)
        a0 = psym.term(c.args[0], at) if c.args else None
        fl, sh = astx.arg(c, 2, 'flat_src'), astx.arg(c, 1, 'src_shape')
        ft = psym.term(fl, at) if fl is not None else None
        sht = psym.term(sh, at) if sh is not None else None
        shape_ok = sht is not None and all(a in (('param', 'src_shape'),) for a in alts(sht)) or \
            sht == ('attr', ('param', 'self'), 'src_shape')
        if a0 != ('param', 'src_indices') or ft != ('param', 'flat') or not shape_ok:
            out.bad(pi, astx.stmt_of(c), 'promotes(): the indexer must be indexer(src_indices, src_shape=<src_shape>, '
                    'flat_src=<flat>)' + ('' if ft == ('param', 'flat') else
                                          ' -- the flat_src_indices flag does not reach the indexer'),
                    key='api-promotes-indexer')
        else:
            out.ok(pi, astx.stmt_of(c), 'indexer(src_indices, src_shape=src_shape, flat_src=flat)')
    if not calls or not icalls:
        out.unsure(fn, fn.node, '_PromotesInfo / indexer call not found')
    # ---- (4) promotion map tuple: (name, key, pinfo, match_type); consumer takes element 2
    gm = repo.func(SYSTEM, 'System._get_promotion_maps')
    inner = [f for qn, f in repo.module(SYSTEM).funcs.items() if qn.startswith('System._get_promotion_maps.<locals>.')]
    ntup = 0
    for f in inner:
        for st in astx.walk_stmts(f.node.body):
            vals = []
            if isinstance(st, ast.Assign):
                if isinstance(st.value, ast.Tuple) and isinstance(st.targets[0], ast.Subscript):
                    vals.append(st.value)
                for w in astx.walk(st.value):
                    if isinstance(w, ast.DictComp) and isinstance(w.value, ast.Tuple):
                        vals.append(w.value)
            for v in vals:
                if len(v.elts) != 4:
                    continue
                ntup += 1
                pos = [i for i, e in enumerate(v.elts) if isinstance(e, ast.Name) and e.id == 'pinfo']
                if pos != [2]:
                    out.bad(f, st, f'promotion map entry has the promotion info at position {pos}; '
                            'Group._setup_var_data reads it from position 2', key='api-pmap-producer')
    if ntup >= 3:
        out.ok(gm, gm.node, f'{ntup} promotion map entries carry pinfo at position 2')
    else:
        out.unsure(gm, gm.node, f'promotion map tuples not recognised ({ntup})')
    sv = repo.func(GROUP, 'Group._setup_var_data')
    ssym = Sym(sv)
    ap = repo.func(CONN, 'AllConnGraph.add_promotion')
    pap = _param_names(ap.node, skip_self=True)
    for c in _calls_named(sv.node, 'add_promotion'):
        b = _bind(c, pap)
        at = ssym.at(c)
        if b is None or 'pinfo' not in b:
            out.bad(sv, astx.stmt_of(c), 'add_promotion is called without the promotion info: src_indices given to '
                    'promotes() never reach the connection graph', key='api-promotion-call')
            continue
        t = ssym.term(b['pinfo'], at)
        okp = all(_k(a, 'unpack') and a[1] == 2 and a[2] == 4 for a in alts(t))
        nm = ssym.term(b['prom_name'], at) if 'prom_name' in b else None
        okn = nm is not None and any(_k(a, 'unpack') and a[1] == 0 for a in alts(nm))
        if okp and okn:
            out.ok(sv, astx.stmt_of(c), 'add_promotion(io, self, <entry[0]>, subsys, sub_prom, <entry[2]>)')
        else:
            out.bad(sv, astx.stmt_of(c), 'add_promotion does not receive element 0 (promoted name) and element 2 '
                    '(promotion info) of the promotion map entry', key='api-promotion-call')
    # ---- (5) add_promotion: input edges go parent -> child and carry pinfo.src_indices
    asym = Sym(ap)
    for c in _calls_named(ap.node, 'check_add_edge'):
        at = asym.at(c)
        b = _bind(c, pcae)
        kw = astx.kwarg(c, 'src_indices')
        kt = asym.term(kw, at) if kw is not None else None
        PI_IDX = ('attr', ('param', 'pinfo'), 'src_indices')
        has = kt is not None and any(
            a == PI_IDX or (_k(a, 'call') and ((_k(a[1], 'attr') and a[1][1] == PI_IDX and
                                                 a[1][2] in ('copy', '__copy__', '__deepcopy__')) or
                                                (attr_path(a[1]) in ('copy.copy', 'copy.deepcopy', 'copy', 'deepcopy')
                                                 and a[2] and a[2][0] == PI_IDX))) for a in alts(kt))
        if not has:
            out.bad(ap, astx.stmt_of(c), 'the promotion edge is added without `src_indices=pinfo.src_indices`',
                    key='api-promotion-indices')
            continue
        # direction for inputs
        # (a) role variables chosen once by `io` (conditional expression / tuple selection): specialise the terms of
        #     the two node arguments to io == 'input' and see which promoted name each is looked up with
        def for_input(t):
            def f(x):
                if _k(x, 'ifexp') and _k(x[1], 'cmp') and x[1][1] in ('Eq', 'NotEq') and \
                        ('param', 'io') in x[1][2:] and (('const', 'input') in x[1][2:] or ('const', 'output') in x[1][2:]):
                    is_in = (('const', 'input') in x[1][2:]) == (x[1][1] == 'Eq')
                    return x[2] if is_in else x[3]
                if _k(x, 'unpack') and _k(x[3], 'tuple') and len(x[3]) == x[2] + 1 and isinstance(x[1], int):
                    return x[3][1 + x[1]]
                if _k(x, 'sub') and _k(x[1], 'tuple') and _k(x[2], 'const') and isinstance(x[2][1], int) and \
                        0 <= x[2][1] < len(x[1]) - 1:
                    return x[1][1 + x[2][1]]
                return x
            return subst(t, f)

        def side(t):
            ps = set()
            contains(for_input(t), lambda x: ps.add(x[1]) if _k(x, 'param') else False)
            par, chi = ps & {'prom_name', 'group'}, ps & {'sub_prom', 'subsys'}
            if 'prom_name' in ps and not chi:
                return 'parent'
            if 'sub_prom' in ps and not par:
                return 'child'
            return 'mixed' if ({'prom_name', 'sub_prom'} & ps) and par and chi and \
                not ({'prom_name', 'sub_prom'} <= ps) else None
        okdir = (side(asym.term(b['src'], at)), side(asym.term(b['tgt'], at))) if b and 'src' in b and 'tgt' in b \
            else None
        if okdir is not None and None in okdir:
            okdir = None
        # (b) two mirrored branches `if io == 'input': ... else: ...`
        for st in (astx.walk_stmts(ap.node.body) if okdir is None else ()):
            if isinstance(st, ast.If) and isinstance(st.test, ast.Compare) and isinstance(st.test.left, ast.Name) and \
                    st.test.left.id == 'io' and astx.const_str(st.test.comparators[0]) in ('input', 'output'):
                is_in = (astx.const_str(st.test.comparators[0]) == 'input') == isinstance(st.test.ops[0], ast.Eq)
                body = st.body if is_in else st.orelse
                roles = {}
                for s2 in body:
                    if isinstance(s2, ast.Assign) and isinstance(s2.targets[0], ast.Tuple) and \
                            isinstance(s2.value, ast.Call) and astx.callee_attr(s2.value) == 'get_node_attrs':
                        first = s2.targets[0].elts[0]
                        args = {astx.path(a) for a in s2.value.args}
                        if isinstance(first, ast.Name):
                            roles[first.id] = 'parent' if 'prom_name' in args else 'child' if 'sub_prom' in args else None
                sn = b['src'].id if isinstance(b['src'], ast.Name) else None
                tn = b['tgt'].id if isinstance(b['tgt'], ast.Name) else None
                okdir = (roles.get(sn), roles.get(tn))
        if okdir == ('parent', 'child'):
            out.ok(ap, astx.stmt_of(c), 'input promotion edge: promoted (parent) node -> subsystem node, with src_indices')
        elif okdir == ('child', 'parent'):
            out.bad(ap, astx.stmt_of(c), 'input promotion edges point from the subsystem variable to the promoted name: '
                    'the src_indices chain is accumulated in the wrong direction', key='api-promotion-direction')
        elif okdir is not None and None not in okdir:
            out.bad(ap, astx.stmt_of(c), f'for inputs the promotion edge is added between the {okdir[0]} and the '
                    f'{okdir[1]} look-up of (system path, promoted name); it must go from the node '
                    '(group.pathname, prom_name) to the node (subsys.pathname, sub_prom)', key='api-promotion-direction')
        else:
            out.unsure(ap, astx.stmt_of(c), f'edge direction for inputs not recognised {okdir}')


# =========================================================================== self-test
_SN_TEST = ("        elif (slc.start is not None and slc.start < 0) or slc.stop is None or slc.stop < 0 or \\\n"
            "                (slc.start is None and slc.step < 0):")

_SSF_A = ("        if not (src_indices is None or shape is None):\n"
          "            # always (re)resolve against the current shape of the parent: the indexer object of a static\n"
          "            # connect()/promotes() survives a re-setup in which the source may have been resized\n"
          "            src_indices.set_src_shape(shape)\n            shape = src_indices.indexed_src_shape\n"
          "            if val is not None:\n                val = src_indices.indexed_val(np.atleast_1d(val))\n")
_SSF_A_NEW = "        shape, val = self._index_shape_and_val(src_indices, shape, val)\n"
_SSF_B = ("            if src_indices is not None and src_shape is not None:\n"
          "                src_indices.set_src_shape(src_shape)\n                src_shape = src_indices.indexed_src_shape\n"
          "                if src_val is not None:\n"
          "                    src_val = src_indices.indexed_val(np.atleast_1d(src_val))\n")
_SSF_B_NEW = "            src_shape, src_val = self._index_shape_and_val(src_indices, src_shape, src_val)\n"
_SSF_ANCHOR = "    def get_parent_val_shape_units(self, parent, child):\n"
_SSF_HELPER = ("    def _index_shape_and_val(self, src_indices, shape, val):\n"
               "        if src_indices is None or shape is None:\n            return shape, val\n"
               "        src_indices.set_src_shape(shape)\n        indexed_shape = src_indices.indexed_src_shape\n"
               "        if val is not None:\n            val = src_indices.indexed_val(np.atleast_1d(val))\n"
               "        return indexed_shape, val\n\n")
_SN_BLOCK = ("        if slc.stop is None and slc.step < 0:  # special backwards indexing case\n"
             "            self._shaped_inst = \\\n                ShapedSliceIndexer(slc)\n" + _SN_TEST + "\n"
             "            self._shaped_inst = \\\n"
             "                ShapedSliceIndexer(slice(*self._slice.indices(self._src_shape[0])))\n"
             "        else:\n            self._shaped_inst = ShapedSliceIndexer(slc)\n\n"
             "        return self._shaped_inst._set_attrs(self)\n")
_SN_SINGLE = ("        start, stop, step = slc.start, slc.stop, slc.step\n"
              "        backwards_to_start = stop is None and step < 0\n"
              "        if not backwards_to_start:\n"
              "            if (start is not None and start < 0) or stop is None or stop < 0 or \\\n"
              "                    (start is None and step < 0):\n"
              "                slc = slice(*slc.indices(self._src_shape[0]))\n\n"
              "        shaped = self._shaped_inst = ShapedSliceIndexer(slc)\n"
              "        return shaped._set_attrs(self)\n")
_GX_HEAD = ("        xfer = self._transfers[mode]\n        if sub in xfer:\n            xfer = xfer[sub]\n        else:\n"
            "            if mode == 'fwd' and self._conn_discrete_in2out and vec_name == 'nonlinear':\n"
            "                self._discrete_transfer(sub)\n            return\n\n")
_GX_HEAD_NEW = ("        xfers = self._transfers[mode]\n        if sub not in xfers:\n            if mode == 'fwd':\n"
                "                self._nl_discrete_transfer(vec_name, sub)\n            return\n\n"
                "        xfer = xfers[sub]\n")
_GX_DISC = ("            if self._conn_discrete_in2out and vec_name == 'nonlinear':\n"
            "                self._discrete_transfer(sub)\n\n        else:  # rev")
_GX_DISC_NEW = "            self._nl_discrete_transfer(vec_name, sub)\n\n        else:  # rev"
_GX_ANCHOR = "    def _discrete_transfer(self, sub):\n"
_GX_HELPER = ("    def _nl_discrete_transfer(self, vec_name, sub):\n"
              "        if self._conn_discrete_in2out and vec_name == 'nonlinear':\n"
              "            self._discrete_transfer(sub)\n\n")

_AP_OLD = ("        if io == 'input':\n            src, _ = self.get_node_attrs(group.pathname, prom_name, io[0])\n"
           "            tgt, tgt_attrs = self.get_node_attrs(subsys.pathname, sub_prom, io[0])\n        else:\n"
           "            src, _ = self.get_node_attrs(subsys.pathname, sub_prom, io[0])\n"
           "            tgt, tgt_attrs = self.get_node_attrs(group.pathname, prom_name, io[0])\n")
_AP_ROLES = ("        upper = (group.pathname, prom_name)\n        lower = (subsys.pathname, sub_prom)\n"
             "        src_key, tgt_key = (upper, lower) if io == 'input' else (lower, upper)\n        io_char = io[0]\n\n"
             "        src = self.get_node_attrs(src_key[0], src_key[1], io_char)[0]\n"
             "        tgt, tgt_attrs = self.get_node_attrs(tgt_key[0], tgt_key[1], io_char)\n")

_SI_OLD = ("        else:\n            root = self.get_root(node)\n            root_meta = self.nodes[root]['attrs']\n"
           "            if root_meta.distributed:\n                root_shape = root_meta.global_shape\n            else:\n"
           "                root_shape = root_meta.shape\n"
           "            arr = np.arange(shape_to_len(root_shape)).reshape(root_shape)\n"
           "            for inds in src_inds_list:\n                arr = inds.indexed_val(arr)\n"
           "            return np.atleast_1d(arr).ravel()\n")
_SI_HELPER = ("        else:\n            return self._chain_to_flat_src_indices(node, src_inds_list)\n\n"
              "    def _chain_to_flat_src_indices(self, node, idx_chain):\n"
              "        src_meta = self.nodes[self.get_root(node)]['attrs']\n"
              "        full_shape = src_meta.shape if not src_meta.distributed else src_meta.global_shape\n"
              "        flat_idxs = np.arange(shape_to_len(full_shape)).reshape(full_shape)\n"
              "        for idxer in idx_chain:\n            flat_idxs = idxer.indexed_val(flat_idxs)\n"
              "        return np.atleast_1d(flat_idxs).ravel()\n")

selftest(
    'C04',
    # ---- order
    Mutant('order-gs-swap', SOLVER,
           "            system._transfer('nonlinear', 'fwd', subsys.name)\n\n            if subsys._is_local:\n                try:\n                    subsys._solve_nonlinear()",
           "            if subsys._is_local:\n                try:\n                    subsys._solve_nonlinear()", 'C04.order'),
    Mutant('order-gs-linear-vec', SOLVER, "system._transfer('nonlinear', 'fwd', subsys.name)",
           "system._transfer('linear', 'fwd', subsys.name)", 'C04.order'),
    Mutant('order-gs-hoisted', SOLVER,
           "        for subsys in system._relevance.filter(system._all_subsystem_iter()):\n            system._transfer('nonlinear', 'fwd', subsys.name)\n",
           "        system._transfer('nonlinear', 'fwd')\n        for subsys in system._relevance.filter(system._all_subsystem_iter()):\n",
           'C04.order'),
    Mutant('order-nlbgs-after', NLBGS,
           "                system._transfer('nonlinear', 'fwd', subsys.name)\n                if subsys._is_local:\n                    subsys._solve_nonlinear()",
           "                if subsys._is_local:\n                    subsys._solve_nonlinear()\n                system._transfer('nonlinear', 'fwd', subsys.name)",
           'C04.order'),
    Mutant('order-nlbj-dropped', NLBJ, "        system._transfer('nonlinear', 'fwd')\n", "", 'C04.order'),
    Mutant('order-nlbj-rev', NLBJ, "system._transfer('nonlinear', 'fwd')", "system._transfer('nonlinear', 'rev')", 'C04.order'),
    Mutant('order-runonce-parallel', RUNONCE,
           "                system._transfer('nonlinear', 'fwd')\n\n                with multi_proc_fail_check",
           "                with multi_proc_fail_check", 'C04.order'),
    Mutant('order-apply-after', GROUP,
           "        self._transfer('nonlinear', 'fwd')\n        # Apply recursion\n        for subsys in self._relevance.filter(self._subsystems_myproc):\n            subsys._apply_nonlinear()\n",
           "        # Apply recursion\n        for subsys in self._relevance.filter(self._subsystems_myproc):\n            subsys._apply_nonlinear()\n        self._transfer('nonlinear', 'fwd')\n",
           'C04.order'),
    Mutant('order-guess-guarded', GROUP,
           "                    self._transfer('nonlinear', 'fwd', sname)\n                    if sub._is_local and sub._has_guess:\n                        sub._guess_nonlinear()",
           "                    if sub._is_local and sub._has_guess:\n                        sub._guess_nonlinear()\n                        self._transfer('nonlinear', 'fwd', sname)",
           'C04.order'),
    Mutant('order-gs-wrong-sub', NLBGS, "system._transfer('nonlinear', 'fwd', subsys.name)",
           "system._transfer('nonlinear', 'fwd', system.name)", 'C04.order'),
    Mutant('order-untabled-eval-loop', NLBJ, "    def _run_apply(self):\n        \"\"\"\n        Run the apply_nonlinear method on the system.\n        \"\"\"\n        system = self._system()\n",
           "    def _run_apply(self):\n        \"\"\"\n        Run the apply_nonlinear method on the system.\n        \"\"\"\n        system = self._system()\n        for subsys in system._subsystems_myproc:\n            subsys._apply_nonlinear()\n", 'C04.order-who'),
    # ---- src-index
    Mutant('srcidx-reversed-chain', CONN, "            for inds in src_inds_list:\n                arr = inds.indexed_val(arr)\n            return np.atleast_1d(arr).ravel()",
           "            for inds in reversed(src_inds_list):\n                arr = inds.indexed_val(arr)\n            return np.atleast_1d(arr).ravel()", 'C04.src-index'),
    Mutant('srcidx-skip-first', CONN, "            for inds in src_inds_list:\n                arr = inds.indexed_val(arr)\n            return np.atleast_1d(arr).ravel()",
           "            for inds in src_inds_list[1:]:\n                arr = inds.indexed_val(arr)\n            return np.atleast_1d(arr).ravel()", 'C04.src-index'),
    Mutant('srcidx-node-shape', CONN, "            root_meta = self.nodes[root]['attrs']\n            if root_meta.distributed:",
           "            root_meta = self.nodes[node]['attrs']\n            if root_meta.distributed:", 'C04.src-index'),
    Mutant('srcidx-step-not-chained', CONN, "            for inds in src_inds_list:\n                arr = inds.indexed_val(arr)\n            return np.atleast_1d(arr).ravel()",
           "            base = arr\n            for inds in src_inds_list:\n                arr = inds.indexed_val(base)\n            return np.atleast_1d(arr).ravel()", 'C04.src-index'),
    Mutant('srcidx-as-array', CONN, "            return src_inds_list[0].shaped_array()", "            return src_inds_list[0].as_array()", 'C04.src-index'),
    Mutant('srcidx-last-only', CONN, "        elif len(src_inds_list) == 1 and src_inds_list[0]._flat_src:\n            return src_inds_list[0].shaped_array()\n        else:",
           "        elif len(src_inds_list) >= 1 and src_inds_list[-1]._flat_src:\n            return src_inds_list[-1].shaped_array()\n        else:", 'C04.src-index'),
    Mutant('srcidx-output-node', CONN, "        node = ('i', abs_in)\n        if node not in self:\n            raise ValueError(f\"Input '{abs_in}' not found.\")\n        src_inds_list = self.nodes[node]['attrs'].src_inds_list",
           "        node = ('i', abs_in)\n        if node not in self:\n            raise ValueError(f\"Input '{abs_in}' not found.\")\n        src_inds_list = self.nodes[self.get_root(node)]['attrs'].src_inds_list", 'C04.src-index'),
    # ---- chain
    Mutant('chain-no-copy', CONN, "                                src_inds_list = src_inds_list.copy()\n", "", 'C04.chain'),
    Mutant('chain-insert-front', CONN, "                                src_inds_list.append(src_inds)", "                                src_inds_list.insert(0, src_inds)", 'C04.chain'),
    Mutant('chain-store-on-parent', CONN, "                            nodes[v]['attrs'].src_inds_list = src_inds_list", "                            nodes[u]['attrs'].src_inds_list = src_inds_list", 'C04.chain'),
    Mutant('chain-read-from-child', CONN, "                            src_inds_list = nodes[u]['attrs'].src_inds_list", "                            src_inds_list = nodes[v]['attrs'].src_inds_list", 'C04.chain'),
    Mutant('chain-edge-dropped', CONN, "                                src_inds_list.append(src_inds)\n", "                                pass\n", 'C04.chain'),
    Mutant('chain-setter-no-store', CONN, "        self._src_inds_list = value\n        if self._locmeta is not None:\n            self._locmeta['src_inds_list'] = value",
           "        if self._locmeta is not None:\n            self._locmeta['src_inds_list'] = value", 'C04.chain'),
    Twin('twin-chain-concat', CONN, "                                src_inds_list = src_inds_list.copy()\n                                src_inds_list.append(src_inds)",
         "                                src_inds_list = src_inds_list + [src_inds]"),
    Twin('twin-chain-rename', CONN, "                            src_inds = edge_meta.get('src_indices', None)\n                            src_inds_list = nodes[u]['attrs'].src_inds_list\n                            if src_inds is not None:\n                                src_inds_list = src_inds_list.copy()\n                                src_inds_list.append(src_inds)\n\n                            nodes[v]['attrs'].src_inds_list = src_inds_list",
         "                            lst = nodes[u]['attrs'].src_inds_list\n                            e_inds = edges[u, v].get('src_indices', None)\n                            if e_inds is not None:\n                                lst = list(lst)\n                                lst.append(e_inds)\n\n                            nodes[v]['attrs'].src_inds_list = lst"),
    # ---- discrete
    Mutant('discrete-swapped-direction', GROUP, "                tgt_sys._discrete_inputs[tgt] = src_sys._discrete_outputs[src]",
           "                src_sys._discrete_outputs[src] = tgt_sys._discrete_inputs[tgt]", 'C04.discrete'),
    Mutant('discrete-keyed-by-source', XFER, "            xfer = (src_sys, src_var, tgt_sys, tgt_var)\n            transfers[tgt_sys].append(xfer)\n            if group.comm.size == 1:",
           "            xfer = (src_sys, src_var, tgt_sys, tgt_var)\n            transfers[src_sys].append(xfer)\n            if group.comm.size == 1:", 'C04.discrete'),
    Mutant('discrete-tuple-order', GROUP, "            for src_sys_name, src, tgt_sys_name, tgt in self._discrete_transfers[key]:\n                tgt_sys = self._subsystems_allprocs[tgt_sys_name].system",
           "            for tgt_sys_name, tgt, src_sys_name, src in self._discrete_transfers[key]:\n                tgt_sys = self._subsystems_allprocs[tgt_sys_name].system", 'C04.discrete'),
    Twin('twin-order-rename', SOLVER, "        for subsys in system._relevance.filter(system._all_subsystem_iter()):\n            system._transfer('nonlinear', 'fwd', subsys.name)\n\n            if subsys._is_local:\n                try:\n                    subsys._solve_nonlinear()",
         "        for s in system._relevance.filter(system._all_subsystem_iter()):\n            subsys = s\n            sname = subsys.name\n            system._transfer('nonlinear', 'fwd', sname)\n\n            if subsys._is_local:\n                try:\n                    subsys._solve_nonlinear()"),
    Twin('twin-order-kwargs', NLBJ, "system._transfer('nonlinear', 'fwd')", "system._transfer('nonlinear', mode='fwd', sub=None)"),
    # ---- xfer-build
    Mutant('xb-input-offset-of-output-var', XFER, "input_inds = range(offsets_in[idx_in], offsets_in[idx_in] + sizes_in[idx_in])",
           "input_inds = range(offsets_in[idx_out], offsets_in[idx_out] + sizes_in[idx_in])", 'C04.xfer-build'),
    Mutant('xb-offset-table-swap', XFER, "                offset = offsets_out[idx_out]", "                offset = offsets_in[idx_out]", 'C04.xfer-build'),
    Mutant('xb-offset-of-input-var', XFER, "                offset = offsets_out[idx_out]", "                offset = offsets_out[idx_in]", 'C04.xfer-build'),
    Mutant('xb-drop-offset', XFER, "output_inds = src_indices + offset", "output_inds = src_indices", 'C04.xfer-build'),
    Mutant('xb-srcidx-of-output', XFER, "conn_graph.get_src_index_array(abs_in)", "conn_graph.get_src_index_array(abs_out)", 'C04.xfer-build'),
    Mutant('xb-size-of-output', XFER, "output_inds = range(offset, offset + meta_in['size'])",
           "output_inds = range(offset, offset + abs2meta['output'][abs_out]['size'])", 'C04.xfer-build'),
    Mutant('xb-key-by-output', XFER, "sub_in = abs_in[mypathlen:].split('.', 1)[0]", "sub_in = abs_out[mypathlen:].split('.', 1)[0]", 'C04.xfer-build'),
    Mutant('xb-tot-size-out', XFER, "tot_size += sizes_in[idx_in]", "tot_size += sizes_in[idx_out]", 'C04.xfer-build'),
    Mutant('xb-polarity', XFER, "                if src_indices is None:\n                    output_inds", "                if src_indices is not None:\n                    output_inds", 'C04.xfer-build'),
    Mutant('xb-append-swapped', XFER, "                fwd_xfer_in[sub_in].append(input_inds)\n                fwd_xfer_out[sub_in].append(output_inds)",
           "                fwd_xfer_in[sub_in].append(output_inds)\n                fwd_xfer_out[sub_in].append(input_inds)", ['C04.xfer-build', 'C04.xfer-flow']),
    Mutant('xb-out-key-differs', XFER, "                fwd_xfer_out[sub_in].append(output_inds)",
           "                fwd_xfer_out[abs_out[mypathlen:].split('.', 1)[0]].append(output_inds)", 'C04.xfer-build'),
    Mutant('xb-input-stop-offset-out', XFER, "input_inds = range(offsets_in[idx_in], offsets_in[idx_in] + sizes_in[idx_in])",
           "input_inds = range(offsets_in[idx_in], offsets_out[idx_in] + sizes_in[idx_in])", 'C04.xfer-build'),
    Twin('twin-xb-inline-flip', XFER, "                offset = offsets_out[idx_out]\n                if src_indices is None:\n                    output_inds = range(offset, offset + meta_in['size'])\n                else:\n                    output_inds = src_indices + offset",
         "                if src_indices is not None:\n                    output_inds = offsets_out[idx_out] + src_indices\n                else:\n                    o = offsets_out[idx_out]\n                    output_inds = range(o, sizes_in[idx_in] + o)"),
    Twin('twin-xb-rename', XFER, "                input_inds = range(offsets_in[idx_in], offsets_in[idx_in] + sizes_in[idx_in])\n                tot_size += sizes_in[idx_in]",
         "                start_in = offsets_in[idx_in]\n                n_in = sizes_in[idx_in]\n                input_inds = range(start_in, start_in + n_in)\n                tot_size += n_in"),
    # ---- xfer-flow
    Mutant('xf-ctor-swapped', XFER, "vectors['output']['nonlinear'], xfer_in, xfer_out,", "vectors['output']['nonlinear'], xfer_out, xfer_in,", 'C04.xfer-flow'),
    Mutant('xf-views-return-swapped', XFER, "    return full_in, full_out", "    return full_out, full_in", 'C04.xfer-flow'),
    Mutant('xf-unpack-swapped', XFER, "    xfer_in, xfer_out = _setup_index_views(", "    xfer_out, xfer_in = _setup_index_views(", 'C04.xfer-flow'),
    Mutant('xf-persub-swapped', XFER, "                                               inds, out_xfers[sname],", "                                               out_xfers[sname], inds,", 'C04.xfer-flow'),
    Mutant('xf-init-swapped', XBASE, "        self._in_inds = in_inds\n        self._out_inds = out_inds", "        self._in_inds = out_inds\n        self._out_inds = in_inds", 'C04.xfer-flow'),
    Mutant('xf-gather-swapped', XFER, "in_vec.set_val(out_vec.asarray()[self._out_inds.flat], self._in_inds)",
           "in_vec.set_val(out_vec.asarray()[self._in_inds.flat], self._out_inds)", 'C04.xfer-flow'),
    Mutant('xf-target-swapped', XFER, "in_vec.set_val(out_vec.asarray()[self._out_inds.flat], self._in_inds)",
           "out_vec.set_val(in_vec.asarray()[self._out_inds.flat], self._in_inds)", 'C04.xfer-flow'),
    Mutant('xf-no-scatter-index', XFER, "in_vec.set_val(out_vec.asarray()[self._out_inds.flat], self._in_inds)",
           "in_vec.set_val(out_vec.asarray()[self._out_inds.flat])", 'C04.xfer-flow'),
    Mutant('xf-group-args-swapped', GROUP, "                else:\n                    xfer._transfer(vec_inputs, self._vectors['output'][vec_name], mode)",
           "                else:\n                    xfer._transfer(self._vectors['output'][vec_name], vec_inputs, mode)", 'C04.xfer-flow'),
    Mutant('xf-writeback-swapped', XFER, "        in_xfers[sname] = full_in[start:end]\n        out_xfers[sname] = full_out[start:end]",
           "        in_xfers[sname] = full_out[start:end]\n        out_xfers[sname] = full_in[start:end]", 'C04.xfer-flow'),
    Mutant('xf-call-args-swapped', XFER, "_setup_index_arrays(tot_size, fwd_xfer_in, fwd_xfer_out, vectors,", "_setup_index_arrays(tot_size, fwd_xfer_out, fwd_xfer_in, vectors,", 'C04.xfer-flow'),
    Mutant('xf-persub-other-key', XFER, "inds, out_xfers[sname],", "inds, out_xfers[None],", 'C04.xfer-flow'),
    Mutant('xf-view-window-cursor', XFER, "        in_xfers[sname] = full_in[start:end]", "        in_xfers[sname] = full_in[rstart:end]", 'C04.xfer-flow'),
    Twin('twin-xf-kwargs', XFER, "vectors['output']['nonlinear'], xfer_in, xfer_out,\n                                   len(scaled_in_set) > 0)",
         "vectors['output']['nonlinear'], out_inds=xfer_out, in_inds=xfer_in,\n                                   has_input_scaling=len(scaled_in_set) > 0)"),
    Twin('twin-xf-gather-data', XFER, "in_vec.set_val(out_vec.asarray()[self._out_inds.flat], self._in_inds)",
         "src_vals = out_vec.asarray()\n            in_vec.set_val(src_vals[self._out_inds], idxs=self._in_inds)"),
    # ---- group-xfer
    Mutant('gx-drop-phys', GROUP, "                    xfer._transfer(vec_inputs, self._vectors['output'][vec_name], mode)\n                    vec_inputs.scale_to_phys()\n",
           "                    xfer._transfer(vec_inputs, self._vectors['output'][vec_name], mode)\n", 'C04.group-xfer'),
    Mutant('gx-swap-norm-phys', GROUP, "                    vec_inputs.scale_to_norm()\n                    xfer._transfer(vec_inputs, self._vectors['output'][vec_name], mode)\n                    vec_inputs.scale_to_phys()",
           "                    vec_inputs.scale_to_phys()\n                    xfer._transfer(vec_inputs, self._vectors['output'][vec_name], mode)\n                    vec_inputs.scale_to_norm()", 'C04.group-xfer'),
    Mutant('gx-scale-outputs', GROUP, "                    vec_inputs.scale_to_norm()\n                    xfer._transfer(vec_inputs, self._vectors['output'][vec_name], mode)\n                    vec_inputs.scale_to_phys()",
           "                    self._vectors['output'][vec_name].scale_to_norm()\n                    xfer._transfer(vec_inputs, self._vectors['output'][vec_name], mode)\n                    self._vectors['output'][vec_name].scale_to_phys()", 'C04.group-xfer'),
    Mutant('gx-rev-mode', GROUP, "                    vec_inputs.scale_to_phys()\n                else:", "                    vec_inputs.scale_to_phys(mode='rev')\n                else:", 'C04.group-xfer'),
    Mutant('gx-unwrapped', GROUP, "                if xfer._has_input_scaling:\n                    vec_inputs.scale_to_norm()\n                    xfer._transfer(vec_inputs, self._vectors['output'][vec_name], mode)\n                    vec_inputs.scale_to_phys()\n                else:\n                    xfer._transfer(vec_inputs, self._vectors['output'][vec_name], mode)",
           "                xfer._transfer(vec_inputs, self._vectors['output'][vec_name], mode)", 'C04.group-xfer'),
    Mutant('gx-inverted-flag', GROUP, "                if xfer._has_input_scaling:\n                    vec_inputs.scale_to_norm()\n                    xfer._transfer",
           "                if not xfer._has_input_scaling:\n                    vec_inputs.scale_to_norm()\n                    xfer._transfer", 'C04.group-xfer'),
    Mutant('gx-norm-after', GROUP, "                    vec_inputs.scale_to_norm()\n                    xfer._transfer(vec_inputs, self._vectors['output'][vec_name], mode)\n                    vec_inputs.scale_to_phys()",
           "                    xfer._transfer(vec_inputs, self._vectors['output'][vec_name], mode)\n                    vec_inputs.scale_to_norm()\n                    vec_inputs.scale_to_phys()", 'C04.group-xfer'),
    Mutant('gx-discrete-dropped', GROUP, "            if self._conn_discrete_in2out and vec_name == 'nonlinear':\n                self._discrete_transfer(sub)\n\n        else:  # rev",
           "        else:  # rev", 'C04.group-xfer'),
    Mutant('gx-discrete-early-return', GROUP, "            if mode == 'fwd' and self._conn_discrete_in2out and vec_name == 'nonlinear':\n                self._discrete_transfer(sub)\n            return",
           "            return", 'C04.group-xfer'),
    Mutant('gx-skip-plain', GROUP, "                else:\n                    xfer._transfer(vec_inputs, self._vectors['output'][vec_name], mode)\n\n            if self._conn_discrete_in2out",
           "\n            if self._conn_discrete_in2out", 'C04.group-xfer'),
    Twin('twin-gx-flip', GROUP, "                if xfer._has_input_scaling:\n                    vec_inputs.scale_to_norm()\n                    xfer._transfer(vec_inputs, self._vectors['output'][vec_name], mode)\n                    vec_inputs.scale_to_phys()\n                else:\n                    xfer._transfer(vec_inputs, self._vectors['output'][vec_name], mode)",
         "                vec_out = self._vectors['output'][vec_name]\n                if not xfer._has_input_scaling:\n                    xfer._transfer(vec_inputs, vec_out, mode)\n                else:\n                    vec_inputs.scale_to_norm('fwd')\n                    xfer._transfer(vec_inputs, vec_out, mode)\n                    vec_inputs.scale_to_phys('fwd')"),
    # ---- proto
    Mutant('pr-tuple-order', UNITS, "        return (factor, offset)", "        return (offset, factor)", 'C04.proto'),
    Mutant('pr-factor-inverse', UNITS, "        factor = self._factor / other._factor\n", "        factor = other._factor / self._factor\n", 'C04.proto'),
    Mutant('pr-direction', UNITS, "    return _find_unit(old_units, error=True).conversion_tuple_to(_find_unit(new_units, error=True))",
           "    return _find_unit(new_units, error=True).conversion_tuple_to(_find_unit(old_units, error=True))", 'C04.proto'),
    Mutant('pr-consumer-direction', GROUP, "                    factor, offset = unit_conversion(units_out, units_in)\n\n                    # Send both",
           "                    factor, offset = unit_conversion(units_in, units_out)\n\n                    # Send both", 'C04.proto'),
    Mutant('pr-consumer-unpack-swapped', GROUP, "                    factor, offset = unit_conversion(units_out, units_in)\n\n                    # Send both",
           "                    offset, factor = unit_conversion(units_out, units_in)\n\n                    # Send both", 'C04.proto'),
    Mutant('pr-store-order', GROUP, "scale_factors[abs_in] = {'input': (a0, a1, factor, offset)}", "scale_factors[abs_in] = {'input': (a0, a1, offset, factor)}", 'C04.proto'),
    Mutant('pr-unpack-order', DVEC, "a0, a1, factor, offset = factor[kind]", "a0, a1, offset, factor = factor[kind]", 'C04.proto'),
    Mutant('pr-apply-adder', DVEC, "scale0 = (a0 + offset) * factor", "scale0 = a0 * factor + offset", 'C04.proto'),
    Mutant('pr-apply-scaler', DVEC, "scale1 = a1 * factor", "scale1 = a1 / factor", 'C04.proto'),
    Mutant('pr-apply-scaler-a0', DVEC, "scale1 = a1 * factor", "scale1 = a0 * factor", 'C04.proto'),
    Mutant('pr-adder-flag', GROUP, "                    # For adder allocation check.\n                    a0 = (ref0 + offset) * factor\n", "", 'C04.proto'),
    Mutant('pr-adder-order', GROUP, "        if self._has_input_scaling or self._has_output_scaling or self._has_resid_scaling:\n            self._scale_factors = self._compute_root_scale_factors()\n        else:\n            self._scale_factors = None\n\n        if self._vector_class is None:",
           "        if self._vector_class is None:", 'C04.proto',
           also=[(GROUP, "        # save root vecs as an attribute so that we can reuse the nonlinear scaling vecs in the\n",
                  "        if self._has_input_scaling or self._has_output_scaling or self._has_resid_scaling:\n            self._scale_factors = self._compute_root_scale_factors()\n        else:\n            self._scale_factors = None\n\n        # save root vecs as an attribute so that we can reuse the nonlinear scaling vecs in the\n")]),
    Mutant('pr-scale-reverse', DVEC, "        data *= scaler\n        if adder is not None:  # nonlinear only\n            data += adder",
           "        if adder is not None:  # nonlinear only\n            data += adder\n        data *= scaler", 'C04.proto'),
    Mutant('pr-units-of-other-output', GROUP, "                src_node_meta = conn_graph.nodes[('o', src)]['attrs']", "                src_node_meta = conn_graph.nodes[('o', abs_in)]['attrs']", 'C04.proto'),
    Twin('twin-pr-commute', DVEC, "                            scale0 = (a0 + offset) * factor\n                            scale1 = a1 * factor",
         "                            scale1 = factor * a1\n                            scale0 = factor * (offset + a0)"),
    Twin('twin-pr-distributed', DVEC, "                            scale0 = (a0 + offset) * factor", "                            scale0 = a0 * factor + offset * factor"),
    Twin('twin-pr-rename', GROUP, "                    factor, offset = unit_conversion(units_out, units_in)\n\n                    # Send both unit scaling and solver scaling. Linear input vectors need to\n                    # treat them differently in reverse mode.\n                    scale_factors[abs_in] = {'input': (a0, a1, factor, offset)}\n\n                    # For adder allocation check.\n                    a0 = (ref0 + offset) * factor",
         "                    mult, add = unit_conversion(units_out, units_in)\n                    scale_factors[abs_in] = {'input': (a0, a1, mult, add)}\n                    a0 = mult * (add + ref0)"),
    # ---- indexer
    Mutant('ix-swap-dispatch', INDEXER, "        if self._flat_src:\n            return arr.ravel()[self.flat()]\n        else:\n            return arr[self()]",
           "        if self._flat_src:\n            return arr[self()]\n        else:\n            return arr.ravel()[self.flat()]", 'C04.indexer'),
    Mutant('ix-no-ravel', INDEXER, "            return arr.ravel()[self.flat()]", "            return arr[self.flat()]", 'C04.indexer'),
    Mutant('ix-int-sub', INDEXER, "ShapedIntIndexer(self._idx + self._src_shape[0])", "ShapedIntIndexer(self._idx - self._src_shape[0])", 'C04.indexer'),
    Mutant('ix-int-le', INDEXER, "        if self._idx < 0:\n            self._shaped_inst = ShapedIntIndexer", "        if self._idx <= 0:\n            self._shaped_inst = ShapedIntIndexer", 'C04.indexer'),
    Mutant('ix-int-last-dim', INDEXER, "ShapedIntIndexer(self._idx + self._src_shape[0])", "ShapedIntIndexer(self._idx + self._src_shape[-1])", 'C04.indexer'),
    Mutant('ix-arr-last-dim', INDEXER, "            sharr[negs] += self._src_shape[0]", "            sharr[negs] += self._src_shape[-1]", 'C04.indexer'),
    Mutant('ix-arr-nocopy', INDEXER, "            sharr = self._arr.copy()\n", "            sharr = self._arr\n", 'C04.indexer'),
    Mutant('ix-arr-mask-le', INDEXER, "        negs = self._arr < 0\n", "        negs = self._arr <= 0\n", 'C04.indexer'),
    Mutant('ix-flat-shape', INDEXER, "        shape = shape2tuple(shape)\n        if self._flat_src:\n            shape = (shape_to_len(shape),)\n", "        shape = shape2tuple(shape)\n", 'C04.indexer'),
    Mutant('ix-arr-unused-copy', INDEXER, "        self._shaped_inst = ShapedArrayIndexer(sharr)", "        self._shaped_inst = ShapedArrayIndexer(self._arr)", 'C04.indexer'),
    Twin('twin-ix-flip', INDEXER, "        if self._flat_src:\n            return arr.ravel()[self.flat()]\n        else:\n            return arr[self()]",
         "        if not self._flat_src:\n            return arr[self()]\n        return arr.flatten()[self.flat()]"),
    Twin('twin-ix-int-flip', INDEXER, "        if self._idx < 0:\n            self._shaped_inst = ShapedIntIndexer(self._idx + self._src_shape[0])\n        else:\n            self._shaped_inst = ShapedIntIndexer(self._idx)",
         "        if self._idx >= 0:\n            self._shaped_inst = ShapedIntIndexer(self._idx)\n        else:\n            self._shaped_inst = ShapedIntIndexer(self._src_shape[0] + self._idx)"),
    # ---- scaling-flags
    Mutant('sf-units-eq', GROUP, "(in_units and out_units and in_units != out_units)", "(in_units and out_units and in_units == out_units)", 'C04.scaling-flags'),
    Mutant('sf-not-monotone', GROUP, "            if not self._has_input_scaling and not (abs_in in allprocs_discrete_in or", "            if not (abs_in in allprocs_discrete_in or", 'C04.scaling-flags'),
    Mutant('sf-no-propagation', GROUP, "            if subsys._has_input_scaling:\n                self._has_input_scaling = True\n", "", 'C04.scaling-flags'),
    Mutant('sf-units-dropped', GROUP, "                self._has_input_scaling = self._has_output_scaling or \\\n                    (in_units and out_units and in_units != out_units)",
           "                self._has_input_scaling = self._has_output_scaling", 'C04.scaling-flags'),
    Mutant('sf-root-compute', GROUP, "        if self._has_input_scaling or self._has_output_scaling or self._has_resid_scaling:\n            self._scale_factors",
           "        if self._has_output_scaling or self._has_resid_scaling:\n            self._scale_factors", 'C04.scaling-flags'),
    Mutant('sf-input-block', GROUP, "        if self._has_input_scaling:\n            conn_graph = self.get_conn_graph()", "        if self._has_output_scaling:\n            conn_graph = self.get_conn_graph()", 'C04.scaling-flags'),
    Mutant('sf-set-by-output', XFER, "                if scale_factors is not None and abs_in in scale_factors:\n                    factors = scale_factors[abs_in]",
           "                if scale_factors is not None and abs_out in scale_factors:\n                    factors = scale_factors[abs_out]", 'C04.scaling-flags'),
    Mutant('sf-set-kind', XFER, "                    if 'input' in factors:", "                    if 'output' in factors:", 'C04.scaling-flags'),
    Mutant('sf-set-dropped', XFER, "                        scaled_in_set.add(sub_in)\n\n                # Now the indices", "                        pass\n\n                # Now the indices", 'C04.scaling-flags'),
    Mutant('sf-flag-full', XFER, "len(scaled_in_set) > 0)", "len(scaled_in_set) > 1)", 'C04.scaling-flags'),
    Mutant('sf-flag-sub', XFER, "sname in scaled_in_set)", "sname not in scaled_in_set)", 'C04.scaling-flags'),
    Mutant('sf-flag-const', XFER, "sname in scaled_in_set)", "False)", 'C04.scaling-flags'),
    Twin('twin-sf-bool', XFER, "len(scaled_in_set) > 0)", "bool(scaled_in_set))"),
    Twin('twin-sf-nested-if', XFER, "                if scale_factors is not None and abs_in in scale_factors:\n                    factors = scale_factors[abs_in]\n                    if 'input' in factors:\n                        scaled_in_set.add(sub_in)",
         "                if scale_factors is not None:\n                    if abs_in in scale_factors and 'input' in scale_factors[abs_in]:\n                        scaled_in_set.add(sub_in)"),
    # ---- index-arrays
    Mutant('ia-slice-wrong-index', INDEXER, "arr = np.arange(src_size, dtype=INT_DTYPE).reshape(self._src_shape)[self._slice].ravel()",
           "arr = np.arange(src_size, dtype=INT_DTYPE).reshape(self._src_shape)[::-1][self._slice].ravel()", 'C04.index-arrays'),
    Mutant('ia-slice-reversed-shape', INDEXER, "arr = np.arange(src_size, dtype=INT_DTYPE).reshape(self._src_shape)[self._slice].ravel()",
           "arr = np.arange(src_size, dtype=INT_DTYPE).reshape(self._src_shape[::-1])[self._slice].ravel()", 'C04.index-arrays'),
    Mutant('ia-multi-reversed-index', INDEXER, "        idxs = np.arange(size, dtype=INT_DTYPE).reshape(self._src_shape)\n\n        if flat:\n            return idxs[self()].ravel()",
           "        idxs = np.arange(size, dtype=INT_DTYPE).reshape(self._src_shape)\n\n        if flat:\n            return idxs[self()[::-1]].ravel()", 'C04.index-arrays'),
    Mutant('ia-multi-shared-dim', INDEXER, "            for i, s, ds in zip(self._idx_list, self._src_shape, self._dist_shape):\n                i.set_src_shape(s, ds)",
           "            for i, s, ds in zip(self._idx_list, self._src_shape, self._dist_shape):\n                i.set_src_shape(self._src_shape[0], ds)", 'C04.index-arrays'),
    Mutant('ia-multi-reversed-dims', INDEXER, "            for i, s, ds in zip(self._idx_list, self._src_shape, self._dist_shape):", "            for i, s, ds in zip(self._idx_list, self._src_shape[::-1], self._dist_shape):", 'C04.index-arrays'),
    Mutant('ia-slice-last-dim', INDEXER, "ShapedSliceIndexer(slice(*self._slice.indices(self._src_shape[0])))", "ShapedSliceIndexer(slice(*self._slice.indices(self._src_shape[-1])))", 'C04.index-arrays'),
    Twin('twin-ia-temp', INDEXER, "            arr = np.arange(src_size, dtype=INT_DTYPE).reshape(self._src_shape)[self._slice].ravel()",
         "            virt = np.arange(src_size, dtype=INT_DTYPE).reshape(self._src_shape)\n            arr = virt[self._slice].ravel()"),
    # ---- api
    Mutant('api-connect-flat-lost', GROUP, "src_indices = indexer(src_indices, flat_src=flat_src_indices)", "src_indices = indexer(src_indices)", 'C04.api'),
    Mutant('api-connect-indices-dropped', GROUP, "        manual_connections[tgt_name] = (src_name, src_indices)", "        manual_connections[tgt_name] = (src_name, None)", 'C04.api'),
    Mutant('api-connect-keyed-by-src', GROUP, "        manual_connections[tgt_name] = (src_name, src_indices)", "        manual_connections[src_name] = (tgt_name, src_indices)", 'C04.api'),
    Mutant('api-manual-edge-no-indices', CONN, "self.check_add_edge(group, src_node, tgt_node, type='manual', src_indices=src_indices)", "self.check_add_edge(group, src_node, tgt_node, type='manual')", 'C04.api'),
    Mutant('api-manual-edge-reversed', CONN, "self.check_add_edge(group, src_node, tgt_node, type='manual', src_indices=src_indices)", "self.check_add_edge(group, tgt_node, src_node, type='manual', src_indices=src_indices)", 'C04.api'),
    Mutant('api-edge-attrs-dropped', CONN, "        self.add_edge(src, tgt, **kwargs)", "        self.add_edge(src, tgt)", 'C04.api'),
    Mutant('api-promotes-args-swapped', GROUP, "prominfo = _PromotesInfo(src_indices, flat_src_indices, src_shape)", "prominfo = _PromotesInfo(src_indices, src_shape, flat_src_indices)", 'C04.api'),
    Mutant('api-promotes-flat-lost', GROUP, "self.src_indices = indexer(src_indices, src_shape=self.src_shape, flat_src=flat)", "self.src_indices = indexer(src_indices, src_shape=self.src_shape)", 'C04.api'),
    Mutant('api-pmap-order', SYSTEM, "                            pmap[key] = (s, key, pinfo, match_type)", "                            pmap[key] = (s, key, match_type, pinfo)", 'C04.api'),
    Mutant('api-pmap-consumer', GROUP, "                        prom_name, _, pinfo, _ = subprom2prom[sub_prom]", "                        prom_name, _, _, pinfo = subprom2prom[sub_prom]", 'C04.api'),
    Mutant('api-promotion-no-indices', CONN, "        self.check_add_edge(group, src, tgt, src_indices=src_indices)\n\n        if src_shape is not None:", "        self.check_add_edge(group, src, tgt)\n\n        if src_shape is not None:", 'C04.api'),
    Mutant('api-promotion-direction', CONN, "        if io == 'input':\n            src, _ = self.get_node_attrs(group.pathname, prom_name, io[0])", "        if io == 'output':\n            src, _ = self.get_node_attrs(group.pathname, prom_name, io[0])", 'C04.api'),
    Twin('twin-api-positional', GROUP, "src_indices = indexer(src_indices, flat_src=flat_src_indices)", "src_indices = indexer(src_indices, None, flat_src_indices)"),
    Twin('twin-api-kwargs', GROUP, "prominfo = _PromotesInfo(src_indices, flat_src_indices, src_shape)", "prominfo = _PromotesInfo(src_shape=src_shape, src_indices=src_indices, flat=flat_src_indices)"),
    # ---- other accepted shapes of the repaired constructs (must be silent)
    Twin('twin-srcidx-no-shortcut', CONN, "        elif len(src_inds_list) == 1 and src_inds_list[0]._flat_src:\n            return src_inds_list[0].shaped_array()\n        else:", "        else:",
         also=[(CONN, "                arr = inds.indexed_val(arr)\n            return np.atleast_1d(arr).ravel()", "                arr = inds.indexed_val(arr)\n            arr = arr.reshape(-1)\n            return arr")]),
    Twin('twin-srcidx-len-guard', CONN, "        elif len(src_inds_list) == 1 and src_inds_list[0]._flat_src:", "        elif len(src_inds_list) == 1 and len(self.nodes[self.get_root(node)]['attrs'].global_shape) <= 1:"),
    Twin('twin-srcidx-consumer-flattens', XFER, "                src_indices = conn_graph.get_src_index_array(abs_in)", "                src_indices = conn_graph.get_src_index_array(abs_in)\n                if src_indices is not None:\n                    src_indices = np.atleast_1d(src_indices).ravel()",
         also=[(CONN, "            return np.atleast_1d(arr).ravel()", "            return arr")]),
    Twin('twin-discrete-extend-after', XFER, "            transfers[tgt_sys].append(xfer)\n            if group.comm.size == 1:\n                # full transfer (sub=None) moves every discrete connection of this group\n                transfers[None].append(xfer)\n\n        if group.comm.size > 1:",
         "            transfers[tgt_sys].append(xfer)\n\n        if group.comm.size > 1:\n            pass\n        else:\n            for xfers in list(transfers.values()):\n                transfers[None].extend(xfers)\n\n        if group.comm.size > 1:"),
    Twin('twin-si-nested', GROUP, "                        if not scalar_ref:\n                            ref = ref[src_indices]\n                        if not scalar_ref0:\n                            ref0 = ref0[src_indices]\n                        if scalar_ref:  # ref is scalar so ref0 must be an array\n                            ref = np.full(ref0.shape, ref)\n                        elif scalar_ref0:  # ref0 is scalar so ref must be an array\n                            ref0 = np.full(ref.shape, ref0)",
         "                        if scalar_ref:\n                            ref0 = ref0[src_indices]\n                            ref = np.full(ref0.shape, ref)\n                        elif scalar_ref0:\n                            ref = ref[src_indices]\n                            ref0 = np.full(ref.shape, ref0)\n                        else:\n                            ref0 = ref0[src_indices]\n                            ref = ref[src_indices]"),
    Twin('twin-si-index-shape', GROUP, "                            ref = np.full(ref0.shape, ref)", "                            ref = np.full(src_indices.shape, ref)"),
    Twin('twin-si-no-fill', GROUP, "                        if scalar_ref:  # ref is scalar so ref0 must be an array\n                            ref = np.full(ref0.shape, ref)\n                        elif scalar_ref0:  # ref0 is scalar so ref must be an array\n                            ref0 = np.full(ref.shape, ref0)\n", ""),
    Twin('twin-srcidx-early-returns', CONN, "        elif len(src_inds_list) == 1 and src_inds_list[0]._flat_src:\n            return src_inds_list[0].shaped_array()\n        else:\n            root = self.get_root(node)\n            root_meta = self.nodes[root]['attrs']\n            if root_meta.distributed:\n                root_shape = root_meta.global_shape\n            else:\n                root_shape = root_meta.shape\n            arr = np.arange(shape_to_len(root_shape)).reshape(root_shape)\n            for inds in src_inds_list:\n                arr = inds.indexed_val(arr)\n            return np.atleast_1d(arr).ravel()",
         "\n        if len(src_inds_list) == 1:\n            first = src_inds_list[0]\n            if first._flat_src:\n                return first.shaped_array()\n\n        root_meta = self.nodes[self.get_root(node)]['attrs']\n        root_shape = root_meta.global_shape if root_meta.distributed else root_meta.shape\n        idx_arr = np.arange(shape_to_len(root_shape)).reshape(root_shape)\n        for idxer in src_inds_list:\n            idx_arr = idxer.indexed_val(idx_arr)\n        return np.atleast_1d(idx_arr).ravel()"),
    Twin('twin-xf-rev-first-early-return', XFER, "        if mode == 'fwd':\n            # this works whether the vecs have multi columns or not due to broadcasting\n            in_vec.set_val(out_vec.asarray()[self._out_inds.flat], self._in_inds)\n\n        else:  # rev\n            out_vec.iadd(np.bincount(self._out_inds, in_vec._get_data()[self._in_inds],\n                                     minlength=out_vec._data.size))",
         "        if mode != 'fwd':  # rev\n            tgt_vals = in_vec._get_data()[self._in_inds]\n            gathered = np.bincount(self._out_inds, weights=tgt_vals,\n                                   minlength=out_vec._data.size)\n            out_vec.iadd(gathered)\n            return\n\n        src_vals = out_vec.asarray()[self._out_inds.flat]\n        in_vec.set_val(src_vals, self._in_inds)"),
    Twin('twin-xf-rev-test', XFER, "        if mode == 'fwd':\n            # this works whether the vecs have multi columns or not due to broadcasting\n            in_vec.set_val(out_vec.asarray()[self._out_inds.flat], self._in_inds)\n\n        else:  # rev\n            out_vec.iadd(",
         "        if mode == 'rev':\n            out_vec.iadd(np.bincount(self._out_inds, in_vec._get_data()[self._in_inds],\n                                     minlength=out_vec._data.size))\n        else:\n            in_vec.set_val(out_vec.asarray()[self._out_inds.flat], self._in_inds)\n        if False:\n            out_vec.iadd("),
    Twin('twin-uf-prefix-slice', UNITS, "add_unit(item, prefixes[item[0:2]] * unit_table[item[2:]])", "add_unit(item, unit_table[item[2:]] * prefixes[item[:2]])"),
    Twin('twin-uf-rdiv-temp', UNITS, "        return PhysicalUnit({str(other): 1} - self._names,\n                            float(other) / self._factor,",
         "        num = float(other)\n        return PhysicalUnit({str(other): 1} - self._names,\n                            num / self._factor,"),
    # ---- the repaired defects re-introduced (pre-fix shapes) and the independently seeded changes
    Mutant('revert-d1-shortcut-guard', CONN, "elif len(src_inds_list) == 1 and src_inds_list[0]._flat_src:", "elif len(src_inds_list) == 1:", 'C04.src-index'),
    Mutant('revert-d2-ravel', CONN, "            return np.atleast_1d(arr).ravel()", "            return arr", 'C04.src-index'),
    Mutant('revert-d3-serial-none', XFER, "            if group.comm.size == 1:\n                # full transfer (sub=None) moves every discrete connection of this group\n                transfers[None].append(xfer)\n", "", 'C04.discrete'),
    Mutant('revert-d3-mpi-only', XFER, "            if group.comm.size == 1:\n                # full transfer", "            if group.comm.size > 1:\n                # full transfer", 'C04.discrete'),
    Mutant('revert-d4-fill-order', GROUP, "                        if not scalar_ref:\n                            ref = ref[src_indices]\n                        if not scalar_ref0:\n                            ref0 = ref0[src_indices]\n                        if scalar_ref:  # ref is scalar so ref0 must be an array\n                            ref = np.full(ref0.shape, ref)\n                        elif scalar_ref0:  # ref0 is scalar so ref must be an array\n                            ref0 = np.full(ref.shape, ref0)",
           "                        if not scalar_ref:\n                            ref = ref[src_indices]\n                        else:  # ref is scalar so ref0 must be an array\n                            ref = np.full(ref0.shape, ref)\n                        if not scalar_ref0:\n                            ref0 = ref0[src_indices]\n                        else:  # ref0 is scalar so ref must be an array\n                            ref0 = np.full(ref.shape, ref0)", 'C04.scale-idx'),
    Mutant('seed3-ref0-elif', GROUP, "                        if not scalar_ref0:\n                            ref0 = ref0[src_indices]", "                        elif not scalar_ref0:\n                            ref0 = ref0[src_indices]", 'C04.scale-idx'),
    Mutant('si-ref-only-when-ref0-scalar', GROUP, "                        if not scalar_ref:\n                            ref = ref[src_indices]", "                        if not scalar_ref and scalar_ref0:\n                            ref = ref[src_indices]", 'C04.scale-idx'),
    Mutant('si-ref0-unindexed', GROUP, "                        if not scalar_ref0:\n                            ref0 = ref0[src_indices]\n", "", 'C04.scale-idx'),
    Mutant('si-different-index', GROUP, "                            ref0 = ref0[src_indices]", "                            ref0 = ref0[:len(src_indices)]", 'C04.scale-idx'),
    Mutant('si-flag-swapped', GROUP, "                        if not scalar_ref0:\n                            ref0 = ref0[src_indices]", "                        if not scalar_ref:\n                            ref0 = ref0[src_indices]", 'C04.scale-idx'),
    Mutant('si-list-of-source', GROUP, "                src_inds_list = meta_in['src_inds_list']", "                src_inds_list = src_node_meta.src_inds_list", 'C04.scale-idx'),
    Mutant('si-ref-of-input', GROUP, "                src_meta = allprocs_meta_out[src]\n                ref = src_meta['ref']", "                src_meta = allprocs_meta_out[src]\n                ref = allprocs_meta_out[abs_in]['ref']", 'C04.scale-idx'),
    Twin('twin-sn-reordered', INDEXER, _SN_TEST, "        elif slc.stop is None or 0 > slc.stop or not (slc.start is None or slc.start >= 0) or \\\n                (slc.step < 0 and slc.start is None):"),
    Twin('twin-sn-resolve-more', INDEXER, _SN_TEST, "        elif slc.start is not None or slc.stop is None or slc.stop < 0 or slc.step < 0:"),
    Twin('twin-sn-open-start-any-step', INDEXER, _SN_TEST, "        elif slc.start is None or slc.start < 0 or slc.stop is None or slc.stop < 0:"),
    Mutant('revert-d5-open-start-backwards', INDEXER, _SN_TEST, "        elif (slc.start is not None and slc.start < 0) or slc.stop is None or slc.stop < 0:", 'C04.slice-norm'),
    Mutant('seed1-slice-neg-start-explicit-stop', INDEXER, _SN_TEST, "        elif slc.stop is None or slc.stop < 0 or \\\n                (slc.start is None and slc.step < 0):", 'C04.slice-norm'),
    Mutant('sn-neg-stop-unresolved', INDEXER, _SN_TEST, "        elif (slc.start is not None and slc.start < 0) or slc.stop is None or \\\n                (slc.start is None and slc.step < 0):", 'C04.slice-norm'),
    Mutant('sn-and-instead-of-or', INDEXER, _SN_TEST, "        elif ((slc.start is not None and slc.start < 0) and (slc.stop is None or slc.stop < 0)) or \\\n                (slc.start is None and slc.step < 0):", 'C04.slice-norm'),
    Mutant('sn-start-gt', INDEXER, _SN_TEST, "        elif (slc.start is not None and slc.start > 0) or slc.stop is None or slc.stop < 0 or \\\n                (slc.start is None and slc.step < 0):", 'C04.slice-norm'),
    Mutant('sn-open-start-forward-only', INDEXER, _SN_TEST, "        elif (slc.start is not None and slc.start < 0) or slc.stop is None or slc.stop < 0 or \\\n                (slc.start is None and slc.step > 0):", 'C04.slice-norm'),
    Mutant('sn-backwards-case-widened', INDEXER, "        if slc.stop is None and slc.step < 0:  # special backwards indexing case\n            self._shaped_inst", "        if slc.stop is None or slc.step < 0:  # special backwards indexing case\n            self._shaped_inst", 'C04.slice-norm'),
    Mutant('sn-as-array-special-dropped', INDEXER, "            if slc.stop is None and slc.step < 0:  # special case - neg step down to -1\n                return np.arange(self._src_shape[0], dtype=int)[slc]\n            else:\n                # use maxsize here since a shaped slice always has positive int start and stop\n                return np.arange(*slc.indices(sys.maxsize), dtype=int)",
           "            return np.arange(*slc.indices(sys.maxsize), dtype=int)", 'C04.slice-norm'),
    # ---- round-2 seeds
    Mutant('seed2-1-discrete-under-xfer', GROUP, "            if self._conn_discrete_in2out and vec_name == 'nonlinear':\n                self._discrete_transfer(sub)\n\n        else:  # rev",
           "                if self._conn_discrete_in2out and vec_name == 'nonlinear':\n                    self._discrete_transfer(sub)\n\n        else:  # rev", 'C04.group-xfer'),
    Mutant('seed2-2-two-letter-prefix', UNITS, "add_unit(item, prefixes[item[0:2]] * unit_table[item[2:]])", "add_unit(item, prefixes[item[0]] * unit_table[item[2:]])", 'C04.unit-factor'),
    Mutant('seed2-3-rdiv-multiplies', UNITS, "                            float(other) / self._factor,", "                            float(other) * self._factor,", 'C04.unit-factor'),
    Mutant('uf-prefix-base-offset', UNITS, "add_unit(item, prefixes[item[0:2]] * unit_table[item[2:]])", "add_unit(item, prefixes[item[0:2]] * unit_table[item[1:]])", 'C04.unit-factor'),
    Mutant('uf-rdiv-powers', UNITS, "                            float(other) / self._factor,\n                            [-x for x in self._powers])", "                            float(other) / self._factor,\n                            [x for x in self._powers])", 'C04.unit-factor'),
    Mutant('uf-offset-sign', UNITS, "        offset = self._offset - (other._offset * other._factor / self._factor)", "        offset = self._offset + (other._offset * other._factor / self._factor)", 'C04.unit-factor'),
    # ---- src-shape-fresh
    Mutant('revert-d6-guard-parent', CONN, "            src_indices.set_src_shape(shape)\n            shape = src_indices.indexed_src_shape",
           "            if src_indices._src_shape is None:\n                src_indices.set_src_shape(shape)\n            shape = src_indices.indexed_src_shape", 'C04.src-shape-fresh'),
    Mutant('revert-d6-guard-resolve', CONN, "                src_indices.set_src_shape(src_shape)\n                src_shape = src_indices.indexed_src_shape",
           "                if src_indices._src_shape is None:\n                    src_indices.set_src_shape(src_shape)\n                src_shape = src_indices.indexed_src_shape", 'C04.src-shape-fresh'),
    Mutant('ssf-guard-not', CONN, "                src_indices.set_src_shape(src_shape)\n                src_shape = src_indices.indexed_src_shape",
           "                if not src_indices._src_shape:\n                    src_indices.set_src_shape(src_shape)\n                src_shape = src_indices.indexed_src_shape", 'C04.src-shape-fresh'),
    Mutant('ssf-never-set', CONN, "            src_indices.set_src_shape(shape)\n            shape = src_indices.indexed_src_shape", "            shape = src_indices.indexed_src_shape", 'C04.src-shape-fresh'),
    Mutant('ssf-target-shape', CONN, "                src_indices.set_src_shape(src_shape)\n                src_shape = src_indices.indexed_src_shape",
           "                src_indices.set_src_shape(tgt_meta.shape)\n                src_shape = src_indices.indexed_src_shape", 'C04.src-shape-fresh'),
    Twin('twin-ssf-temp', CONN, "                src_indices.set_src_shape(src_shape)\n                src_shape = src_indices.indexed_src_shape",
         "                cur_shape = src_shape\n                src_indices.set_src_shape(cur_shape)\n                src_shape = src_indices.indexed_src_shape"),
    Twin('twin-ssf-guard-changed', CONN, "            src_indices.set_src_shape(shape)\n            shape = src_indices.indexed_src_shape",
         "            if src_indices._src_shape != shape:\n                src_indices.set_src_shape(shape)\n            shape = src_indices.indexed_src_shape"),
    # ---- robustness round 2: helper extraction / single construction site / early return (accepted), broken inside
    Twin('twin-ssf-helper', CONN, _SSF_A, _SSF_A_NEW, also=[(CONN, _SSF_B, _SSF_B_NEW), (CONN, _SSF_ANCHOR, _SSF_HELPER + _SSF_ANCHOR)]),
    Mutant('ssf-helper-stale-guard', CONN, _SSF_A, _SSF_A_NEW, 'C04.src-shape-fresh',
           also=[(CONN, _SSF_B, _SSF_B_NEW),
                 (CONN, _SSF_ANCHOR, _SSF_HELPER.replace("        src_indices.set_src_shape(shape)\n", "        if src_indices._src_shape is None:\n            src_indices.set_src_shape(shape)\n") + _SSF_ANCHOR)]),
    Mutant('ssf-helper-wrong-shape', CONN, _SSF_A, _SSF_A_NEW, 'C04.src-shape-fresh',
           also=[(CONN, _SSF_B, _SSF_B_NEW.replace("(src_indices, src_shape, src_val)", "(src_indices, tgt_shape, src_val)")),
                 (CONN, _SSF_ANCHOR, _SSF_HELPER + _SSF_ANCHOR)]),
    Twin('twin-sn-single-ctor', INDEXER, _SN_BLOCK, _SN_SINGLE),
    Mutant('sn-single-ctor-neg-start', INDEXER, _SN_BLOCK, _SN_SINGLE.replace("(start is not None and start < 0) or ", ""), 'C04.slice-norm'),
    Mutant('sn-single-ctor-inverted', INDEXER, _SN_BLOCK, _SN_SINGLE.replace("        if not backwards_to_start:", "        if backwards_to_start:"), 'C04.slice-norm'),
    Twin('twin-gx-helper-early-return', GROUP, _GX_HEAD, _GX_HEAD_NEW, also=[(GROUP, _GX_DISC, _GX_DISC_NEW), (GROUP, _GX_ANCHOR, _GX_HELPER + _GX_ANCHOR)]),
    Mutant('gx-helper-under-xfer', GROUP, _GX_HEAD, _GX_HEAD_NEW, 'C04.group-xfer',
           also=[(GROUP, _GX_DISC, "                self._nl_discrete_transfer(vec_name, sub)\n\n        else:  # rev"), (GROUP, _GX_ANCHOR, _GX_HELPER + _GX_ANCHOR)]),
    Mutant('gx-helper-not-always', GROUP, _GX_HEAD, _GX_HEAD_NEW, 'C04.group-xfer',
           also=[(GROUP, _GX_DISC, _GX_DISC_NEW),
                 (GROUP, _GX_ANCHOR, _GX_HELPER.replace("if self._conn_discrete_in2out and vec_name == 'nonlinear':", "if self._conn_discrete_in2out and vec_name == 'nonlinear' and sub is not None:") + _GX_ANCHOR)]),
    # ---- round-3 seeds and the clauses added for them
    Mutant('seed3-1-rewire-before-chains', CONN, "        self.add_auto_ivc_nodes(model)\n        self.update_src_inds_lists(model)\n", "        self.add_auto_ivc_nodes(model)\n        self.transform_input_input_connections(model)\n        self.update_src_inds_lists(model)\n",
           'C04.chain-order', also=[(CONN, "        self.update_all_node_meta(model)\n        self.transform_input_input_connections(model)\n", "        self.update_all_node_meta(model)\n")]),
    Mutant('co-chains-rebuilt-after', CONN, "        self.update_all_node_meta(model)\n        self.transform_input_input_connections(model)\n", "        self.update_all_node_meta(model)\n        self.transform_input_input_connections(model)\n        self.update_src_inds_lists(model)\n", 'C04.chain-order'),
    Mutant('co-chains-never-built', CONN, "        self.add_auto_ivc_nodes(model)\n        self.update_src_inds_lists(model)\n", "        self.add_auto_ivc_nodes(model)\n", 'C04.chain-order'),
    Twin('twin-co-alias', CONN, "        self.add_auto_ivc_nodes(model)\n        self.update_src_inds_lists(model)\n", "        self.add_auto_ivc_nodes(model)\n        build_chains = self.update_src_inds_lists\n        build_chains(model)\n"),
    Mutant('seed3-2-adder-formula', DVEC, "scale0 = (a0 + offset) * factor", "scale0 = a0 + offset * factor", 'C04.proto'),
    Mutant('seed3-3-cache-kept', INDEXER, "                self._dist_shape = None\n                raise\n            self._shaped_inst = None\n", "                self._dist_shape = None\n                self._shaped_inst = None\n                raise\n", 'C04.shape-cache'),
    Mutant('sc-cache-never-dropped', INDEXER, "                raise\n            self._shaped_inst = None\n", "                raise\n", 'C04.shape-cache'),
    Mutant('sc-multi-skips-super', INDEXER, "        self._check_src_shape(shape2tuple(shape))\n        super().set_src_shape(shape, dist_shape)\n", "        self._check_src_shape(shape2tuple(shape))\n        if self._src_shape is None:\n            super().set_src_shape(shape, dist_shape)\n", 'C04.shape-cache'),
    Twin('twin-sc-invalidate-first', INDEXER, "            self._src_shape = sshape\n            try:\n                self._check_bounds()\n            except Exception:\n                self._src_shape = None\n                self._dist_shape = None\n                raise\n            self._shaped_inst = None\n",
         "            self._shaped_inst = None\n            self._src_shape = sshape\n            try:\n                self._check_bounds()\n            except Exception:\n                self._src_shape = None\n                self._dist_shape = None\n                raise\n"),
    # ---- edge-indexer (D7 repaired: per-edge copy)
    Mutant('revert-d7-shared-indexer', CONN, "            src_indices = None if pinfo.src_indices is None else pinfo.src_indices.copy()\n", "            src_indices = pinfo.src_indices\n", 'C04.edge-indexer'),
    Mutant('ei-copy-only-when-shaped', CONN, "            src_indices = None if pinfo.src_indices is None else pinfo.src_indices.copy()\n",
           "            src_indices = pinfo.src_indices.copy() if pinfo.src_shape is None and pinfo.src_indices is not None else pinfo.src_indices\n", 'C04.edge-indexer'),
    Twin('twin-ei-if-else', CONN, "            src_indices = None if pinfo.src_indices is None else pinfo.src_indices.copy()\n",
         "            if pinfo.src_indices is None:\n                src_indices = None\n            else:\n                src_indices = pinfo.src_indices.copy()\n"),
    Twin('twin-ei-copy-module', CONN, "            src_indices = None if pinfo.src_indices is None else pinfo.src_indices.copy()\n",
         "            src_indices = None if pinfo.src_indices is None else copy.copy(pinfo.src_indices)\n"),
    Twin('twin-ei-info-per-name', GROUP, "            subsys._var_promotes['any'].extend((a, prominfo) for a in any)", "            subsys._var_promotes['any'].extend((a, copy.deepcopy(prominfo)) for a in any)",
         also=[(GROUP, "            subsys._var_promotes['input'].extend((i, prominfo) for i in inputs)", "            subsys._var_promotes['input'].extend((i, copy.deepcopy(prominfo)) for i in inputs)"),
               (CONN, "            src_indices = None if pinfo.src_indices is None else pinfo.src_indices.copy()\n", "            src_indices = pinfo.src_indices\n")]),
    # ---- robustness round 3: role variables chosen once by `io`, one shared code path
    Twin('twin-api-role-variables', CONN, _AP_OLD, _AP_ROLES),
    Twin('twin-api-role-variables-output-test', CONN, _AP_OLD, _AP_ROLES.replace("(upper, lower) if io == 'input' else (lower, upper)", "(lower, upper) if io != 'input' else (upper, lower)")),
    Mutant('api-role-variables-swapped', CONN, _AP_OLD, _AP_ROLES.replace("(upper, lower) if io == 'input' else (lower, upper)", "(lower, upper) if io == 'input' else (upper, lower)"), 'C04.api'),
    Mutant('api-role-variables-wrong-element', CONN, _AP_OLD, _AP_ROLES.replace("self.get_node_attrs(tgt_key[0], tgt_key[1], io_char)", "self.get_node_attrs(tgt_key[0], src_key[1], io_char)"), 'C04.api'),
    # ---- robustness round 4: chain composition extracted into a helper method
    Twin('twin-srcidx-helper', CONN, _SI_OLD, _SI_HELPER),
    Mutant('srcidx-helper-reversed', CONN, _SI_OLD, _SI_HELPER.replace("for idxer in idx_chain:", "for idxer in idx_chain[::-1]:"), 'C04.src-index'),
    Mutant('srcidx-helper-not-flat', CONN, _SI_OLD, _SI_HELPER.replace("return np.atleast_1d(flat_idxs).ravel()", "return flat_idxs"), 'C04.src-index'),
    Mutant('srcidx-helper-node-shape', CONN, _SI_OLD, _SI_HELPER.replace("self.nodes[self.get_root(node)]['attrs']", "self.nodes[node]['attrs']"), 'C04.src-index'),
    Mutant('srcidx-helper-other-list', CONN, _SI_OLD, _SI_HELPER.replace("self._chain_to_flat_src_indices(node, src_inds_list)", "self._chain_to_flat_src_indices(node, src_inds_list[1:])"), 'C04.src-index'),
)
