"""C14 -- ExecComp evaluates its expressions and their exact complex-step partials.

Structural clauses of components/exec_comp.py that the numerical statement rests on: the
perturb / evaluate / extract / restore discipline of the three complex-step drivers
(compute_partials, _compute_colored_partials, _compute_coloring), the scale of the extraction
(imag(out) / h for a step h*1j), the (of, wrt) / column slots the results are written to, the partial
declaration loop and its agreement with the perturbation mode chosen at run time, the complex views
(_setup_vectors, compute, _exec) and the complex-safety of the function table.
"""
import ast

from .. import astx, cfg as cfgm
from ..core import AnalysisError
from ..engine import rule, describe, selftest, Mutant, Twin

EC = 'openmdao/components/exec_comp.py'
DRIVERS = ('ExecComp.compute_partials', 'ExecComp._compute_colored_partials', 'ExecComp._compute_coloring')

describe('C14',
         'Decides for ExecComp (components/exec_comp.py): (perturb) every complex-step perturbation `T += step` '
         'in compute_partials / _compute_colored_partials is followed in the same iteration by _exec() and by '
         'exactly one `T -= step` on the same, un-rebound target (in the sparsity pass of _compute_coloring only '
         'perturb -> evaluate is required: a left-over step merely enlarges the sparsity); (extract) every read of '
         'the complex outputs happens inside a perturbation, after _exec(), as imag(out * k) with step * k == 1j; '
         '(slot) results are stored under (of, wrt) = (output whose view was read, input whose view was perturbed), '
         'in the column of the perturbed element, colored columns are gathered by the rows of the same column, '
         'mapped through _col_idx2name/_in_slices/_out_slices built from the right vector, and the scratch column '
         'is cleared between columns; (declare) _setup_partials declares every (out, rhs-variable) pair of every '
         'expression exactly once before super()._setup_partials(); (diag) on an abstract domain '
         '{has_diag_partials} x {input: scalar, size 1, size n} x {output: scalar, size 1, size n, size m} the '
         'declared kind (diagonal / dense / raise) agrees with the perturbation under which compute_partials '
         'stores that pair (whole array / one element); (sync, views, exec) the complex work arrays are paired '
         'with the right vectors, taken in complex mode, refreshed in place from the inputs before use, copied back '
         'after compute, expressions run on the complex views with the function table as globals and store in '
         'place; (coloring) the sparsity pass visits every input element, records its own column, and leaves the '
         'input vector as found; (table) no non-analytic numpy function enters _expr_dict unwrapped and aliases name '
         'the same function.  Every mutant of the self-test was also confirmed to change run-time results and every '
         'twin to preserve them (/tmp/c14/mutant_runtime.py).  Does not decide the numerical value of any '
         'expression nor the complex-analyticity of numpy itself.',
         ['complex_stepsize is small enough for complex step to be exact to round-off',
          'numpy functions outside the frozen non-analytic table are complex-analytic',
          'exceptions raised by _exec abort the run (no restore needed on exceptional paths)',
          'a (out, inp) pair reaching a jacobian store is a declared pair (`key in partials` is true for it)'])


# =========================================================================== generic helpers
from ..core import Func


class _Rename(ast.NodeTransformer):
    def __init__(self, mapping):
        self.mapping = mapping

    def visit_Name(self, node):
        if node.id in self.mapping:
            return ast.copy_location(ast.Name(id=self.mapping[node.id], ctx=node.ctx), node)
        return node


def _set_parents(root, parent):
    root._parent = parent
    for node in ast.walk(root):
        for ch in ast.iter_child_nodes(node):
            ch._parent = node


def _inlinable(helper):
    a = helper.node.args
    if a.vararg or a.kwarg or a.kwonlyargs or a.posonlyargs or helper.node.decorator_list:
        return False
    for w in astx.walk(helper.node):
        if isinstance(w, (ast.Return, ast.Yield, ast.YieldFrom, ast.Global, ast.Nonlocal)):
            return False
    return True


# methods that rules analyse as anchors in their own right are never expanded into their callers
_ANCHOR_METHODS = {'_exec', 'compute', 'compute_partials', '_compute_colored_partials', '_compute_coloring',
                   '_setup_partials', '_setup_vectors', '_setup_expressions', '_linearize', '_get_coloring'}


def inlined(repo, fn, depth=2):
    """Func whose body has the private helper methods of the same module, called as statements
    `self._helper(args)`, expanded in place (parameters bound to the arguments, clashing helper locals renamed).

    A behaviour-preserving "extract method" therefore leaves the analysed shape unchanged.  Helpers that return a
    value, take *args or live in another module are left alone.
    """
    if fn.cls is None or depth <= 0:
        return fn
    cls_name = fn.qualname.rsplit('.', 1)[0]
    todo = []
    for st in astx.walk_stmts(fn.node.body):
        if isinstance(st, ast.Expr) and isinstance(st.value, ast.Call) and isinstance(st.value.func, ast.Attribute) \
                and astx.path(st.value.func.value) == 'self' and st.value.func.attr != fn.node.name:
            h = repo.module(fn.rel).funcs.get(f'{cls_name}.{st.value.func.attr}')
            if h is not None and st.value.func.attr.startswith('_') and not st.value.func.attr.startswith('__') \
                    and _inlinable(h) and st.value.func.attr not in _ANCHOR_METHODS:
                todo.append((st, h))
    if not todo:
        return fn
    new = astx._copy(fn.node)
    # map original statements to their copies by position in a parallel walk
    orig = list(astx.walk_stmts(fn.node.body))
    cop = list(astx.walk_stmts(new.body))
    pos = {id(o): c for o, c in zip(orig, cop)}
    caller_names = {n.id for n in ast.walk(fn.node) if isinstance(n, ast.Name)}
    k = 0
    for st, h in todo:
        k += 1
        call = pos[id(st)].value
        params = [a.arg for a in h.node.args.args][1:]
        defaults = h.node.args.defaults
        bound = {}
        for i, a in enumerate(call.args):
            if isinstance(a, ast.Starred) or i >= len(params):
                bound = None
                break
            bound[params[i]] = a
        if bound is None:
            continue
        for kw in call.keywords:
            if kw.arg is None or kw.arg not in params:
                bound = None
                break
            bound[kw.arg] = kw.value
        if bound is None:
            continue
        nd = len(defaults)
        for i, pn in enumerate(params):
            if pn not in bound and i >= len(params) - nd:
                bound[pn] = astx._copy(defaults[i - (len(params) - nd)])
        if set(bound) != set(params):
            continue
        body = [astx._copy(x) for x in astx.strip_doc(h.node.body)]
        assigned = set()
        for x in body:
            for w in ast.walk(x):
                if isinstance(w, ast.Name) and isinstance(w.ctx, (ast.Store, ast.Del)):
                    assigned.add(w.id)
        mapping, pre = {}, []
        for pn in params:
            arg = bound[pn]
            if isinstance(arg, ast.Name) and pn not in assigned:
                mapping[pn] = arg.id                 # plain alias: substitute
            else:
                tgt = pn if pn not in caller_names else f'{pn}__h{k}'
                mapping[pn] = tgt
                bind = ast.Assign(targets=[ast.Name(id=tgt, ctx=ast.Store())], value=arg)
                ast.copy_location(bind, pos[id(st)])
                ast.fix_missing_locations(bind)
                pre.append(bind)
        for nm in assigned - set(params):
            if nm in caller_names:
                mapping[nm] = f'{nm}__h{k}'
        ren = _Rename(mapping)
        body = [ren.visit(x) for x in body]
        # splice
        tgt_stmt = pos[id(st)]
        placed = False
        for holder in ast.walk(new):
            for fld in ('body', 'orelse', 'finalbody'):
                lst = getattr(holder, fld, None)
                if isinstance(lst, list) and any(x is tgt_stmt for x in lst):
                    i = [j for j, x in enumerate(lst) if x is tgt_stmt][0]
                    lst[i:i + 1] = pre + body
                    placed = True
                    break
            if placed:
                break
    _set_parents(new, getattr(fn.node, '_parent', None))
    res = Func(fn.module, fn.qualname, new, fn.cls)
    return inlined(repo, res, depth - 1) if depth > 1 else res


def F(repo, qn):
    """The function `qn` of exec_comp.py with its private statement-helpers expanded."""
    return inlined(repo, repo.func(EC, qn))

class Unknown(Exception):
    def __init__(self, node, why=''):
        self.node, self.why = node, why


def resolve(rd, at, e, depth=0):
    """Follow a local Name through unique plain-Assign definitions.  Returns (expr, node)."""
    while isinstance(e, ast.Name) and depth < 8:
        ds = rd.defs(at, e.id)
        if len(ds) != 1:
            return e, at
        d = next(iter(ds))
        if not (d.kind == 'stmt' and isinstance(d.ast, ast.Assign) and len(d.ast.targets) == 1
                and isinstance(d.ast.targets[0], ast.Name) and d.ast.targets[0].id == e.id):
            return e, at
        e, at = d.ast.value, d
        depth += 1
    return e, at


def rpath(rd, at, e):
    """Access path of e after resolving local aliases."""
    return astx.path(resolve(rd, at, e)[0])


def scale(e, rd, at, depth=0):
    """(degree in self.complex_stepsize, power of 1j, real coefficient) of a scalar factor, or None."""
    if depth > 10:
        return None
    if isinstance(e, ast.Constant):
        v = e.value
        if isinstance(v, bool):
            return None
        if isinstance(v, (int, float)):
            return (0, 0, float(v)) if v != 0 else None
        if isinstance(v, complex) and v.real == 0 and v.imag != 0:
            return (0, 1, float(v.imag))
        return None
    if astx.path(e) == 'self.complex_stepsize':
        return (1, 0, 1.0)
    if isinstance(e, ast.Name):
        v, at2 = resolve(rd, at, e)
        if v is e or isinstance(v, ast.Name):
            return None
        return scale(v, rd, at2, depth + 1)
    if isinstance(e, ast.UnaryOp) and isinstance(e.op, (ast.USub, ast.UAdd)):
        s = scale(e.operand, rd, at, depth + 1)
        if s is None:
            return None
        return (s[0], s[1], -s[2] if isinstance(e.op, ast.USub) else s[2])
    if isinstance(e, ast.BinOp) and isinstance(e.op, (ast.Mult, ast.Div)):
        a, b = scale(e.left, rd, at, depth + 1), scale(e.right, rd, at, depth + 1)
        if a is None or b is None:
            return None
        if isinstance(e.op, ast.Mult):
            return (a[0] + b[0], a[1] + b[1], a[2] * b[2])
        if b[1]:
            return None
        return (a[0] - b[0], a[1], a[2] / b[2])
    return None


def root_name(t):
    """Root Name node of a Name / Subscript / Attribute chain."""
    while isinstance(t, (ast.Subscript, ast.Attribute)):
        t = t.value
    return t if isinstance(t, ast.Name) else None


def loops_around(st):
    return [a for a in astx.ancestors(st) if isinstance(a, (ast.For, ast.While))]


IMAG_FUNCS = {'imag', 'np.imag', 'numpy.imag'}
NOTIMAG_FUNCS = {'real', 'np.real', 'numpy.real', 'abs', 'np.abs', 'numpy.abs', 'np.absolute', 'float',
                 'np.conj', 'np.conjugate', 'np.angle'}
SHAPE_METHODS = {'ravel', 'flatten', 'reshape', 'copy', 'squeeze'}
SHAPE_ATTRS = {'flat'}
META_ATTRS = {'size', 'shape', 'dtype', 'ndim'}


class Driver:
    """Perturbation structure of one complex-step driver function."""

    def __init__(self, fn):
        self.fn = fn
        self.g = cfgm.build(fn)
        self.rd = cfgm.ReachingDefs(self.g)
        g = self.g
        self.execs = g.calling('_exec', recv='self')
        self.adds, self.subs, self.odd = [], [], []
        for n in g.where(lambda n: n.kind == 'stmt' and isinstance(n.ast, ast.AugAssign)):
            kind = self.view_kind(n.ast.target, n)
            s = scale(n.ast.value, self.rd, n)
            is_step = s is not None and s[1] == 1
            if not is_step and kind is None:
                continue
            if kind is None:
                # a step applied to something that is not an input view
                self.odd.append((n, 'a complex step is applied to something that is not a view of the '
                                    'complex input array'))
                continue
            if not is_step:
                if s is not None:
                    self.odd.append((n, f'the input view is modified by `{astx.src(n.ast.value)}`, which is '
                                        'not the complex step'))
                else:
                    self.odd.append((n, None))
                continue
            if isinstance(n.ast.op, ast.Add):
                self.adds.append(n)
            elif isinstance(n.ast.op, ast.Sub):
                self.subs.append(n)
            else:
                self.odd.append((n, f'the complex step is applied with operator '
                                    f'`{type(n.ast.op).__name__}`'))

    # ---- what is an input view
    def view_kind(self, target, at, depth=0):
        """'inarr' if target is (an element of) self._inarray, 'view' for a view taken from
        self._indict, else None."""
        r = root_name(target)
        if r is None:
            p = astx.path(target)
            if p and (p == 'self._inarray' or p.startswith('self._inarray[')):
                return 'inarr'
            return None
        return self._name_kind(r.id, at, depth)

    def _name_kind(self, name, at, depth=0):
        if depth > 6:
            return None
        ds = self.rd.defs(at, name)
        kinds = set()
        for d in ds:
            if d.kind == 'stmt' and isinstance(d.ast, ast.AugAssign):
                kinds.add(self._name_kind(name, d, depth + 1))
            elif d.kind == 'stmt' and isinstance(d.ast, ast.Assign) and len(d.ast.targets) == 1 and \
                    isinstance(d.ast.targets[0], ast.Name):
                p = astx.path(d.ast.value)
                if p == 'self._inarray':
                    kinds.add('inarr')
                elif isinstance(d.ast.value, ast.Name):
                    kinds.add(self._name_kind(d.ast.value.id, d, depth + 1))
                else:
                    kinds.add(None)
            elif d.kind == 'iter' and isinstance(d.ast, ast.For):
                it = d.ast.iter
                if isinstance(it, ast.Call) and astx.callee_attr(it) in ('items', 'values') and \
                        rpath(self.rd, d, astx.receiver(it)) == 'self._indict':
                    # the view is the first element of the (view, is_scalar) value tuple
                    tgt = d.ast.target
                    val = tgt.elts[1] if astx.callee_attr(it) == 'items' and isinstance(tgt, ast.Tuple) \
                        and len(tgt.elts) == 2 else tgt
                    if isinstance(val, ast.Tuple) and val.elts and isinstance(val.elts[0], ast.Name) and \
                            val.elts[0].id == name:
                        kinds.add('view')
                    else:
                        kinds.add(None)
                else:
                    kinds.add(None)
            else:
                kinds.add(None)
        if len(kinds) == 1:
            return kinds.pop()
        return None

    # ---- regions
    def boundary(self, n):
        ls = loops_around(n.ast)
        b = [self.g.exit]
        if ls:
            b += self.g.nodes_of(ls[0])
        return b

    def mates(self, a):
        """`-= step` statements on the same target that can follow `a` within the same iteration."""
        near = self.g.reach(self.g.normal_succ(a), avoid=self.boundary(a), labels=cfgm.noexc)
        return [s for s in self.subs if astx.same(s.ast.target, a.ast.target) and s in near]

    def origin_iters(self, name, at, depth=0):
        """For-loop statements that bind `name` as seen from `at`, looking through `name += ...` updates."""
        res = []
        if depth > 6:
            return [None]
        for dn in self.rd.defs(at, name):
            if dn.kind == 'iter' and isinstance(dn.ast, ast.For):
                res.append(dn.ast)
            elif dn.kind == 'stmt' and isinstance(dn.ast, ast.AugAssign):
                res.extend(self.origin_iters(name, dn, depth + 1))
            else:
                res.append(None)
        uniq = []
        for x in res:
            if not any(x is y for y in uniq):
                uniq.append(x)
        return uniq

    def region(self, a):
        """Nodes executed while the perturbation applied at `a` is in place."""
        g = self.g
        return g.reach(g.normal_succ(a), avoid=set(self.mates(a)) | set(self.boundary(a)),
                       labels=cfgm.noexc)

    # ---- complex outputs
    def out_defs(self):
        """CFG nodes defining a name that holds complex output values -> name."""
        res = {}
        for n in self.g.where(lambda n: n.kind == 'stmt' and isinstance(n.ast, ast.Assign)
                              and len(n.ast.targets) == 1):
            t, v = n.ast.targets[0], n.ast.value
            if isinstance(t, ast.Name) and astx.path(v) == 'self._outarray':
                res[n] = t.id
            elif isinstance(t, ast.Tuple) and len(t.elts) == 2 and isinstance(t.elts[0], ast.Name) and \
                    isinstance(v, ast.Subscript) and \
                    rpath(self.rd, n, v.value) in ('self._viewdict.dct',):
                res[n] = t.elts[0].id
        return res

    def out_reads(self):
        """Name loads (ast.Name, cfg node) that read complex output values."""
        odefs = self.out_defs()
        names = set(odefs.values())
        reads = []
        for n in self.g.nodes:
            if n.kind not in ('stmt', 'test', 'iter', 'with'):
                continue
            for e in n.exprs():
                for w in astx.walk(e):
                    if isinstance(w, ast.Name) and isinstance(w.ctx, ast.Load) and w.id in names:
                        ds = self.rd.defs(n, w.id)
                        if ds and ds <= set(odefs):
                            reads.append((w, n, True))
                        elif ds & set(odefs):
                            reads.append((w, n, False))
                    elif isinstance(w, ast.Attribute) and astx.path(w) == 'self._outarray' and \
                            isinstance(w.ctx, ast.Load) and n not in odefs:
                        reads.append((w, n, True))
        return reads


def climb(node, drv, at, acc=None, depth=0):
    """Follow the value read at `node` upward through scalings / imag / reshapes.

    Yields (wrappers, top_expr, consumer, cfg_node) for every final consumer; wrappers is a list of
    ('mul'|'div', factor_expr, at) / ('imag', n) / ('notimag', n) / ('shape', n) / ('index', n) /
    ('unknown', n) / ('meta', n).
    """
    wr = list(acc or [])
    cur = node
    while True:
        par = getattr(cur, '_parent', None)
        if isinstance(par, ast.BinOp):
            if isinstance(par.op, ast.Mult):
                wr.append(('mul', par.right if par.left is cur else par.left, at))
            elif isinstance(par.op, ast.Div) and par.left is cur:
                wr.append(('div', par.right, at))
            else:
                wr.append(('unknown', par, at))
            cur = par
        elif isinstance(par, ast.Call) and any(a is cur for a in par.args):
            nm = astx.call_name(par)
            if nm in IMAG_FUNCS:
                wr.append(('imag', par, at))
                cur = par
            elif nm in NOTIMAG_FUNCS:
                wr.append(('notimag', par, at))
                cur = par
            else:
                break
        elif isinstance(par, ast.Attribute) and par.value is cur:
            gp = getattr(par, '_parent', None)
            if isinstance(gp, ast.Call) and gp.func is par:
                if par.attr in SHAPE_METHODS:
                    wr.append(('shape', gp, at))
                elif par.attr in ('conj', 'conjugate'):
                    wr.append(('notimag', gp, at))
                else:
                    wr.append(('unknown', gp, at))
                cur = gp
            elif par.attr == 'imag':
                wr.append(('imag', par, at))
                cur = par
            elif par.attr == 'real':
                wr.append(('notimag', par, at))
                cur = par
            elif par.attr in SHAPE_ATTRS:
                wr.append(('shape', par, at))
                cur = par
            elif par.attr in META_ATTRS:
                wr.append(('meta', par, at))
                cur = par
                break
            else:
                wr.append(('unknown', par, at))
                cur = par
        elif isinstance(par, ast.Subscript) and par.value is cur and isinstance(par.ctx, ast.Load):
            wr.append(('index', par, at))
            cur = par
        else:
            break
    par = getattr(cur, '_parent', None)
    # extracted temporary: `tmp = <chain>` -> continue at the loads of tmp
    if isinstance(par, ast.Assign) and par.value is cur and len(par.targets) == 1 and \
            isinstance(par.targets[0], ast.Name) and depth < 4 and not any(k == 'meta' for k, _, _ in wr):
        nm = par.targets[0].id
        defnodes = set(drv.g.nodes_of(par))
        uses = []
        for n in drv.g.nodes:
            if n.kind not in ('stmt', 'test', 'iter', 'with'):
                continue
            for e in n.exprs():
                for w in astx.walk(e):
                    if isinstance(w, ast.Name) and w.id == nm and isinstance(w.ctx, ast.Load) and \
                            drv.rd.defs(n, nm) & defnodes:
                        uses.append((w, n))
        if uses:
            for w, n in uses:
                yield from climb(w, drv, n, wr, depth + 1)
            return
    yield wr, cur, par, at


# =========================================================================== C14.perturb
@rule('C14.perturb', floor=4)
def perturb(repo, out):
    """Each `T += step` is followed, in the same iteration, by self._exec() and exactly one `T -= step` on the same target."""
    for qn in DRIVERS:
        fn = F(repo, qn)
        d = Driver(fn)
        g, rd = d.g, d.rd
        for n, why in d.odd:
            if why is None:
                out.unsure(fn, n.ast, 'modification of an input view that is not recognised as a complex step')
            else:
                out.bad(fn, n.ast, why, key='perturb-step')
        if not d.execs and not d.adds:
            raise AnalysisError(f'{fn.ident}: neither a perturbation nor a self._exec() call found')
        for a in d.adds:
            s = scale(a.ast.value, rd, a)
            if s[0] != 1:
                out.unsure(fn, a.ast, 'step is not proportional to self.complex_stepsize')
                continue
            mates = d.mates(a)
            bnd = d.boundary(a)
            if qn.endswith('_compute_coloring'):
                # sparsity pass: a left-over step only makes later columns a superset of the true pattern
                # (still a valid coloring), so only perturb -> evaluate is required here
                w = g.path(g.normal_succ(a), bnd + mates, avoid=d.execs, labels=cfgm.noexc)
                if w is not None:
                    # an empty sparsity deactivates the coloring and the uncolored path is used: not a
                    # violation of the property, but not a shape this rule can vouch for either
                    out.unsure(fn, a.ast, 'the sparsity perturbation is not followed by self._exec(): ' + g.fmt_path(w))
                else:
                    out.ok(fn, a.ast, 'sparsity pass: += step -> _exec() in every iteration')
                continue
            if not mates:
                cand = [x for x in d.subs if root_name(x.ast.target) is not None and
                        root_name(a.ast.target) is not None and
                        root_name(x.ast.target).id == root_name(a.ast.target).id]
                extra = f' (the restore `{astx.src(cand[0].ast)}` addresses a different element)' if cand else ''
                out.bad(fn, a.ast, 'perturbation is never removed: no `-= step` on the same target' + extra,
                        key='perturb-unrestored')
                continue
            w = g.path(g.normal_succ(a), bnd, avoid=mates, labels=cfgm.noexc)
            if w is not None:
                out.bad(fn, a.ast, 'the input can stay perturbed when the iteration ends: ' + g.fmt_path(w),
                        key='perturb-unrestored')
                continue
            w = g.path(g.normal_succ(a), mates, avoid=d.execs, labels=cfgm.noexc)
            if w is not None:
                out.bad(fn, a.ast, 'the perturbation is removed without evaluating the expressions '
                        '(no self._exec() between `+= step` and `-= step`): ' + g.fmt_path(w),
                        key='perturb-no-exec')
                continue
            # same step value, target not rebound in between
            problem = None
            own = a.ast.target.id if isinstance(a.ast.target, ast.Name) else None
            for m in mates:
                if not astx.same(m.ast.value, a.ast.value):
                    sm = scale(m.ast.value, rd, m)
                    if sm != s:
                        problem = (m, 'the step removed differs from the step applied')
                        break
                for nm in astx.names(a.ast.target) | astx.names(a.ast.value):
                    da, dm = rd.defs(a, nm), rd.defs(m, nm)
                    if nm == own:
                        if dm != {a}:
                            problem = (m, f'`{nm}` is rebound between perturbation and restore')
                    elif da != dm:
                        problem = (m, f'`{nm}` is rebound between perturbation and restore: a different '
                                      'element is restored')
                if problem:
                    break
            if problem:
                out.bad(fn, problem[0].ast, problem[1], key='perturb-target-rebound')
                continue
            # at most once
            reg = d.region(a)
            again = [x for x in d.adds if x in reg and astx.same(x.ast.target, a.ast.target)]
            after = set()
            for m in mates:
                after |= g.reach(g.normal_succ(m), avoid=bnd + [a], labels=cfgm.noexc)
            twice = [m for m in mates if m in after]
            if again or twice:
                out.bad(fn, (again or twice)[0].ast, 'the step is applied or removed twice in one iteration',
                        key='perturb-twice')
                continue
            out.ok(fn, a.ast, f'+= step -> _exec() -> -= step on `{astx.src(a.ast.target)}` on every path')
        for sb in d.subs:
            if qn.endswith('_compute_coloring'):
                break
            same_t = [a for a in d.adds if astx.same(a.ast.target, sb.ast.target)]
            if not same_t or g.dominated_by(sb, same_t, labels=cfgm.noexc) is not None:
                out.bad(fn, sb.ast, '`-= step` without a preceding `+= step` on the same target: the input '
                        'is left shifted by -step', key='perturb-orphan-restore')
        # evaluations used for derivatives must run under a perturbation
        for x in d.execs:
            starts = [g.entry] + [m for sb in d.subs for m in g.normal_succ(sb)]
            w = g.path(starts, [x], avoid=d.adds, labels=cfgm.noexc)
            if w is not None and d.adds:
                out.bad(fn, x.ast, 'self._exec() can run with no perturbation in place: ' + g.fmt_path(w),
                        key='exec-unperturbed')


# =========================================================================== C14.extract
@rule('C14.extract', floor=6)
def extract(repo, out):
    """Inside a perturbation every read of the complex outputs is imag(out * k) with step * k == 1j, taken after _exec()."""
    for qn in DRIVERS:
        fn = F(repo, qn)
        d = Driver(fn)
        g, rd = d.g, d.rd
        steps = {scale(a.ast.value, rd, a) for a in d.adds}
        if len(steps) != 1:
            out.unsure(fn, fn.node, f'{len(steps)} different step values in one function')
            continue
        st = steps.pop()
        regions = {a: d.region(a) for a in d.adds}
        if qn.endswith('_compute_coloring'):
            # no restore required there (see C14.perturb): the perturbation lasts until the loop header
            regions = {a: g.reach(g.normal_succ(a), avoid=d.boundary(a), labels=cfgm.noexc) for a in d.adds}
        for n in g.where(lambda n: n.kind in ('stmt', 'test')):
            for c in n.calls():
                if astx.call_name(c) in IMAG_FUNCS and c.args:
                    for w in astx.walk(c.args[0]):
                        if isinstance(w, ast.Name) and d.view_kind(w, n) in ('inarr', 'view'):
                            out.bad(fn, n.ast, f'imag() is taken of the perturbed INPUT array `{w.id}`, not of the '
                                    'outputs: the "derivative" is the identity', key='extract-source')
        for nm_node, at, sure in d.out_reads():
            for wr, top, consumer, at2 in climb(nm_node, d, at):
                kinds = [k for k, _, _ in wr]
                if 'meta' in kinds:
                    continue
                if not sure:
                    out.unsure(fn, astx.stmt_of(top), f'`{astx.src(nm_node)}` may or may not hold the outputs')
                    continue
                stmt = astx.stmt_of(top)
                # placement: inside a perturbation, after the evaluation
                home = [a for a, reg in regions.items() if at in reg]
                if not home:
                    out.bad(fn, stmt, 'complex outputs are read outside any perturbation (stale or '
                            'unperturbed values enter the jacobian)', key='extract-placement')
                    continue
                w = None
                for a in home:
                    w = w or g.path(g.normal_succ(a), [at], avoid=d.execs, labels=cfgm.noexc)
                if w is not None:
                    out.bad(fn, stmt, 'complex outputs are read before self._exec() has evaluated the '
                            'perturbed point: ' + g.fmt_path(w), key='extract-placement')
                    continue
                if 'unknown' in kinds:
                    out.unsure(fn, stmt, 'output value flows through an unrecognised operation')
                    continue
                if 'notimag' in kinds:
                    out.bad(fn, stmt, 'the derivative is taken from the real part / modulus of the '
                            'perturbed output instead of its imaginary part', key='extract-imag')
                    continue
                ni = kinds.count('imag')
                if ni == 0:
                    out.bad(fn, stmt, 'the perturbed complex output is used without taking its imaginary '
                            'part', key='extract-imag')
                    continue
                if ni > 1:
                    out.bad(fn, stmt, 'imag() applied twice: the result is identically zero', key='extract-imag')
                    continue
                tot = (0, 0, 1.0)
                okk = True
                for k, e, at_k in wr:
                    if k in ('mul', 'div'):
                        s = scale(e, rd, at_k)
                        if s is None:
                            okk = False
                            break
                        if k == 'mul':
                            tot = (tot[0] + s[0], tot[1] + s[1], tot[2] * s[2])
                        else:
                            tot = (tot[0] - s[0], tot[1] - s[1], tot[2] / s[2])
                if not okk:
                    out.unsure(fn, stmt, 'scaling factor of the extraction not recognised')
                    continue
                if tot[1] != 0:
                    out.bad(fn, stmt, 'the output is multiplied by an imaginary factor before imag(): the '
                            'real part is extracted', key='extract-scale')
                    continue
                if tot[0] + st[0] != 0 or abs(tot[2] * st[2] - 1.0) > 1e-12:
                    out.bad(fn, stmt, f'extraction scale does not invert the step: step ~ h^{st[0]}*{st[2]:g}, '
                            f'extraction ~ h^{tot[0]}*{tot[2]:g} (h = self.complex_stepsize); d out/d in = '
                            'imag(out)/h', key='extract-scale')
                    continue
                out.ok(fn, stmt, 'imag(out * k), k * step == 1j, read after _exec() inside the perturbation')


# =========================================================================== C14.slot
def _loop_of_target(name, at, rd):
    """The For statement whose target binds `name` as seen from cfg node `at` (unique), else None."""
    ds = rd.defs(at, name)
    if len(ds) != 1:
        return None
    d = next(iter(ds))
    if d.kind == 'iter' and isinstance(d.ast, ast.For):
        return d.ast
    return None


def _jac_store(st):
    """For `partials[K] = E` / `partials[K][I] = E` return (K, I or None, E); else None."""
    if not (isinstance(st, ast.Assign) and len(st.targets) == 1):
        return None
    t = st.targets[0]
    idx = None
    if isinstance(t, ast.Subscript) and isinstance(t.value, ast.Subscript):
        idx, t = t.slice, t.value
    if isinstance(t, ast.Subscript) and isinstance(t.value, ast.Name) and t.value.id == 'partials':
        return t.slice, idx, st.value
    return None


def _full_slice(e):
    return isinstance(e, ast.Slice) and e.lower is None and e.upper is None and e.step is None


def _check_column_index(idx):
    """('ok', name) for `[:, name]`; ('row', name) for `[name, :]`; else ('?', None)."""
    if isinstance(idx, ast.Tuple) and len(idx.elts) == 2:
        a, b = idx.elts
        if _full_slice(a) and isinstance(b, ast.Name):
            return 'ok', b
        if _full_slice(b) and isinstance(a, ast.Name):
            return 'row', a
    return '?', None


@rule('C14.slot', floor=14)
def slot(repo, out):
    """Results are stored under (of, wrt) = (output read, input perturbed) and in the column of the perturbed element."""
    # ---------------------------------------------------------------- compute_partials
    fn = F(repo, 'ExecComp.compute_partials')
    d = Driver(fn)
    g, rd = d.g, d.rd
    for a in d.adds:
        reg = d.region(a)
        r = root_name(a.ast.target)
        inloop = None
        if r is not None and d.view_kind(a.ast.target, a) == 'view':
            origins = d.origin_iters(r.id, a)
            if len(origins) == 1 and origins[0] is not None:
                inloop = origins[0]
        if inloop is None or not (isinstance(inloop.target, ast.Tuple) and len(inloop.target.elts) == 2
                                  and isinstance(inloop.target.elts[0], ast.Name)):
            out.unsure(fn, a.ast, 'loop binding the perturbed view and its input name not recognised')
            continue
        wname = inloop.target.elts[0].id
        # element perturbation: counter of the enumerate loop
        counter = None
        elem = isinstance(a.ast.target, ast.Subscript)
        if elem:
            ix = a.ast.target.slice
            eloop = _loop_of_target(ix.id, a, rd) if isinstance(ix, ast.Name) else None
            if eloop is None or not (isinstance(eloop.iter, ast.Call) and astx.call_name(eloop.iter) == 'enumerate'
                                     and isinstance(eloop.target, ast.Tuple) and len(eloop.target.elts) == 2
                                     and all(isinstance(e, ast.Name) for e in eloop.target.elts)):
                out.unsure(fn, a.ast, 'element loop is not `for i, idx in enumerate(...)`')
                continue
            if eloop.target.elts[1].id != ix.id:
                out.bad(fn, a.ast, f'the perturbed element is indexed by the loop counter `{ix.id}` instead of '
                        'the multi-index', key='element-index')
                continue
            if len(eloop.iter.args) != 1 or eloop.iter.keywords:
                out.bad(fn, eloop, 'enumerate() does not start at 0: column index is shifted', key='column-index')
                continue
            src = eloop.iter.args[0]
            if not (isinstance(src, ast.Call) and astx.call_name(src) == 'array_idx_iter' and len(src.args) == 1
                    and isinstance(src.args[0], ast.Attribute) and src.args[0].attr == 'shape'
                    and isinstance(src.args[0].value, ast.Name) and src.args[0].value.id == r.id):
                out.unsure(fn, eloop, 'element loop does not iterate array_idx_iter(<perturbed view>.shape)')
                continue
            counter = eloop.target.elts[0].id
        stores = good = 0
        for n in sorted(reg, key=lambda n: n.id):
            if n.kind != 'stmt':
                continue
            js = _jac_store(n.ast)
            if js is None:
                continue
            stores += 1
            K, I, E = js
            # key (possibly hoisted into a local: `key = (u, inp)`)
            K, _kat = resolve(rd, n, K)
            verdict = _check_key(K, n, rd, wname, fn, out)
            if verdict is not True:
                continue
            # value comes from the view of the same output
            of = K.elts[0].id
            outnames = set(d.out_defs().values())
            onames = []          # (name node, cfg node at which it is read), looking through temporaries
            todo = [(w, n, 0) for w in astx.walk(E) if isinstance(w, ast.Name)]
            while todo:
                w, at_w, dep = todo.pop()
                if w.id in outnames:
                    onames.append((w, at_w))
                elif dep < 3:
                    ds_ = rd.defs(at_w, w.id)
                    if len(ds_) == 1:
                        dn_ = next(iter(ds_))
                        if dn_.kind == 'stmt' and isinstance(dn_.ast, ast.Assign) and len(dn_.ast.targets) == 1 and \
                                isinstance(dn_.ast.targets[0], ast.Name):
                            todo.extend((x, dn_, dep + 1) for x in astx.walk(dn_.ast.value) if isinstance(x, ast.Name))
            bad = False
            for w, at_w in onames:
                for dn in rd.defs(at_w, w.id):
                    v = dn.ast.value if isinstance(dn.ast, ast.Assign) else None
                    if isinstance(v, ast.Subscript) and not (isinstance(v.slice, ast.Name) and v.slice.id == of):
                        out.bad(fn, n.ast, f'the value stored under of=`{of}` is read from the view of '
                                f'`{astx.src(v.slice)}`', key='key-value-mismatch')
                        bad = True
            if bad:
                continue
            # membership guard (enclosing `if K in partials:` or preceding `if K not in partials: continue`
            # in the same loop body) uses the same key
            myloop = loops_around(n.ast)[0] if loops_around(n.ast) else None
            gbad = False
            for tn in reg:
                if tn.kind != 'test' or not isinstance(tn.ast, ast.If):
                    continue
                t = tn.ast.test
                if isinstance(t, ast.UnaryOp) and isinstance(t.op, ast.Not):
                    t = t.operand
                if not (isinstance(t, ast.Compare) and len(t.ops) == 1 and isinstance(t.ops[0], (ast.In, ast.NotIn))
                        and astx.path(t.comparators[0]) == 'partials'):
                    continue
                tl = loops_around(tn.ast)
                if (tl[0] if tl else None) is not myloop:
                    continue
                left, _ = resolve(rd, tn, t.left)
                if not astx.same(left, K):
                    out.bad(fn, tn.ast, f'membership test `{astx.src(t)}` guards a store under a different key '
                            f'`{astx.src(K)}`', key='key-guard-mismatch')
                    gbad = True
            if gbad:
                continue
            # column
            if elem:
                if I is None:
                    out.bad(fn, n.ast, 'a single-element perturbation overwrites the whole sub-jacobian '
                            'instead of one column', key='column-index')
                    continue
                kind, nm = _check_column_index(I)
                if kind == '?':
                    out.unsure(fn, n.ast, 'column index shape not recognised')
                    continue
                if kind == 'row':
                    out.bad(fn, n.ast, 'the result of perturbing input element i is written to ROW i: the '
                            'sub-jacobian is transposed', key='column-index')
                    continue
                if nm.id != counter:
                    out.bad(fn, n.ast, f'column index `{nm.id}` is not the flat counter `{counter}` of the '
                            'perturbed element', key='column-index')
                    continue
            else:
                if I is not None:
                    out.unsure(fn, n.ast, 'indexed store under a whole-array perturbation')
                    continue
            good += 1
        if not stores:
            out.bad(fn, a.ast, 'no sub-jacobian is written while this perturbation is in place', key='no-store')
        elif good == stores:
            # one instance per perturbation (not per store statement: merging the scalar / array stores into one
            # conditional expression must not change the instance count)
            out.ok(fn, a.ast, f'{stores} store(s) under (output read, input perturbed)' +
                   (f', column {counter}' if elem else ''))
    # the names the `of` loop iterates
    _check_out_names(fn, d, out)

    # ---------------------------------------------------------------- _compute_colored_partials
    fn = F(repo, 'ExecComp._compute_colored_partials')
    d = Driver(fn)
    g, rd = d.g, d.rd
    _check_out_names(fn, d, out)
    for a in d.adds:
        _colored(fn, d, a, out)

    # ---------------------------------------------------------------- maps built by _compute_coloring
    fn = F(repo, 'ExecComp._compute_coloring')
    want = {'self._col_idx2name': 'self._inputs', 'self._in_slices': 'self._inputs',
            'self._out_slices': 'self._outputs'}
    g = cfgm.build(fn)
    rd = cfgm.ReachingDefs(g)
    seen = set()
    for n in g.where(lambda n: n.kind == 'stmt' and isinstance(n.ast, ast.Assign)):
        for t in n.ast.targets:
            p = astx.path(t)
            if p not in want:
                continue
            seen.add(p)
            v = n.ast.targets[-1] is t and n.ast.value
            if isinstance(n.ast.value, ast.DictComp):
                gens = n.ast.value.generators
                src = astx.receiver(gens[0].iter) if isinstance(gens[0].iter, ast.Call) and \
                    astx.callee_attr(gens[0].iter) == 'ranges' else None
                sp = astx.path(src) if src is not None else None
                if sp is None:
                    out.unsure(fn, n.ast, 'slice map is not built from <vector>.ranges()')
                elif sp != want[p]:
                    out.bad(fn, n.ast, f'{p} is built from {sp}.ranges() instead of {want[p]}.ranges()',
                            key='slice-map-source')
                else:
                    val = n.ast.value.value
                    tg = gens[0].target
                    if isinstance(val, ast.Call) and astx.call_name(val) == 'slice' and len(val.args) == 2 and \
                            isinstance(tg, ast.Tuple) and len(tg.elts) == 3 and \
                            [astx.dump(x) for x in val.args] != [astx.dump(x) for x in tg.elts[1:]]:
                        out.bad(fn, n.ast, f'{p}: slice bounds are not (start, stop) of the range',
                                key='slice-map-source')
                    else:
                        out.ok(fn, n.ast, f'{p} built from {sp}.ranges()')
            else:
                # list filled by a loop over ranges(): find the filling loop
                alias = [x.id for x in n.ast.targets if isinstance(x, ast.Name)]
                fills = [m for m in g.where(lambda m: m.kind == 'stmt' and isinstance(m.ast, ast.Assign)
                                            and isinstance(m.ast.targets[0], ast.Subscript)
                                            and isinstance(m.ast.targets[0].value, ast.Name)
                                            and m.ast.targets[0].value.id in alias)]
                if len(fills) != 1:
                    out.unsure(fn, n.ast, 'filling loop of the column -> name map not recognised')
                    continue
                f = fills[0]
                ls = loops_around(f.ast)
                rng = [l for l in ls if isinstance(l, ast.For) and isinstance(l.iter, ast.Call)
                       and astx.callee_attr(l.iter) == 'ranges']
                if not rng:
                    out.unsure(fn, f.ast, 'column -> name map is not filled from <vector>.ranges()')
                    continue
                sp = astx.path(astx.receiver(rng[0].iter))
                if sp != want[p]:
                    out.bad(fn, f.ast, f'{p} is filled from {sp}.ranges() instead of {want[p]}.ranges(): '
                            'columns are attributed to the wrong variables', key='slice-map-source')
                    continue
                inner = ls[0]
                tg = rng[0].target
                okr = isinstance(inner, ast.For) and inner is not rng[0] and isinstance(inner.iter, ast.Call) and \
                    astx.call_name(inner.iter) == 'range' and isinstance(tg, ast.Tuple) and len(tg.elts) == 3 and \
                    [astx.dump(x) for x in inner.iter.args] == [astx.dump(x) for x in tg.elts[1:]] and \
                    astx.same(f.ast.targets[0].slice, inner.target)
                if not okr:
                    out.bad(fn, f.ast, f'{p}: entries start..stop of each input are not all assigned its name',
                            key='slice-map-source')
                else:
                    out.ok(fn, f.ast, f'{p}[start:stop] = name for each range of {sp}')
    for p in want:
        if p not in seen:
            out.bad(fn, fn.node, f'{p} is never built although _compute_colored_partials reads it',
                    key='slice-map-source')
    cc = [c for c in astx.calls(fn.node) if astx.call_name(c) == '_compute_coloring' and len(c.args) >= 1]
    if len(cc) != 1:
        out.unsure(fn, fn.node, 'call of coloring._compute_coloring(sparsity, mode) not found')
    else:
        md = astx.arg(cc[0], 1, 'mode')
        if astx.const_str(md) == 'fwd':
            out.ok(fn, astx.stmt_of(cc[0]), "the coloring is computed for mode 'fwd' (columns = inputs)")
        elif astx.const_str(md) is not None:
            out.bad(fn, astx.stmt_of(cc[0]), f"the coloring is computed for mode {astx.const_str(md)!r} but "
                    "_compute_colored_partials perturbs inputs, i.e. needs the 'fwd' colors", key='color-direction')
        else:
            out.unsure(fn, astx.stmt_of(cc[0]), 'coloring mode is not a literal')


def _check_key(K, n, rd, wname, fn, out):
    if not (isinstance(K, ast.Tuple) and len(K.elts) == 2 and all(isinstance(e, ast.Name) for e in K.elts)):
        out.unsure(fn, n.ast, 'sub-jacobian key is not a literal (of, wrt) pair of names')
        return None
    of, wrt = K.elts[0].id, K.elts[1].id
    if of == wname:
        out.bad(fn, n.ast, f'key `{astx.src(K)}` has the perturbed input `{wname}` in the `of` position: '
                '(wrt, of) is never a declared partial, the derivative stays zero', key='key-order')
        return False
    if wrt != wname:
        out.bad(fn, n.ast, f'key `{astx.src(K)}`: wrt is `{wrt}` but the perturbed input is `{wname}`',
                key='key-order')
        return False
    return True


def _check_out_names(fn, d, out):
    """Loops `for u in out_names` must iterate self._var_rel_names['output']."""
    for n in d.g.where(lambda n: n.kind == 'iter' and isinstance(n.ast, ast.For)):
        it = n.ast.iter
        p = rpath(d.rd, n, it)
        if p and p.startswith('self._var_rel_names['):
            if p == "self._var_rel_names['output']":
                out.ok(fn, n.ast, 'of-names iterate the outputs')
            else:
                out.bad(fn, n.ast, f'the `of` loop iterates {p}: no (of, wrt) key matches, all partials stay '
                        'zero', key='of-names')


def _colored(fn, d, a, out):
    g, rd = d.g, d.rd
    tgt = a.ast.target
    if not (isinstance(tgt, ast.Subscript) and isinstance(tgt.slice, ast.Name) and d.view_kind(tgt, a) == 'inarr'):
        out.unsure(fn, a.ast, 'colored perturbation is not `inarr[icols] += step`')
        return
    cols = tgt.slice.id
    cloop = _loop_of_target(cols, a, rd)
    if cloop is None or not (isinstance(cloop.iter, ast.Call) and astx.callee_attr(cloop.iter) == 'color_nonzero_iter'
                             and isinstance(cloop.target, ast.Tuple) and len(cloop.target.elts) == 2
                             and all(isinstance(e, ast.Name) for e in cloop.target.elts)):
        out.unsure(fn, a.ast, 'color loop `for icols, nzrowlists in ...color_nonzero_iter(dir)` not recognised')
        return
    if cloop.target.elts[0].id != cols:
        out.bad(fn, a.ast, f'`{cols}` holds the nonzero-row lists of the color, not its columns: rows of the '
                'input array are perturbed', key='color-columns')
        return
    rowlists = cloop.target.elts[1].id
    dirn = astx.arg(cloop.iter, 0, 'direction')
    if astx.const_str(dirn) is None:
        out.unsure(fn, cloop, 'coloring direction is not a literal')
        return
    if astx.const_str(dirn) != 'fwd':
        out.bad(fn, cloop, f"inputs (columns) are perturbed but the {astx.const_str(dirn)!r} colors group rows",
                key='color-direction')
        return
    if rpath(rd, g.nodes_of(cloop)[0], astx.receiver(cloop.iter)) != 'self._coloring_info.coloring':
        out.unsure(fn, cloop, 'coloring object is not self._coloring_info.coloring')
        return
    out.ok(fn, cloop, "perturbs the columns of each 'fwd' color of self._coloring_info.coloring")
    # inner zip loop
    zl = [l for l in astx.walk_stmts(cloop.body) if isinstance(l, ast.For) and isinstance(l.iter, ast.Call)
          and astx.call_name(l.iter) == 'zip']
    if len(zl) != 1 or not (isinstance(zl[0].target, ast.Tuple) and len(zl[0].target.elts) == 2 and
                            len(zl[0].iter.args) == 2 and
                            all(isinstance(e, ast.Name) for e in list(zl[0].target.elts) + list(zl[0].iter.args))):
        out.unsure(fn, cloop, 'inner `for icol, rows in zip(icols, nzrowlists)` not recognised')
        return
    z = zl[0]
    pairs = dict(zip([x.id for x in z.iter.args], [x.id for x in z.target.elts]))
    if set(pairs) != {cols, rowlists}:
        out.bad(fn, z, f'zip iterates {sorted(pairs)} instead of the color\'s columns and row lists',
                key='zip-order')
        return
    icol, rows = pairs[cols], pairs[rowlists]
    zbody = list(astx.walk_stmts(z.body))
    # gather: scratch[rows] = X[rows], X = extraction
    gath = [s for s in zbody if isinstance(s, ast.Assign) and isinstance(s.targets[0], ast.Subscript)
            and isinstance(s.value, ast.Subscript) and isinstance(s.targets[0].value, ast.Name)
            and isinstance(s.value.value, ast.Name)]
    stores = [s for s in zbody if _jac_store(s) is not None]
    if len(gath) != 1 or len(stores) != 1:
        out.unsure(fn, z, 'gather `scratch[rows] = imag_oar[rows]` / single store not recognised')
        return
    gs = gath[0]
    scratch = gs.targets[0].value.id
    i1, i2 = gs.targets[0].slice, gs.value.slice
    if not (isinstance(i1, ast.Name) and isinstance(i2, ast.Name)):
        out.unsure(fn, gs, 'gather indices are not plain names')
        return
    if i1.id != rows or i2.id != rows:
        which = i1.id if i1.id != rows else i2.id
        why = 'the column indices' if which in (icol, cols) else f'`{which}`'
        out.bad(fn, gs, f'nonzero rows of column `{icol}` are `{rows}` but the gather uses {why}',
                key='zip-order' if which in (icol, cols, rowlists) else 'gather-rows')
        return
    gn = g.nodes_of(gs)[0]
    srcdefs = rd.defs(gn, gs.value.value.id)
    okd = False
    for sd in srcdefs:
        if sd.kind == 'stmt' and isinstance(sd.ast, ast.Assign):
            if any(isinstance(w, (ast.Call, ast.Attribute)) and
                   (astx.call_name(w) in IMAG_FUNCS if isinstance(w, ast.Call) else w.attr == 'imag')
                   for w in astx.walk(sd.ast.value)) and sd in d.region(a):
                okd = True
    if not okd or len(srcdefs) != 1:
        out.bad(fn, gs, f'`{gs.value.value.id}` gathered into the scratch column is not the imag() extraction '
                'of this color\'s evaluation', key='gather-source')
        return
    out.ok(fn, gs, f'rows of column {icol} gathered from the extraction of this color')
    # store
    st = stores[0]
    K, I, E = _jac_store(st)
    sn = g.nodes_of(st)[0]
    Kv, Kat = resolve(rd, sn, K)
    if not (isinstance(Kv, ast.Tuple) and len(Kv.elts) == 2 and all(isinstance(e, ast.Name) for e in Kv.elts)):
        out.unsure(fn, st, 'key of the colored store not recognised')
        return
    of, wrt = Kv.elts[0].id, Kv.elts[1].id
    # wrt resolves to idx2name[icol]
    def is_name_of_col(nm, at):
        v, at2 = resolve(rd, at, ast.Name(id=nm, ctx=ast.Load()))
        return isinstance(v, ast.Subscript) and rpath(rd, at2, v.value) == 'self._col_idx2name' and \
            isinstance(v.slice, ast.Name) and v.slice.id == icol
    ofl = _loop_of_target(of, Kat, rd)
    wrl = _loop_of_target(wrt, Kat, rd)
    if is_name_of_col(of, Kat) and wrl is not None:
        out.bad(fn, st, f'key `{astx.src(Kv)}` is (wrt, of): never a declared partial, the colored jacobian '
                'stays zero', key='key-order')
        return
    if not is_name_of_col(wrt, Kat) and I is not None:
        kind0, cn0 = _check_column_index(I)
        if cn0 is not None and is_name_of_col(cn0.id, sn):
            out.bad(fn, st, f'the input NAME of the column is used as the column index and `{astx.src(resolve(rd, Kat, Kv.elts[1])[0])}` '
                    'as the wrt name: name and local column are interchanged', key='key-order')
            return
    if not is_name_of_col(wrt, Kat) or ofl is None:
        out.unsure(fn, st, 'key is not (loop over outputs, self._col_idx2name[icol])')
        return
    # guard
    for gd in [x for x in astx.ancestors(st) if isinstance(x, ast.If)]:
        t = gd.test
        if isinstance(t, ast.Compare) and len(t.ops) == 1 and isinstance(t.ops[0], ast.In) and \
                astx.path(t.comparators[0]) == 'partials' and not astx.same(t.left, K) and \
                not astx.same(resolve(rd, sn, t.left)[0], Kv):
            out.bad(fn, gd, 'membership test and store use different keys', key='key-guard-mismatch')
            return
    # column = icol - in_slices[wrt].start
    kind, cn = _check_column_index(I) if I is not None else ('?', None)
    if kind == 'row':
        out.bad(fn, st, 'the column result is written to a row: the sub-jacobian is transposed', key='column-index')
        return
    if kind != 'ok':
        out.unsure(fn, st, 'column index of the colored store not recognised')
        return
    cv, cat = resolve(rd, sn, cn)

    def same_var(a_id, a_at, b_id, b_at):
        """Two local names denote the same value (identical, or aliases resolving to the same expression)."""
        if a_id == b_id:
            return True
        ra = resolve(rd, a_at, ast.Name(id=a_id, ctx=ast.Load()))[0]
        rb = resolve(rd, b_at, ast.Name(id=b_id, ctx=ast.Load()))[0]
        return not isinstance(ra, ast.Name) and astx.same(ra, rb)
    where = astx.stmt_of(cv) if hasattr(cv, '_parent') else st
    want = f'`{icol} - self._in_slices[{wrt}].start`'
    if isinstance(cv, ast.Name) and cv.id == icol:
        out.bad(fn, st, f'the GLOBAL column `{icol}` is used as the column of the sub-jacobian instead of {want}',
                key='column-index')
        return
    if not (isinstance(cv, ast.BinOp) and isinstance(cv.left, ast.Name) and cv.left.id == icol):
        out.unsure(fn, st, 'local column expression not recognised')
        return
    if not isinstance(cv.op, ast.Sub):
        out.bad(fn, where, f'local column `{astx.src(cv)}` is not {want}', key='column-index')
        return
    # the offset may itself be a temporary (`in_start = in_slices[in_name].start`)
    rv, rat = resolve(rd, cat, cv.right)
    if not (isinstance(rv, ast.Attribute) and isinstance(rv.value, ast.Subscript) and
            isinstance(rv.value.slice, ast.Name)):
        out.unsure(fn, st, 'offset of the local column not recognised')
        return
    base = rpath(rd, rat, rv.value.value)
    if rv.attr not in ('start', 'stop') or base != 'self._in_slices' or \
            not same_var(rv.value.slice.id, rat, wrt, Kat):
        if base in ('self._in_slices', 'self._out_slices') or rv.attr in ('start', 'stop', 'step'):
            out.bad(fn, where, f'local column `{astx.src(cv)}` (offset `{astx.src(rv)}`) is not {want}',
                    key='column-index')
        else:
            out.unsure(fn, st, 'offset of the local column not recognised')
        return
    # (`icol - stop` is the same column counted from the end: negative indices are accepted as equivalent)
    # part = scratch[out_slices[of]]
    pv, pat = resolve(rd, sn, E)
    goodp = isinstance(pv, ast.Subscript) and isinstance(pv.value, ast.Name) and pv.value.id == scratch and \
        isinstance(pv.slice, ast.Subscript) and rpath(rd, pat, pv.slice.value) == 'self._out_slices' and \
        isinstance(pv.slice.slice, ast.Name)
    if isinstance(pv, ast.Subscript) and isinstance(pv.slice, ast.Subscript) and \
            rpath(rd, pat, pv.slice.value) == 'self._in_slices':
        out.bad(fn, st, f'`{astx.src(pv)}` selects the range of an INPUT in the output-sized scratch array: the rows '
                f'stored under of=`{of}` belong to other outputs', key='key-value-mismatch')
        return
    if not goodp:
        out.unsure(fn, st, 'stored value is not `scratch[self._out_slices[of]]`')
        return
    if pv.slice.slice.id != of:
        out.bad(fn, st, f'rows of `{pv.slice.slice.id}` are stored under of=`{of}`', key='key-value-mismatch')
        return
    out.ok(fn, st, f'partials[(of, name of column)][:, icol - start] = scratch rows of `of`')
    # scratch hygiene: between the store and the next gather the stored rows are cleared
    def is_clear(n):
        if n.kind != 'stmt' or not isinstance(n.ast, ast.Assign) or len(n.ast.targets) != 1:
            return False
        t, v = n.ast.targets[0], n.ast.value
        if not (isinstance(v, ast.Constant) and v.value == 0 and not isinstance(v.value, bool)):
            return False
        if not isinstance(t, ast.Subscript):
            return False
        base = t.value
        if isinstance(base, ast.Name) and base.id == scratch:
            return _full_slice(t.slice) or (isinstance(t.slice, ast.Name) and t.slice.id == rows)
        if isinstance(base, ast.Name) and isinstance(E, ast.Name) and base.id == E.id and _full_slice(t.slice):
            return True
        return False
    clears = g.where(is_clear)
    zh = g.nodes_of(z)
    w = g.path(g.normal_succ(sn), g.nodes_of(gs), avoid=clears, labels=cfgm.noexc)
    if w is not None:
        out.bad(fn, st, 'rows gathered for one column are still in the scratch array when the next column of '
                'the same color is stored: extra nonzeros leak into other columns: ' + g.fmt_path(w),
                key='scratch-not-cleared')
        return
    # and the scratch starts clean for each color
    ch = g.nodes_of(cloop)
    w = g.path([g.entry], g.nodes_of(gs), avoid=clears, labels=cfgm.noexc)
    if w is not None:
        # allocation with zeros is also fine
        alloc = rd.defs(gn, scratch)
        zeros = all(x.kind == 'stmt' and isinstance(x.ast, ast.Assign) and isinstance(x.ast.value, ast.Call) and
                    astx.call_name(x.ast.value) in ('np.zeros', 'numpy.zeros', 'zeros') for x in alloc)
        if not zeros:
            out.bad(fn, gs, 'scratch array is used uninitialised (np.empty) for the first column',
                    key='scratch-not-cleared')
            return
    out.ok(fn, st, 'scratch rows are cleared between columns')


# =========================================================================== C14.declare / C14.diag
def _is_super_decl(e, rd, at):
    """True if e (callee expr) is super().declare_partials (possibly through a local alias)."""
    v, _ = resolve(rd, at, e)
    return isinstance(v, ast.Attribute) and v.attr == 'declare_partials' and isinstance(v.value, ast.Call) and \
        astx.call_name(v.value) == 'super'


class DeclLoop:
    """The declaration loop nest of ExecComp._setup_partials."""

    def __init__(self, fn):
        self.fn = fn
        self.g = g = cfgm.build(fn)
        self.rd = rd = cfgm.ReachingDefs(g)
        self.decls = []
        for n in g.nodes:
            if n.kind != 'stmt':
                continue
            for c in n.calls():
                if _is_super_decl(c.func, rd, n):
                    self.decls.append((n, c))
        if not self.decls:
            raise AnalysisError(f'{fn.ident}: no call of super().declare_partials found')
        loops = None
        for n, c in self.decls:
            ls = [l for l in loops_around(n.ast)]
            if loops is None:
                loops = ls
            elif [id(x) for x in ls] != [id(x) for x in loops]:
                raise AnalysisError(f'{fn.ident}: declare_partials calls are not all in the same loop nest')
        self.loops = loops          # innermost first
        if len(loops) != 3 or not all(isinstance(l, ast.For) for l in loops):
            raise AnalysisError(f'{fn.ident}: expected a 3-deep for nest around declare_partials, found {len(loops)}')
        self.expr_loop = loops[2]
        self.inner = loops[0]


def _size_env_eval(e, env, rd, at, depth=0):
    """Evaluate a boolean/int expression over env: {'H': bool, roles: {name: (is_array, size)}}."""
    if depth > 12:
        raise Unknown(e)
    if isinstance(e, ast.Constant) and isinstance(e.value, (bool, int)):
        return e.value
    if isinstance(e, ast.BoolOp):
        vals = [_size_env_eval(v, env, rd, at, depth + 1) for v in e.values]
        return all(vals) if isinstance(e.op, ast.And) else any(vals)
    if isinstance(e, ast.UnaryOp) and isinstance(e.op, ast.Not):
        return not _size_env_eval(e.operand, env, rd, at, depth + 1)
    if isinstance(e, ast.Subscript) and astx.path(e.value) == 'self.options' and \
            astx.const_str(e.slice) == 'has_diag_partials':
        return env['H']
    if isinstance(e, ast.Name):
        if e.id in env['roles']:
            raise Unknown(e)
        v, at2 = resolve(rd, at, e)
        if v is e or isinstance(v, ast.Name):
            raise Unknown(e)
        return _size_env_eval(v, env, rd, at2, depth + 1)
    if isinstance(e, ast.Attribute) and e.attr in ('size', 'shape', 'ndim'):
        role = env['role_of'](e.value, at)
        if role is None:
            raise Unknown(e)
        r_ = env['roles'][role]
        if e.attr != 'size' and not r_[0]:
            raise Unknown(e)    # python scalars have no shape
        return r_[1] if e.attr == 'size' else r_[2] if e.attr == 'shape' else len(r_[2])
    if isinstance(e, ast.Call) and astx.call_name(e) == 'isinstance' and len(e.args) == 2:
        role = env['role_of'](e.args[0], at)
        ty = astx.path(e.args[1])
        if role is None or ty not in ('ndarray', 'np.ndarray', 'numpy.ndarray'):
            raise Unknown(e)
        return env['roles'][role][0]
    if isinstance(e, ast.Call) and astx.call_name(e) == 'len' and len(e.args) == 1:
        role = env['role_of'](e.args[0], at)
        if role is None:
            raise Unknown(e)
        return env['roles'][role][1]
    if isinstance(e, ast.Compare) and len(e.ops) == 1:
        a = _size_env_eval(e.left, env, rd, at, depth + 1)
        b = _size_env_eval(e.comparators[0], env, rd, at, depth + 1)
        op = type(e.ops[0])
        import operator
        table = {ast.Lt: operator.lt, ast.LtE: operator.le, ast.Gt: operator.gt, ast.GtE: operator.ge,
                 ast.Eq: operator.eq, ast.NotEq: operator.ne}
        if op not in table or (isinstance(a, tuple) != isinstance(b, tuple)):
            raise Unknown(e)
        return table[op](a, b)
    raise Unknown(e)


def _walk_outcomes(g, start, stop, env, rd, classify):
    """Follow the CFG from `start` evaluating tests in env until `classify(node)` returns an outcome or a
    node in `stop` is reached ('none').  Returns the set of outcomes."""
    outs = set()
    seen = set()
    stack = [start]
    while stack:
        n = stack.pop()
        if n in seen:
            continue
        seen.add(n)
        if n is g.raise_exit or n.kind == 'raise' or (n.kind == 'stmt' and isinstance(n.ast, ast.Raise)):
            outs.add('raise')
            continue
        o = classify(n)
        if o is not None:
            outs.add(o)
            continue
        if n in stop or n is g.exit:
            outs.add('none')
            continue
        if n.kind == 'test':
            v = _size_env_eval(n.ast.test, env, rd, n)
            for m, lab in g.succ[n]:
                if (lab == 'true' and v) or (lab == 'false' and not v):
                    stack.append(m)
        elif n.kind == 'iter':
            # loops over the elements of a non-empty array run at least once
            for m, lab in g.succ[n]:
                if lab == 'true':
                    stack.append(m)
        else:
            for m, lab in g.succ[n]:
                if lab != 'exc':
                    stack.append(m)
    return outs


# (is ndarray, size, shape): sizes 1 / 3 / 5, and a size-3 output of a different shape than the size-3 input
STATES = [(H, i_, o_)
          for H in (False, True)
          for i_ in ((True, 1, (1,)), (True, 3, (3,)), (False, 1, ()))
          for o_ in ((True, 1, (1,)), (True, 3, (3,)), (True, 3, (1, 3)), (True, 5, (5,)), (False, 1, ()))]


def _fmt_state(s):
    H, (ia, isz, ish), (oa, osz, osh) = s
    f = lambda a, z, sh: ('shape-%s array' % (sh,)) if a else 'python scalar'
    return f'has_diag_partials={H}, input {f(ia, isz, ish)}, output {f(oa, osz, osh)}'


def _declared_kinds(dl, out=None):
    """state -> 'diag' | 'dense' | 'raise' | 'none' for the declaration loop."""
    g, rd = dl.g, dl.rd
    inner = dl.inner
    hdr = g.nodes_of(inner)[0]
    body_entry = [m for m, lab in g.succ[hdr] if lab == 'true']
    inp_var = inner.target.id if isinstance(inner.target, ast.Name) else None
    out_loop = dl.loops[1]
    out_var = out_loop.target.id if isinstance(out_loop.target, ast.Name) else None

    def role_of(e, at):
        v, at2 = resolve(rd, at, e)
        # nodes[('i', ... + inp)]['attrs'].val
        for w in astx.walk(v):
            if isinstance(w, ast.Tuple) and len(w.elts) == 2 and astx.const_str(w.elts[0]) in ('i', 'o'):
                io = astx.const_str(w.elts[0])
                nm = astx.names(w.elts[1])
                if io == 'i' and inp_var in nm:
                    return 'in'
                if io == 'o' and out_var in nm:
                    return 'out'
                return None
        return None

    def classify(n):
        if n.kind != 'stmt':
            return None
        for dn, c in dl.decls:
            if dn is n:
                dg = astx.kwarg(c, 'diagonal')
                if any(astx.kwarg(c, k) is not None for k in ('rows', 'cols', 'val')):
                    raise Unknown(c)
                if dg is None:
                    return 'dense'
                return 'diag' if _size_env_eval(dg, classify.env, rd, n) else 'dense'
        return None
    res = {}
    for s in STATES:
        env = dict(H=s[0], roles={'in': s[1], 'out': s[2]}, role_of=role_of)
        classify.env = env
        o = _walk_outcomes(g, body_entry[0], {hdr}, env, rd, classify)
        res[s] = o
    return res


@rule('C14.declare', floor=5)
def declare(repo, out):
    """_setup_partials declares (of=out, wrt=inp) for every output and every right-hand-side variable of every expression, before the framework resolves the declarations."""
    fn = F(repo, 'ExecComp._setup_partials')
    dl = DeclLoop(fn)
    g, rd = dl.g, dl.rd
    eloop, oloop, iloop = dl.loops[2], dl.loops[1], dl.loops[0]
    # expression loop
    ok = True
    if not (astx.path(eloop.iter) == 'self._exprs_info' and isinstance(eloop.target, ast.Tuple) and
            len(eloop.target.elts) == 3 and all(isinstance(e, ast.Name) for e in eloop.target.elts)):
        out.unsure(fn, eloop, 'outer loop is not `for outs, vs, _ in self._exprs_info`')
        return
    outs_v, vs_v = eloop.target.elts[0].id, eloop.target.elts[1].id
    loops = {}
    for l in (oloop, iloop):
        if not isinstance(l.target, ast.Name):
            out.unsure(fn, l, 'loop target is not a plain name')
            return
        hn = g.nodes_of(l)[0]
        it, at = resolve(rd, hn, l.iter)
        while isinstance(it, ast.Call) and astx.call_name(it) in ('sorted', 'list', 'tuple', 'set') and len(it.args) == 1:
            it, at = resolve(rd, at, it.args[0])
        loops[l.target.id] = (l, it, at)
    role = {}
    for var, (l, it, at) in loops.items():
        nm = astx.names(it)
        if isinstance(it, ast.Name) and it.id == outs_v:
            role[var] = 'of'
        elif vs_v in nm:
            # vs, set(vs).difference(outs), vs - outs ... but not outs.difference(vs)
            good = (isinstance(it, ast.Name)) or \
                (isinstance(it, ast.Call) and astx.callee_attr(it) == 'difference' and
                 vs_v in astx.names(astx.receiver(it)) and outs_v not in astx.names(astx.receiver(it))) or \
                (isinstance(it, ast.BinOp) and isinstance(it.op, ast.Sub) and vs_v in astx.names(it.left)
                 and outs_v not in astx.names(it.left))
            if good:
                role[var] = 'wrt'
            elif isinstance(it, (ast.Call, ast.BinOp)) and outs_v in nm:
                out.bad(fn, l, f'`{astx.src(it)}` is not the set of right-hand-side variables of the expression',
                        key='declare-wrt-set')
                ok = False
            else:
                out.unsure(fn, l, 'input set of the expression not recognised')
                return
        elif outs_v in nm:
            out.bad(fn, l, f'`{l.target.id}` iterates `{astx.src(it)}`: the right-hand-side variables `{vs_v}` of '
                    'the expression are not declared as wrt', key='declare-wrt-set')
            ok = False
        else:
            out.unsure(fn, l, 'loop does not iterate the outputs or variables of the expression')
            return
    if not ok:
        return
    if sorted(role.values()) != ['of', 'wrt']:
        out.bad(fn, oloop, 'the two loops do not iterate outputs x inputs of the expression', key='declare-wrt-set')
        return
    out.ok(fn, eloop, 'for every expression: outputs x (rhs variables - outputs)')
    # no filter between loops and declaration
    # (a `continue` is judged by the path check below: after a declaration it is harmless; `break` / `return`
    # abandon the remaining pairs whatever precedes them)
    for st in astx.walk_stmts(eloop.body):
        if isinstance(st, (ast.Break, ast.Return)):
            out.bad(fn, st, f'`{astx.src(st)}` inside the declaration loops skips the remaining (out, inp) pairs: '
                    'undeclared partials are treated as zero', key='declare-filter')
            ok = False
    # of / wrt arguments
    for n, c in dl.decls:
        of = astx.arg(c, 0, 'of')
        wrt = astx.arg(c, 1, 'wrt')
        if not (isinstance(of, ast.Name) and isinstance(wrt, ast.Name) and of.id in role and wrt.id in role):
            out.unsure(fn, n.ast, 'of/wrt of the declaration are not the loop variables')
            ok = False
            continue
        if role[of.id] != 'of' or role[wrt.id] != 'wrt':
            out.bad(fn, n.ast, f'declares of=`{of.id}` (a {role[of.id]} name) wrt=`{wrt.id}` (a {role[wrt.id]} name): '
                    'of and wrt are swapped', key='declare-of-wrt')
            ok = False
            continue
        m = astx.kwarg(c, 'method')
        if m is not None:
            out.unsure(fn, n.ast, 'declaration with an approximation method')
            ok = False
            continue
        out.ok(fn, n.ast, 'declare_partials(of=<output>, wrt=<input>)')
    if not ok:
        return
    # the nest is only conditional on `not self._manual_decl_partials`
    for a in astx.ancestors(eloop):
        if a is fn.node:
            break
        if isinstance(a, ast.If):
            t = a.test
            in_body = astx.in_body(eloop, a, 'body')
            is_manual = (isinstance(t, ast.UnaryOp) and isinstance(t.op, ast.Not) and
                         astx.path(t.operand) == 'self._manual_decl_partials' and in_body) or \
                        (astx.path(t) == 'self._manual_decl_partials' and not in_body)
            if is_manual:
                continue
            if astx.mentions(t, 'do_coloring', 'has_diag_partials', '_coloring_declared', '_has_distrib_vars',
                             'sizes', '_var_sizes'):
                out.bad(fn, a, f'the declaration loops only run when `{astx.src(t)}`: otherwise no partial is '
                        'declared and the jacobian is zero', key='declare-conditional')
            else:
                out.unsure(fn, a, 'declaration loops are under an unrecognised condition')
            return
        elif isinstance(a, (ast.For, ast.While, ast.Try, ast.With)):
            out.unsure(fn, a, 'declaration loops are nested in an unrecognised construct')
            return
    # every path through the innermost body declares exactly once (or raises)
    hdr = g.nodes_of(iloop)[0]
    body_entry = [m for m, lab in g.succ[hdr] if lab == 'true']
    dnodes = [n for n, _ in dl.decls]
    w = g.path(body_entry, [hdr], avoid=dnodes, labels=cfgm.noexc)
    if w is not None:
        out.bad(fn, iloop, 'an (out, inp) pair can pass the loop body without being declared: ' + g.fmt_path(w),
                key='declare-filter')
        return
    for outer_l, inner_l in ((dl.loops[1], dl.loops[0]), (dl.loops[2], dl.loops[1])):
        oh = g.nodes_of(outer_l)[0]
        ih = g.nodes_of(inner_l)
        w = g.path([m for m, lab in g.succ[oh] if lab == 'true'], [oh], avoid=ih, labels=cfgm.noexc)
        if w is not None:
            out.bad(fn, outer_l, f'an iteration of `{astx.src(outer_l)}` can end without running the nested loop: '
                    'its (out, inp) pairs are not declared: ' + g.fmt_path(w), key='declare-filter')
            return
    # ORDER: before super()._setup_partials()
    sup = [n for n in g.calling('_setup_partials') if any(
        astx.callee_attr(c) == '_setup_partials' and isinstance(astx.receiver(c), ast.Call) and
        astx.call_name(astx.receiver(c)) == 'super' for c in n.calls())]
    if not sup:
        out.bad(fn, fn.node, 'super()._setup_partials() is never called: declarations are never resolved',
                key='declare-order')
        return
    ehdr = g.nodes_of(eloop)[0]
    late = g.reach([m for s_ in sup for m in g.normal_succ(s_)], labels=cfgm.noexc)
    if ehdr in late:
        out.bad(fn, eloop, 'partials are declared after super()._setup_partials() has already resolved the '
                'declarations', key='declare-order')
        return
    out.ok(fn, sup[0].ast, 'declarations precede super()._setup_partials(); each pair declared once')


def _perturb_modes(repo):
    """state -> (set of store kinds reached for one (out, inp) pair, tainted) in compute_partials.

    A store is 'whole' when it happens while the whole view is perturbed (`view += step`) and 'elem' when it
    happens while one element is (`view[idx] += step`).  Tests on has_diag_partials and on the sizes of the
    perturbed view / of the output view read are evaluated; membership tests and the is-scalar flag are free;
    any other test is followed on both sides and taints the result.
    """
    fn = F(repo, 'ExecComp.compute_partials')
    d = Driver(fn)
    g, rd = d.g, d.rd
    views = [a for a in d.adds if d.view_kind(a.ast.target, a) == 'view']
    if not views:
        raise AnalysisError(f'{fn.ident}: no perturbation of an input view')
    inloops = {id(loops_around(a.ast)[-1]): loops_around(a.ast)[-1] for a in views if loops_around(a.ast)}
    if len(inloops) != 1:
        raise AnalysisError(f'{fn.ident}: perturbations are not in one loop over the inputs')
    inloop = next(iter(inloops.values()))
    hdr = g.nodes_of(inloop)[0]
    body_entry = [m for m, lab in g.succ[hdr] if lab == 'true']
    vname = root_name(views[0].ast.target).id
    odefs = d.out_defs()
    onames = set(odefs.values())

    def role_of(e, at):
        if isinstance(e, ast.Name) and e.id == vname:
            return 'in'
        if isinstance(e, ast.Name) and e.id in onames:
            ds = rd.defs(at, e.id)
            if ds and ds <= set(odefs):
                return 'out'
        v, _ = resolve(rd, at, e)
        if isinstance(v, ast.Name) and v.id == vname:
            return 'in'
        return None
    kind_of = {}
    for a in views:
        k = 'whole' if isinstance(a.ast.target, ast.Name) else 'elem'
        for n in d.region(a):
            if n.kind == 'stmt' and _jac_store(n.ast) is not None:
                kind_of.setdefault(n, set()).add(k)
    stores_outside = [n for n in g.body_nodes(inloop) if n.kind == 'stmt' and _jac_store(n.ast) is not None
                      and n not in kind_of]
    if stores_outside:
        raise Unknown(stores_outside[0].ast)

    def member(t):
        """`K in partials` -> True, `K not in partials` -> False (the pair under study is declared), else None."""
        if isinstance(t, ast.Compare) and len(t.ops) == 1 and isinstance(t.ops[0], (ast.In, ast.NotIn)) and \
                astx.path(t.comparators[0]) == 'partials':
            return isinstance(t.ops[0], ast.In)
        return None

    def free(t):
        return isinstance(t, ast.Name) and 'scalar' in t.id
    # deferred work lists: `L = []` in the input loop, `L.append(u)` under some condition, later `if L:` /
    # `for u in L:` -- for one (out, inp) pair L "contains the pair" iff the append was reached
    body = set(g.body_nodes(inloop))
    lists = {n.ast.targets[0].id for n in body if n.kind == 'stmt' and isinstance(n.ast, ast.Assign)
             and len(n.ast.targets) == 1 and isinstance(n.ast.targets[0], ast.Name)
             and isinstance(n.ast.value, ast.List) and not n.ast.value.elts}
    appends = {}
    for n in body:
        if n.kind == 'stmt' and isinstance(n.ast, ast.Expr) and isinstance(n.ast.value, ast.Call) and \
                astx.callee_attr(n.ast.value) == 'append' and isinstance(astx.receiver(n.ast.value), ast.Name) and \
                astx.receiver(n.ast.value).id in lists:
            appends[n] = astx.receiver(n.ast.value).id

    def list_test(t, filled):
        """Truth value of `L`, `not L`, `len(L) > 0` for a deferred list L, else None."""
        if isinstance(t, ast.Name) and t.id in lists:
            return t.id in filled
        if isinstance(t, ast.UnaryOp) and isinstance(t.op, ast.Not):
            v = list_test(t.operand, filled)
            return None if v is None else not v
        if isinstance(t, ast.Call) and astx.call_name(t) == 'len' and t.args and isinstance(t.args[0], ast.Name) \
                and t.args[0].id in lists:
            return t.args[0].id in filled
        if isinstance(t, ast.Compare) and len(t.ops) == 1 and isinstance(t.ops[0], ast.Gt) and \
                isinstance(t.comparators[0], ast.Constant) and t.comparators[0].value == 0:
            return list_test(t.left, filled)
        return None
    res = {}
    for s in STATES:
        env = dict(H=s[0], roles={'in': s[1], 'out': s[2]}, role_of=role_of)
        filled = set()
        while True:
            kinds, tainted = set(), False
            seen = set()
            stack = [body_entry[0]]
            while stack:
                n = stack.pop()
                if n in seen or n is hdr or n is g.exit or n is g.raise_exit:
                    continue
                seen.add(n)
                if n in kind_of:
                    kinds |= kind_of[n]
                if n.kind == 'test' and isinstance(n.ast, (ast.If, ast.While)):
                    t = n.ast.test
                    v = member(t)
                    if v is None:
                        v = list_test(t, filled)
                    if v is None and not free(t):
                        try:
                            v = bool(_size_env_eval(t, env, rd, n))
                        except Unknown:
                            tainted = True
                    for m, lab in g.succ[n]:
                        if lab == 'exc':
                            continue
                        if v is None or (lab == 'true') == v or lab not in ('true', 'false'):
                            stack.append(m)
                elif n.kind == 'iter' and isinstance(n.ast.iter, ast.Name) and n.ast.iter.id in lists:
                    for m, lab in g.succ[n]:
                        if lab == 'exc' or (lab == 'true' and n.ast.iter.id not in filled):
                            continue
                        stack.append(m)
                else:
                    for m, lab in g.succ[n]:
                        if lab != 'exc':
                            stack.append(m)
            now = {appends[n] for n in seen if n in appends}
            if now <= filled:
                break
            filled |= now
        res[s] = (kinds, tainted)
    return fn, d, res, inloop


@rule('C14.diag', floor=1)
def diag(repo, out):
    """The kind of partial declared for (out, inp) (diagonal / dense) agrees with the perturbation mode compute_partials uses for inp, for every combination of has_diag_partials and sizes."""
    fdecl = F(repo, 'ExecComp._setup_partials')
    dl = DeclLoop(fdecl)
    try:
        D = _declared_kinds(dl)
    except Unknown as u:
        out.unsure(fdecl, astx.stmt_of(u.node) if isinstance(u.node, ast.AST) else None,
                   f'unrecognised atom in the declaration conditions: {astx.src(u.node)}')
        return
    try:
        fn, d, P, inloop = _perturb_modes(repo)
    except Unknown as u:
        out.unsure(F(repo, 'ExecComp.compute_partials'), astx.stmt_of(u.node),
                   f'unrecognised condition in compute_partials: {astx.src(u.node)}')
        return
    out.count('abstract_states', len(STATES))
    seen = set()
    nbad = 0

    def bad(where, node, why, key):
        nonlocal nbad
        nbad += 1
        if key not in seen:
            seen.add(key)
            out.bad(where, node, why, key=key)
    for s in STATES:
        H, (ia, isz, _ish), (oa, osz, _osh) = s
        dk, (pk, tainted) = D[s], P[s]
        if len(dk) != 1:
            out.unsure(fdecl, None, f'ambiguous declaration outcome {sorted(dk)} for {_fmt_state(s)}')
            return
        dk = next(iter(dk))
        if dk == 'none':
            bad(fdecl, dl.inner, f'no partial is declared for {_fmt_state(s)}', 'declare-none')
            continue
        if dk == 'raise':
            if not (H and isz > 1 and osz > 1 and osz != isz):
                bad(fdecl, dl.inner, f'_setup_partials raises for {_fmt_state(s)}, a configuration for which outputs and '
                    'partials are well defined (only a non-square array/array block under has_diag_partials may be '
                    'rejected)', 'declare-rejects-admissible')
            continue
        if dk == 'diag' and isz > 1 and osz > 1 and osz != isz:
            continue   # the framework rejects a non-square diagonal declaration: same as the explicit raise
        if dk == 'diag' and not (H and isz > 1 and osz == isz):
            why = 'without has_diag_partials' if not H else f'for a {osz} x {isz} block'
            bad(fdecl, dl.inner, f'partial is declared diagonal {why} ({_fmt_state(s)})', 'diagonal-unsound')
            continue
        verdict = None
        if not pk:
            verdict = (f'the partial is never stored for {_fmt_state(s)}', 'perturb-none')
        elif len(pk) > 1:
            tainted = True
        elif pk == {'whole'} and isz > 1 and dk != 'diag':
            tag = 'has_diag' if H else 'no_diag'
            verdict = (f'for {_fmt_state(s)} the partial is declared DENSE ({osz} x {isz}) by _setup_partials but '
                       'compute_partials stores it while ALL elements of the input are perturbed at once: every '
                       'column receives the sum of all columns',
                       f'whole-perturbation-of-dense-partial:{tag},in>1,out={"1" if osz == 1 else "n"}')
        elif pk == {'elem'} and dk == 'diag':
            verdict = (f'for {_fmt_state(s)} the partial is declared diagonal but compute_partials writes dense '
                       'columns `[:, i]` into it', 'column-loop-on-diagonal-partial')
        if tainted and (verdict is not None or len(pk) > 1):
            out.unsure(fn, inloop, f'store mode for {_fmt_state(s)} depends on a condition that is not recognised')
            return
        if verdict is not None:
            bad(fn, inloop, verdict[0], verdict[1])
    if not nbad:
        out.ok(fn, inloop, f'declared kind and perturbation mode agree on {len(STATES)} abstract states')


# =========================================================================== C14.sync
def _is_inplace_full(t, rd, at, want):
    """True if target t is `X[:]` with X resolving to path `want`."""
    return isinstance(t, ast.Subscript) and _full_slice(t.slice) and rpath(rd, at, t.value) == want


def _is_vec_array(e, rd, at, names):
    """True if e is <vec>.asarray(...) with vec path in names (after alias resolution)."""
    v, at2 = resolve(rd, at, e)
    return isinstance(v, ast.Call) and astx.callee_attr(v) == 'asarray' and \
        rpath(rd, at2, astx.receiver(v)) in names


def _copy_flag(call):
    """True / False / 'expr' / None(absent: vector.asarray default is copy=False)."""
    c = astx.arg(call, 0, 'copy')
    if c is None:
        return False
    if isinstance(c, ast.Constant) and isinstance(c.value, bool):
        return c.value
    return 'expr'


@rule('C14.sync', floor=4)
def sync(repo, out):
    """The complex work arrays are filled in place from the current inputs before every evaluation, and compute() copies the result back into the output vector."""
    for qn in ('ExecComp.compute_partials', 'ExecComp._compute_colored_partials'):
        fn = F(repo, qn)
        d = Driver(fn)
        g, rd = d.g, d.rd
        syncs = [n for n in g.where(lambda n: n.kind == 'stmt' and isinstance(n.ast, ast.Assign)
                                    and len(n.ast.targets) == 1)
                 if _is_inplace_full(n.ast.targets[0], rd, n, 'self._inarray') and
                 _is_vec_array(n.ast.value, rd, n, ('self._inputs', 'inputs'))]
        rebinds = [n for n in g.where(lambda n: n.kind == 'stmt' and isinstance(n.ast, ast.Assign)
                                      and len(n.ast.targets) == 1 and isinstance(n.ast.targets[0], ast.Name))
                   if _is_vec_array(n.ast.value, rd, n, ('self._inputs', 'inputs')) and
                   isinstance(n.ast.value, ast.Call)]
        if not d.adds:
            raise AnalysisError(f'{fn.ident}: no perturbation found')
        realonly = [n for n in g.where(lambda n: n.kind == 'stmt' and isinstance(n.ast, ast.Assign)
                                       and len(n.ast.targets) == 1)
                    if isinstance(n.ast.targets[0], ast.Subscript) and isinstance(n.ast.targets[0].value, ast.Attribute)
                    and n.ast.targets[0].value.attr == 'real'
                    and rpath(rd, n, n.ast.targets[0].value.value) == 'self._inarray']
        if not syncs and realonly:
            out.bad(fn, realonly[0].ast, 'only the REAL part of self._inarray is refreshed: imaginary parts left by an '
                    'earlier pass (sparsity sample, aborted perturbation) stay in the private complex copy and are '
                    'read back as derivatives', key='input-sync')
            continue
        if not syncs:
            if rebinds:
                out.bad(fn, rebinds[0].ast, 'the input values are bound to a local name instead of being copied '
                        'into self._inarray: the complex views keep the inputs of an earlier point',
                        key='input-sync')
            else:
                out.bad(fn, fn.node, 'self._inarray is not refreshed from self._inputs before the perturbations: '
                        'partials are evaluated at a stale point', key='input-sync')
            continue
        w = None
        for a in d.adds:
            w = w or g.dominated_by(a, syncs, labels=cfgm.noexc)
        if w is not None:
            out.bad(fn, syncs[0].ast, 'a perturbation can run before self._inarray is refreshed from the '
                    'inputs: ' + g.fmt_path(w), key='input-sync')
            continue
        # no perturbation / evaluation between entry and sync that would be overwritten is fine; but a
        # sync inside a perturbation wipes the step
        inside = [s_ for s_ in syncs for a in d.adds if s_ in d.region(a)]
        if inside:
            out.bad(fn, inside[0].ast, 'self._inarray is overwritten while a perturbation is in place',
                    key='input-sync')
            continue
        out.ok(fn, syncs[0].ast, 'self._inarray[:] = inputs before the first perturbation')

    # ---- compute()
    fn = F(repo, 'ExecComp.compute')
    g = cfgm.build(fn)
    rd = cfgm.ReachingDefs(g)
    tests = g.where(lambda n: n.kind == 'test' and isinstance(n.ast, ast.If) and
                    astx.path(n.ast.test) == 'self._relcopy')
    ntests = g.where(lambda n: n.kind == 'test' and isinstance(n.ast, ast.If) and
                     isinstance(n.ast.test, ast.UnaryOp) and isinstance(n.ast.test.op, ast.Not) and
                     astx.path(n.ast.test.operand) == 'self._relcopy')
    if len(tests) + len(ntests) != 1:
        out.unsure(fn, fn.node, 'branch on self._relcopy not found in compute')
        return
    t = (tests or ntests)[0]
    lab_copy, lab_direct = ('true', 'false') if tests else ('false', 'true')
    execs = g.calling('_exec', recv='self')
    syncs = [n for n in g.where(lambda n: n.kind == 'stmt' and isinstance(n.ast, ast.Assign) and len(n.ast.targets) == 1)
             if _is_inplace_full(n.ast.targets[0], rd, n, 'self._inarray') and
             _is_vec_array(n.ast.value, rd, n, ('self._inputs', 'inputs'))]

    def is_back(n):
        if not (n.kind == 'stmt' and isinstance(n.ast, ast.Assign) and len(n.ast.targets) == 1):
            return False
        tg = n.ast.targets[0]
        if not (isinstance(tg, ast.Subscript) and _full_slice(tg.slice)):
            return False
        v = n.ast.value
        if isinstance(v, ast.Attribute) and v.attr == 'real':
            v = v.value
        return rpath(rd, n, v) == 'self._outarray'
    backs = g.where(is_back)
    start = [m for m, lab in g.succ[t] if lab == lab_copy]
    ends = [g.exit]
    # relcopy branch: sync -> exec -> copy back on every path
    okc = True
    if not syncs or g.path(start, execs, avoid=syncs, labels=cfgm.noexc) is not None:
        out.bad(fn, t.ast, 'with private complex arrays (self._relcopy) the expressions are evaluated without '
                'copying the current inputs into self._inarray first: outputs of a stale point',
                key='compute-sync')
        okc = False
    elif not execs or g.path(start, ends, avoid=execs, labels=cfgm.noexc) is not None:
        out.bad(fn, t.ast, 'compute can return without evaluating the expressions', key='compute-exec')
        okc = False
    elif not backs or g.path([m for x in execs for m in g.normal_succ(x) if x in g.reach(start, labels=cfgm.noexc)],
                             ends, avoid=backs, labels=cfgm.noexc) is not None:
        out.bad(fn, t.ast, 'with private complex arrays the evaluated outputs are not copied back into the '
                'output vector on every path', key='compute-copy-back')
        okc = False
    else:
        late = set()
        for b in backs:
            late |= g.reach(g.normal_succ(b), labels=cfgm.noexc) & set(execs)
        for s_ in syncs:
            pass
        for b in backs:
            if g.path(start, [b], avoid=execs, labels=cfgm.noexc) is not None:
                out.bad(fn, b.ast, 'outputs are copied back before the expressions are evaluated',
                        key='compute-copy-back')
                okc = False
                break
    if okc:
        # destination of the copy-back is the live output array, not a copy
        for b in backs:
            tg = b.ast.targets[0].value
            v, at2 = resolve(rd, b, tg)
            if isinstance(v, ast.Call) and astx.callee_attr(v) == 'asarray' and \
                    rpath(rd, at2, astx.receiver(v)) in ('outputs', 'self._outputs'):
                cf = _copy_flag(v)
                if cf is True:
                    out.bad(fn, astx.stmt_of(v), 'the results are written into a COPY of the output vector '
                            '(asarray(copy=True)): the outputs never change', key='compute-copy-back')
                    okc = False
                elif cf == 'expr':
                    out.unsure(fn, astx.stmt_of(v), 'copy flag of the destination is not a literal')
                    okc = False
            elif astx.path(v) in ('outputs', 'self._outputs') or \
                    (isinstance(v, ast.Attribute) and astx.path(v.value) in ('outputs', 'self._outputs')):
                pass
            else:
                out.unsure(fn, b.ast, 'destination of the copy-back is not the output vector')
                okc = False
    if okc:
        out.ok(fn, t.ast, 'relcopy: inarray[:] = inputs -> _exec() -> outputs[:] = outarray')
    # direct branch: exec on every path
    start2 = [m for m, lab in g.succ[t] if lab == lab_direct]
    if g.path(start2, ends, avoid=execs, labels=cfgm.noexc) is not None:
        out.bad(fn, t.ast, 'compute can return without evaluating the expressions (shared-array branch)',
                key='compute-exec')
    else:
        out.ok(fn, t.ast, 'shared arrays: _exec() on every path')


# =========================================================================== C14.coloring
@rule('C14.coloring', floor=4)
def coloring(repo, out):
    """The sparsity pass of _compute_coloring perturbs every input element, records column i for element i, and leaves the input vector as it found it."""
    fn = F(repo, 'ExecComp._compute_coloring')
    d = Driver(fn)
    g, rd = d.g, d.rd
    if len(d.adds) != 1:
        raise AnalysisError(f'{fn.ident}: expected one perturbation, found {len(d.adds)}')
    a = d.adds[0]
    tgt = a.ast.target
    # ---- column bookkeeping
    if not (isinstance(tgt, ast.Subscript) and isinstance(tgt.slice, ast.Name) and d.view_kind(tgt, a) == 'inarr'):
        out.unsure(fn, a.ast, 'sparsity perturbation is not `inarr[i] += step`')
        return
    iv = tgt.slice.id
    loop = _loop_of_target(iv, a, rd)
    if loop is None or not (isinstance(loop.iter, ast.Call) and astx.call_name(loop.iter) == 'range'
                            and len(loop.iter.args) == 1):
        out.unsure(fn, a.ast, 'element loop is not `for i in range(n)`')
        return
    nexp = loop.iter.args[0]
    hn = g.nodes_of(loop)[0]
    arr = None
    if isinstance(nexp, ast.Attribute) and nexp.attr == 'size':
        arr = nexp.value
    elif isinstance(nexp, ast.Call) and astx.call_name(nexp) == 'len' and len(nexp.args) == 1:
        arr = nexp.args[0]
    ap = rpath(rd, hn, arr) if arr is not None else None
    if ap in ('self._inarray', 'self._inputs'):
        pass
    elif ap in ('self._outarray', 'self._outputs'):
        out.bad(fn, loop, f'the sparsity loop runs over the {ap} size: input columns are skipped (or the index '
                'overruns) when the numbers of inputs and outputs differ', key='sparsity-columns')
        return
    else:
        out.unsure(fn, loop, 'bound of the sparsity loop not recognised')
        return
    setc = [n for n in d.region(a) if n.kind == 'stmt' and any(astx.callee_attr(c) == 'set_col' for c in n.calls())]
    if len(setc) != 1:
        out.bad(fn, a.ast, 'no (or more than one) jac.set_col while the perturbation is in place: the sparsity '
                'misses this column', key='sparsity-columns')
        return
    c = [c for c in setc[0].calls() if astx.callee_attr(c) == 'set_col'][0]
    ci = astx.arg(c, 1, 'icol')
    if not (isinstance(ci, ast.Name) and ci.id == iv):
        out.bad(fn, setc[0].ast, f'column `{astx.src(ci)}` is recorded for the perturbation of element `{iv}`',
                key='sparsity-columns')
        return
    out.ok(fn, setc[0].ast, 'column i recorded for perturbed element i, i over all input elements')

    # ---- snapshot / restore of the input vector
    snaps = [n for n in g.where(lambda n: n.kind == 'stmt' and isinstance(n.ast, ast.Assign) and
                                len(n.ast.targets) == 1 and isinstance(n.ast.targets[0], ast.Name))
             if isinstance(n.ast.value, ast.Call) and astx.callee_attr(n.ast.value) == 'asarray' and
             rpath(rd, n, astx.receiver(n.ast.value)) == 'self._inputs']
    restores = [n for n in g.where(lambda n: n.kind == 'stmt')
                if any(astx.callee_attr(c) == 'set_val' and astx.path(astx.receiver(c)) == 'self._inputs'
                       for c in n.calls())]
    if len(snaps) != 1:
        out.unsure(fn, fn.node, 'snapshot of the inputs not recognised')
        return
    sn = snaps[0]
    sname = sn.ast.targets[0].id
    cexp = astx.arg(sn.ast.value, 0, 'copy')

    def relcopy_eval(e, rel):
        if e is None:
            return False
        if isinstance(e, ast.Constant) and isinstance(e.value, bool):
            return e.value
        if astx.path(e) == 'self._relcopy':
            return rel
        if isinstance(e, ast.UnaryOp) and isinstance(e.op, ast.Not):
            return not relcopy_eval(e.operand, rel)
        raise Unknown(e)
    try:
        for rel in (False, True):
            is_copy = relcopy_eval(cexp, rel)
            # is the restore executed?  walk from the loop exit
            restored = False
            rs = [r for r in restores if any(isinstance(x, ast.Name) and x.id == sname for c in r.calls()
                                             for x in c.args)]
            for r in rs:
                conds = [x for x in astx.ancestors(r.ast) if isinstance(x, ast.If)]
                val = True
                for cnd in conds:
                    v = relcopy_eval(cnd.test, rel)
                    val = val and (v if r.ast in list(astx.walk_stmts(cnd.body)) else not v)
                if val:
                    restored = True
            if not rel:
                # inarr IS the complex storage of self._inputs: the random sparsity points overwrite it
                if not is_copy:
                    out.bad(fn, sn.ast, 'when the complex arrays are the vectors\' own storage (not self._relcopy) '
                            f'`{sname}` must be a copy: as a view it follows the random sparsity points and the '
                            'restore is a no-op, the model continues from random inputs', key='inputs-not-restored')
                    return
                if not restored:
                    out.bad(fn, sn.ast, 'when the complex arrays are the vectors\' own storage (not self._relcopy) '
                            'the inputs are not restored after the sparsity pass: the model continues from '
                            'random inputs', key='inputs-not-restored')
                    return
    except Unknown as u:
        out.unsure(fn, astx.stmt_of(u.node), f'condition not recognised: {astx.src(u.node)}')
        return
    # restore after the loops, before any return
    outer = loops_around(a.ast)[-1]
    ohdr = g.nodes_of(outer)[0]
    rs = [r for r in restores]
    for r in rs:
        if r in g.body_nodes(outer):
            out.bad(fn, r.ast, 'inputs are restored inside the sparsity loop', key='inputs-not-restored')
            return
    after = [m for m, lab in g.succ[ohdr] if lab == 'false']
    edge_ok = None
    gd = [x for r in rs for x in astx.ancestors(r.ast) if isinstance(x, ast.If)]
    if gd:
        tdump = astx.dump(gd[0].test)
        want_true = rs[0].ast in list(astx.walk_stmts(gd[0].body))
        edge_ok = cfgm.CFG.assume(tdump, want_true)
    w = g.path(after, [g.exit], avoid=rs, labels=cfgm.noexc, edge_ok=edge_ok)
    if w is not None:
        out.bad(fn, rs[0].ast, 'a path leaves _compute_coloring after the sparsity pass without restoring the '
                'inputs: ' + g.fmt_path(w), key='inputs-not-restored')
        return
    out.ok(fn, sn.ast, 'inputs snapshot is a copy and is restored whenever the complex array aliases the vector')

    # ---- the sparsity sample moves EVERY input element: offsets scaled by the inputs need their zeros replaced
    samples = [n for n in g.body_nodes(outer) if n.kind == 'stmt' and isinstance(n.ast, ast.Assign)
               and len(n.ast.targets) == 1 and _is_inplace_full(n.ast.targets[0], rd, n, 'self._inarray')]
    if len(samples) != 1:
        out.unsure(fn, outer, 'sparsity sample `inarr[:] = start + offsets * random` not recognised')
        return
    smp = samples[0]
    offs = [w.id for w in astx.walk(smp.ast.value) if isinstance(w, ast.Name) and w.id != sname
            and rd.defs(smp, w.id) and w.id not in ('np', 'numpy', 'get_random_arr', 'self')]
    offs = [x for x in dict.fromkeys(offs) if any(dn.kind == 'stmt' for dn in rd.defs(smp, x))]

    def from_snapshot(name, at, depth=0):
        """True if `name` is (a copy / multiple of) the snapshot, looking through in-place updates."""
        if depth > 6:
            return None
        verdicts = set()
        for dn in rd.defs(at, name):
            if dn.kind != 'stmt':
                verdicts.add(None)
            elif isinstance(dn.ast, ast.AugAssign):
                verdicts.add(from_snapshot(name, dn, depth + 1))
            elif isinstance(dn.ast, ast.Assign) and isinstance(dn.ast.targets[0], ast.Name):
                v = dn.ast.value
                if sname in astx.names(v):
                    has_repl = any(isinstance(c, ast.Call) and astx.call_name(c) in ('np.where', 'numpy.where')
                                   for c in astx.walk(v))
                    verdicts.add('guarded' if has_repl else True)
                else:
                    verdicts.add(False)
            else:
                verdicts.add(None)
        return verdicts.pop() if len(verdicts) == 1 else None

    def zero_replaced(name):
        """A statement `name[name == 0] = c` (c a nonzero constant) on every path to the sample."""
        def is_repl(n):
            if not (n.kind == 'stmt' and isinstance(n.ast, ast.Assign) and len(n.ast.targets) == 1):
                return False
            t, v = n.ast.targets[0], n.ast.value
            if not (isinstance(t, ast.Subscript) and isinstance(t.value, ast.Name) and t.value.id == name):
                return False
            c = t.slice
            if not (isinstance(c, ast.Compare) and len(c.ops) == 1 and isinstance(c.ops[0], ast.Eq)):
                return False
            sides = [c.left, c.comparators[0]]
            if not (any(isinstance(x, ast.Name) and x.id == name for x in sides) and
                    any(isinstance(x, ast.Constant) and x.value == 0 for x in sides)):
                return False
            return isinstance(v, ast.Constant) and isinstance(v.value, (int, float)) and v.value != 0
        repl = g.where(is_repl)
        return bool(repl) and g.dominated_by(smp, repl, labels=cfgm.noexc) is None
    verdict = 'ok'
    for x in offs:
        fs = from_snapshot(x, smp)
        if fs is True and not zero_replaced(x):
            out.bad(fn, smp.ast, f'the sample offsets `{x}` are proportional to the current inputs and their zeros are '
                    'not replaced: an input that is exactly 0 is never moved, partials that vanish there are '
                    'missing from the sparsity and stay zero in the colored jacobian', key='sparsity-zero-offsets')
            verdict = 'bad'
            break
        if fs is None:
            verdict = 'unsure'
    if verdict == 'bad':
        return
    if verdict == 'unsure' or not offs:
        out.unsure(fn, smp.ast, 'origin of the sample offsets not recognised')
        return
    out.ok(fn, smp.ast, 'every input element is moved by the sparsity sample (zero inputs get a unit offset)')

    # ---- offsets must not alias the snapshot (it is modified in place)
    mods = [n for n in g.where(lambda n: n.kind == 'stmt' and isinstance(n.ast, (ast.AugAssign, ast.Assign)))
            if any(isinstance(t, (ast.Subscript, ast.Name)) and root_name(t) is not None
                   and isinstance(n.ast, ast.AugAssign) or isinstance(t, ast.Subscript)
                   for t in astx.assigned_targets(n.ast))]
    aliased = None
    for n in mods:
        for t in astx.assigned_targets(n.ast):
            r = root_name(t)
            if r is None or r.id == sname:
                if r is not None and r.id == sname and (isinstance(t, ast.Subscript) or isinstance(n.ast, ast.AugAssign)):
                    aliased = (n, 'the snapshot itself is modified in place')
                continue
            if not (isinstance(t, ast.Subscript) or isinstance(n.ast, ast.AugAssign)):
                continue
            v = rd.value(n, r.id)
            if isinstance(v, ast.Name) and v.id == sname:
                aliased = (n, f'`{r.id}` is the snapshot `{sname}` itself, not a copy')
            elif isinstance(v, ast.Call) and astx.call_name(v) in ('np.asarray', 'numpy.asarray') and \
                    v.args and isinstance(v.args[0], ast.Name) and v.args[0].id == sname:
                aliased = (n, f'`{r.id}` is np.asarray of the snapshot: no copy is made')
    if aliased:
        out.bad(fn, aliased[0].ast, f'{aliased[1]}: the in-place update changes the saved inputs (and, with private '
                'complex arrays, the input vector itself)', key='offsets-alias')
        return
    out.ok(fn, sn.ast, 'perturbation offsets are computed on a copy of the snapshot')


# =========================================================================== C14.views
@rule('C14.views', floor=11)
def views(repo, out):
    """_setup_vectors pairs inputs with _inarray / _indict and outputs with _outarray / outdict, takes them in complex mode, and sets _relcopy exactly when the arrays are private."""
    fn = F(repo, 'ExecComp._setup_vectors')
    g = cfgm.build(fn)
    rd = cfgm.ReachingDefs(g)
    tests = [n for n in g.where(lambda n: n.kind == 'test' and isinstance(n.ast, ast.If))
             if astx.path(n.ast.test) == 'self._force_alloc_complex']
    if len(tests) != 1:
        out.unsure(fn, fn.node, 'branch on self._force_alloc_complex not found')
        return
    br = tests[0].ast
    SIDE = {'self._indict': 'in', 'self._inarray': 'in', 'self._outarray': 'out', 'outdict': 'out'}
    VEC = {'in': 'self._inputs', 'out': 'self._outputs'}
    ARR = {'in': 'self._inarray', 'out': 'self._outarray'}
    for label, body in (('shared', br.body), ('private', br.orelse)):
        found = {}
        for st in astx.walk_stmts(body):
            if not (isinstance(st, ast.Assign) and len(st.targets) == 1):
                continue
            p = astx.path(st.targets[0])
            if p not in SIDE:
                continue
            found[p] = st
            side = SIDE[p]
            v = st.value
            n = g.nodes_of(st)[0]
            if p in ('self._indict', 'outdict'):
                if not (isinstance(v, ast.Call) and astx.callee_attr(v) == '_get_local_views'):
                    out.unsure(fn, st, 'views are not taken with _get_local_views')
                    continue
                rv = astx.path(astx.receiver(v))
                if rv != VEC[side]:
                    out.bad(fn, st, f'{p} takes its views from {rv} instead of {VEC[side]}', key='views-pairing')
                    continue
                a0 = astx.arg(v, 0, 'arr')
                if label == 'private':
                    if a0 is None:
                        out.bad(fn, st, f'{p} views the real vector storage, not the private complex array '
                                f'{ARR[side]}: complex steps are lost', key='views-pairing')
                        continue
                    if astx.path(a0) != ARR[side]:
                        out.bad(fn, st, f'{p} views {astx.path(a0)} instead of {ARR[side]}: input and output '
                                'views alias or have the wrong layout', key='views-pairing')
                        continue
                elif a0 is not None:
                    out.unsure(fn, st, 'explicit array in the shared-storage branch')
                    continue
                out.ok(fn, st, f'[{label}] {p} = views of {VEC[side]}' + (f' into {ARR[side]}' if a0 is not None else ''))
            else:
                if label == 'shared':
                    okv = isinstance(v, ast.Call) and astx.callee_attr(v) == 'asarray'
                    if not okv:
                        out.unsure(fn, st, 'shared array is not <vector>.asarray(...)')
                        continue
                    rv = astx.path(astx.receiver(v))
                    if rv != VEC[side]:
                        out.bad(fn, st, f'{p} is the storage of {rv} instead of {VEC[side]}', key='views-pairing')
                        continue
                    if _copy_flag(v) is not False:
                        out.bad(fn, st, f'{p} is a copy of the vector storage: results never reach the vector',
                                key='views-pairing')
                        continue
                else:
                    okv = isinstance(v, ast.Call) and astx.call_name(v) in ('np.zeros', 'numpy.zeros', 'np.empty',
                                                                            'np.ones') and v.args
                    if not okv:
                        out.unsure(fn, st, 'private array is not np.zeros(len(<vector>), dtype=complex)')
                        continue
                    sz = v.args[0]
                    szv = astx.path(sz.args[0]) if isinstance(sz, ast.Call) and astx.call_name(sz) == 'len' and sz.args else None
                    if szv != VEC[side]:
                        if szv in VEC.values():
                            out.bad(fn, st, f'{p} has the length of {szv} instead of {VEC[side]}', key='views-pairing')
                        else:
                            out.unsure(fn, st, 'size of the private array not recognised')
                        continue
                    dt = astx.kwarg(v, 'dtype')
                    if not (isinstance(dt, ast.Name) and dt.id == 'complex' or astx.path(dt) in
                            ('np.complex128', 'numpy.complex128', 'np.cdouble')):
                        out.bad(fn, st, f'{p} is not a complex array: the complex step cannot be stored',
                                key='views-dtype')
                        continue
                out.ok(fn, st, f'[{label}] {p} belongs to {VEC[side]}')
        missing = set(SIDE) - set(found)
        if missing:
            out.bad(fn, br, f'[{label}] {sorted(missing)} not set in this branch', key='views-pairing')
        # _relcopy
        sets = [st for st in astx.walk_stmts(body) if isinstance(st, ast.Assign) and
                any(astx.path(t) == 'self._relcopy' for t in st.targets)]
        val = None
        if sets:
            v = sets[-1].value
            val = v.value if isinstance(v, ast.Constant) else '?'
        if label == 'private':
            if val is not True:
                out.bad(fn, br, 'self._relcopy is not set to True although the complex arrays are private copies: '
                        'compute() then neither copies the inputs in nor the outputs back', key='relcopy-flag')
            else:
                out.ok(fn, sets[-1], 'private arrays -> self._relcopy = True')
        elif val not in (None, False):
            out.bad(fn, sets[-1], 'self._relcopy set although the arrays are the vectors\' own storage',
                    key='relcopy-flag')
    # default False before the branch
    dflt = [n for n in g.where(lambda n: n.kind == 'stmt' and isinstance(n.ast, ast.Assign))
            if any(astx.path(t) == 'self._relcopy' for t in n.ast.targets) and
            isinstance(n.ast.value, ast.Constant) and n.ast.value.value is False]
    if not dflt or g.dominated_by(tests[0], dflt, labels=cfgm.noexc) is not None:
        out.bad(fn, br, 'self._relcopy is not reset to False before the arrays are chosen', key='relcopy-flag')
    # complex-step mode bracket in the shared branch
    for vec in ('self._inputs', 'self._outputs'):
        def mode(n, val):
            return any(astx.callee_attr(c) == 'set_complex_step_mode' and astx.path(astx.receiver(c)) == vec
                       and c.args and isinstance(c.args[0], ast.Constant) and c.args[0].value is val
                       for c in n.calls())
        on = [n for n in g.where(lambda n: n.kind == 'stmt') if mode(n, True)]
        off = [n for n in g.where(lambda n: n.kind == 'stmt') if mode(n, False)]
        users = [n for n in g.where(lambda n: n.kind == 'stmt') if g.inside(n, br, 'body') and
                 any(astx.callee_attr(c) in ('asarray', '_get_local_views') and astx.path(astx.receiver(c)) == vec
                     for c in n.calls())]
        if not users:
            continue
        problem = None
        for u in users:
            if not on or g.dominated_by(u, on, labels=cfgm.noexc) is not None:
                problem = (u, f'{vec} is read outside complex-step mode: the REAL storage is used and every '
                              'imaginary part is lost (all partials zero)')
            elif any(u in g.reach(g.normal_succ(o), labels=cfgm.noexc) for o in off):
                problem = (u, f'{vec} is read after complex-step mode was switched off again')
        if problem:
            out.bad(fn, problem[0].ast, problem[1], key='views-complex-mode')
        else:
            out.ok(fn, on[0].ast, f'{vec}: views/array taken while complex mode is on')


# =========================================================================== C14.exec
@rule('C14.exec', floor=7)
def exec_sites(repo, out):
    """Every compiled expression is executed against the function table with the complex views (_exec) or the real vectors (compute); results are stored in place."""
    mod = repo.module(EC)
    want = {'ExecComp._exec': 'self._viewdict', 'ExecComp.compute': 'self._iodict'}
    for qn, loc in want.items():
        fn = F(repo, qn)
        g = cfgm.build(fn)
        calls = [(n, c) for n in g.where(lambda n: n.kind == 'stmt') for c in n.calls()
                 if isinstance(c.func, ast.Name) and c.func.id == 'exec']
        if len(calls) != 1:
            out.unsure(fn, fn.node, f'expected one exec() call, found {len(calls)}')
            continue
        n, c = calls[0]
        if len(c.args) != 3:
            out.bad(fn, n.ast, 'exec() without explicit globals and locals', key='exec-namespace')
            continue
        if astx.path(c.args[1]) != '_expr_dict':
            out.bad(fn, n.ast, f'expressions are evaluated with globals `{astx.src(c.args[1])}` instead of the '
                    'function table _expr_dict', key='exec-namespace')
            continue
        lp = astx.path(c.args[2])
        if lp != loc:
            other = [v for v in want.values() if v != loc][0]
            if lp == other and qn.endswith('_exec'):
                out.bad(fn, n.ast, '_exec evaluates on the real vectors (self._iodict): the complex perturbation '
                        'of self._inarray is never seen, all partials are zero', key='exec-namespace')
            elif lp == other:
                out.bad(fn, n.ast, 'the declared-partials path evaluates on self._viewdict, which does not exist '
                        'in that mode', key='exec-namespace')
            else:
                out.unsure(fn, n.ast, f'locals of exec() is `{lp}`')
            continue
        ls = loops_around(n.ast)
        if not (ls and isinstance(ls[0], ast.For)):
            out.unsure(fn, n.ast, 'exec() is not in a loop over self._codes')
            continue
        it = ls[0].iter
        inner = it.args[0] if isinstance(it, ast.Call) and astx.call_name(it) == 'enumerate' and it.args else it
        if astx.path(inner) != 'self._codes':
            out.bad(fn, ls[0], f'the loop runs over `{astx.src(inner)}`, not over all of self._codes',
                    key='exec-all-codes')
            continue
        code = c.args[0]
        tv = ls[0].target.elts[-1] if isinstance(ls[0].target, ast.Tuple) else ls[0].target
        if not (isinstance(code, ast.Name) and isinstance(tv, ast.Name) and code.id == tv.id):
            out.unsure(fn, n.ast, 'executed object is not the loop variable')
            continue
        skip = [s for s in astx.walk_stmts(ls[0].body) if isinstance(s, (ast.Break, ast.Continue, ast.Return))]
        if skip:
            out.bad(fn, skip[0], 'some expressions are skipped', key='exec-all-codes')
            continue
        out.ok(fn, n.ast, f'exec(code, _expr_dict, {loc}) for every code')
    # _IODict construction order
    init = repo.func(EC, '_IODict.__init__')
    params = [a.arg for a in init.node.args.args[1:]]
    sites, wrong = [], []
    for qn in ('ExecComp._setup_vectors', 'ExecComp.compute'):
        fn = F(repo, qn)
        for c in astx.calls(fn.node):
            if astx.call_name(c) != '_IODict':
                continue
            if len(c.args) != len(params) or c.keywords:
                out.unsure(fn, astx.stmt_of(c), '_IODict call shape not recognised')
                continue
            names = [(astx.path(a) or '').split('.')[-1].lstrip('_') for a in c.args]
            sites.append((fn, c))
            if names == params:
                pass
            elif sorted(names) == sorted(params):
                wrong.append((fn, c, names))
            else:
                out.unsure(fn, astx.stmt_of(c), '_IODict arguments not recognised')
    # compute() rebuilds a wrapper whose inputs are not the vector it was handed, so a single swapped site heals
    # itself (or is only reached with foreign vectors): only a consistent swap is decided as wrong
    if wrong and len(wrong) == len(sites):
        for fn, c, names in wrong:
            out.bad(fn, astx.stmt_of(c), f'_IODict expects ({", ".join(params)}) but is given ({", ".join(names)}) at '
                    'every construction site: assignments go to the input vector', key='iodict-args')
    elif wrong:
        for fn, c, names in wrong:
            out.unsure(fn, astx.stmt_of(c), f'_IODict given ({", ".join(names)}) at one of {len(sites)} sites')
    else:
        for fn, c in sites:
            out.ok(fn, astx.stmt_of(c), f'_IODict({", ".join(params)})')
    # reads hand out the complex view (or its complex scalar), never a real-valued projection
    fn = repo.func(EC, '_ViewDict.__getitem__')
    g = cfgm.build(fn)
    rd = cfgm.ReachingDefs(g)
    rets = g.where(lambda n: n.kind == 'stmt' and isinstance(n.ast, ast.Return))
    nparam = fn.node.args.args[1].arg

    def is_view(e, at):
        if not isinstance(e, ast.Name):
            return False
        ds = rd.defs(at, e.id)
        return bool(ds) and all(dn.kind == 'stmt' and isinstance(dn.ast, ast.Assign) and
                                isinstance(dn.ast.value, ast.Subscript) and
                                astx.path(dn.ast.value.value) == 'self.dct' and
                                isinstance(dn.ast.value.slice, ast.Name) and dn.ast.value.slice.id == nparam and
                                isinstance(dn.ast.targets[0], ast.Tuple) and
                                isinstance(dn.ast.targets[0].elts[0], ast.Name) and
                                dn.ast.targets[0].elts[0].id == e.id for dn in ds)

    def classify_read(e, at):
        """'ok' | 'real' | '?'"""
        if isinstance(e, ast.IfExp):
            parts = {classify_read(e.body, at), classify_read(e.orelse, at)}
            return 'real' if 'real' in parts else ('?' if '?' in parts else 'ok')
        if is_view(e, at):
            return 'ok'
        if isinstance(e, ast.Call) and isinstance(e.func, ast.Attribute) and e.func.attr == 'item' and \
                is_view(e.func.value, at) and not e.args:
            return 'ok'
        if isinstance(e, ast.Subscript) and is_view(e.value, at):
            return 'ok'
        for w in astx.walk(e):
            if isinstance(w, ast.Attribute) and w.attr == 'real' or \
                    isinstance(w, ast.Call) and astx.call_name(w) in ('float', 'np.real', 'numpy.real', 'abs', 'np.abs'):
                if any(is_view(x, at) for x in astx.walk(e)):
                    return 'real'
        return '?'
    if not rets:
        out.unsure(fn, fn.node, 'no return statement')
    for r_ in rets:
        k = classify_read(r_.ast.value, r_) if r_.ast.value is not None else '?'
        if k == 'ok':
            out.ok(fn, r_.ast, 'expressions read the complex view itself')
        elif k == 'real':
            out.bad(fn, r_.ast, 'expressions read a real-valued projection of the complex view: the complex step is '
                    'dropped and every partial is zero', key='read-real-part')
        else:
            out.unsure(fn, r_.ast, 'value handed to the expressions not recognised')
    # in-place stores
    for qn, dest in (('_ViewDict.__setitem__', None), ('_IODict.__setitem__', 'self._outputs')):
        fn = F(repo, qn)
        g = cfgm.build(fn)
        rd = cfgm.ReachingDefs(g)
        vparam = fn.node.args.args[2].arg
        nparam = fn.node.args.args[1].arg

        def derived(e, at, depth=0):
            if depth > 4:
                return False
            if isinstance(e, ast.Name):
                if e.id == vparam:
                    return True
                v, at2 = resolve(rd, at, e)
                return v is not e and derived(v, at2, depth + 1)
            if isinstance(e, ast.Call) and astx.call_name(e) in ('np.squeeze', 'numpy.squeeze', 'np.asarray',
                                                                 'np.reshape') and e.args:
                return derived(e.args[0], at, depth + 1)
            return False

        def is_store(n):
            if not (n.kind == 'stmt' and isinstance(n.ast, ast.Assign) and len(n.ast.targets) == 1):
                return False
            t = n.ast.targets[0]
            if not isinstance(t, ast.Subscript) or not derived(n.ast.value, n):
                return False
            if _full_slice(t.slice) and isinstance(t.value, ast.Name):
                # view[:] = value : the view must come from the dict entry `name`
                ds = rd.defs(n, t.value.id)
                for dn in ds:
                    if not (dn.kind == 'stmt' and isinstance(dn.ast, ast.Assign)):
                        return False
                    v = dn.ast.value
                    if not (isinstance(v, ast.Subscript) and isinstance(v.slice, ast.Name) and v.slice.id == nparam):
                        return False
                return bool(ds)
            if isinstance(t.slice, ast.Name) and t.slice.id == nparam and dest and astx.path(t.value) == dest:
                return True
            return False
        stores = g.where(is_store)
        rebind = [n for n in g.where(lambda n: n.kind == 'stmt' and isinstance(n.ast, ast.Assign)
                                     and len(n.ast.targets) == 1 and isinstance(n.ast.targets[0], ast.Name))
                  if derived(n.ast.value, n) and isinstance(n.ast.value, ast.Name) and n.ast.value.id == vparam]
        w = g.path([g.entry], [g.exit], avoid=stores, labels=cfgm.noexc)
        if rebind and w is not None:
            out.bad(fn, rebind[0].ast, f'`{astx.src(rebind[0].ast)}` rebinds a local name: the array the outputs '
                    'live in is not written', key='store-in-place')
        elif w is not None:
            out.bad(fn, fn.node, 'an assignment in an expression can complete without writing the value into the '
                    'output array: ' + g.fmt_path(w), key='store-in-place')
        else:
            out.ok(fn, stores[0].ast, 'every normal path stores the value in place under the assigned name')


# =========================================================================== C14.manual-flag
# who may write self._manual_decl_partials (True = ExecComp neither declares nor complex-steps its partials)
MANUAL_WRITERS = {
    ('ExecComp.__init__', False): 'initial state: ExecComp declares and computes its own partials',
    ('ExecComp.declare_partials', True): 'user declared partials (method cs/fd): framework approximation takes over',
    ('ExecComp.declare_coloring', True): 'user declared a coloring: framework approximation takes over',
    ('ExecComp._setup_partials', False): 'undo of the flag set by the internal super().declare_coloring call',
    ('ExecComp._setup_vectors', True): 'only under `not self._use_derivatives` (no partials are computed in that setup). '
                                       'NOTE: never reset, so a later setup() WITH derivatives keeps it -- observed '
                                       'defect outside the quantifier of C14 (needs two setups), see final report',
}


@rule('C14.manual-flag', floor=4)
def manual_flag(repo, out):
    """Only the tabled sites write _manual_decl_partials; the internal writer in _setup_vectors is confined to set-ups without derivatives."""
    mod = repo.module(EC)
    for qn, f in mod.funcs.items():
        for st in astx.walk_stmts(f.node.body):
            if not isinstance(st, (ast.Assign, ast.AugAssign, ast.AnnAssign)):
                continue
            if not any(isinstance(t, ast.Attribute) and t.attr == '_manual_decl_partials' for t in astx.assigned_targets(st)):
                continue
            v = st.value if isinstance(st, ast.Assign) else None
            if not (isinstance(v, ast.Constant) and isinstance(v.value, bool)):
                out.unsure(f, st, 'non-literal value written to _manual_decl_partials')
                continue
            if (qn, v.value) not in MANUAL_WRITERS:
                if v.value:
                    out.bad(f, st, f'{qn} switches ExecComp to "partials declared manually" although the user declared '
                            'nothing: the declaration loop of _setup_partials and compute_partials are skipped and every '
                            'partial is zero', key='manual-flag-writer')
                else:
                    out.bad(f, st, f'{qn} clears the "partials declared manually" flag outside the tabled sites: a user '
                            'declaration (fd/cs) is overridden by the internal complex step', key='manual-flag-writer')
                continue
            if qn == 'ExecComp._setup_vectors':
                conds = [a for a in astx.ancestors(st) if isinstance(a, ast.If)]
                okg = False
                for c in conds:
                    t = c.test
                    neg = isinstance(t, ast.UnaryOp) and isinstance(t.op, ast.Not) and \
                        astx.path(t.operand) == 'self._use_derivatives'
                    pos = astx.path(t) == 'self._use_derivatives'
                    inb = astx.in_body(st, c, 'body')
                    if (neg and inb) or (pos and not inb):
                        okg = True
                    elif neg or pos:
                        okg = 'inverted'
                if okg is True:
                    out.ok(f, st, MANUAL_WRITERS[(qn, v.value)][:60])
                elif okg == 'inverted' or not conds:
                    out.bad(f, st, 'ExecComp marks its partials as manually declared whenever derivatives ARE in use: it '
                            'neither declares nor computes them, all partials are zero', key='manual-flag-unguarded')
                else:
                    out.unsure(f, st, 'guard of the internal writer not recognised')
                continue
            out.ok(f, st, MANUAL_WRITERS[(qn, v.value)][:60])


# =========================================================================== C14.table
# numpy callables whose complex version is not the analytic continuation of the real function: the complex
# step through them is wrong (silently) or fails.  They may only enter the table through cs_safe.
NONANALYTIC = {'abs': 'modulus: imag part 0 -> derivative 0', 'absolute': 'modulus', 'fabs': 'no complex loop',
               'arctan2': 'no complex loop', 'sign': 'z/|z| for complex', 'vdot': 'conjugates its first argument',
               'conj': 'conjugation', 'conjugate': 'conjugation', 'real': 'drops the step', 'imag': 'drops the value',
               'angle': 'phase', 'hypot': 'no complex loop', 'floor': 'no complex loop', 'ceil': 'no complex loop',
               'norm': 'uses the modulus', 'heaviside': 'no complex loop', 'copysign': 'no complex loop'}
ALIASES = {'arcsin': 'asin', 'arccos': 'acos', 'arctan': 'atan', 'arcsinh': 'asinh', 'arccosh': 'acosh',
           'arctanh': 'atanh'}


@rule('C14.table', floor=8)
def table(repo, out):
    """No non-analytic numpy/scipy function enters _expr_dict unwrapped (abs and arctan2 come from cs_safe); aliases name the same function."""
    mod = repo.module(EC)
    final = {}   # name -> (source string, stmt)
    n_imports = 0
    stmts = []
    for st in mod.tree.body:
        stmts.append(st)
        if isinstance(st, ast.Try):
            stmts.extend(st.orelse)
            stmts.extend(st.body)
    for st in stmts:
        if isinstance(st, ast.Expr) and isinstance(st.value, ast.Call) and astx.call_name(st.value) == '_import_functs':
            c = st.value
            src = astx.path(c.args[0]) if c.args else None
            if len(c.args) < 2 or astx.path(c.args[1]) != '_expr_dict':
                continue
            names = astx.kwarg(c, 'names') or (c.args[2] if len(c.args) > 2 else None)
            if not isinstance(names, (ast.List, ast.Tuple)):
                out.unsure(EC, st, 'function names are not a literal list (whole module imported?)')
                continue
            n_imports += 1
            for e in names.elts:
                if astx.const_str(e) is not None:
                    final[e.value] = (f'{src}.{e.value}', st)
                elif isinstance(e, ast.Tuple) and len(e.elts) == 2 and all(astx.const_str(x) for x in e.elts):
                    nm, al = e.elts[0].value, e.elts[1].value
                    final[nm] = (f'{src}.{nm}', st)
                    final[al] = (f'{src}.{nm}', st)
                    if ALIASES.get(nm) == al:
                        out.ok(EC, st, f'alias {al} = {nm}')
                    elif al in ALIASES.values() or al in ALIASES or nm in ALIASES:
                        out.bad(EC, st, f"alias '{al}' is bound to {src}.{nm}: expressions using {al}() evaluate "
                                f"{nm}()", key=f'alias:{al}')
                    else:
                        out.unsure(EC, st, f'alias pair ({nm}, {al}) is not in the frozen alias table')
                else:
                    out.unsure(EC, st, 'entry of the names list not recognised')
        elif isinstance(st, ast.Assign) and len(st.targets) == 1 and isinstance(st.targets[0], ast.Subscript) and \
                astx.path(st.targets[0].value) == '_expr_dict' and astx.const_str(st.targets[0].slice):
            final[st.targets[0].slice.value] = (astx.path(st.value) or astx.src(st.value), st)
    if not n_imports:
        raise AnalysisError('no _import_functs(<module>, _expr_dict, names=[...]) call found')
    out.count('table_entries', len(final))
    nbad = 0
    for nm, (src, st) in sorted(final.items()):
        base = src.rsplit('.', 1)[-1]
        if nm in NONANALYTIC or base in NONANALYTIC:
            key = nm if nm in NONANALYTIC else base
            if src.startswith('cs_safe.'):
                if base == nm:
                    out.ok(EC, st, f"'{nm}' comes from cs_safe")
                else:
                    out.bad(EC, st, f"'{nm}' is bound to {src}", key=f'table:{nm}')
                    nbad += 1
            elif src.startswith(('np.', 'numpy.', 'scipy.')):
                out.bad(EC, st, f"'{nm}' is bound to {src}, which is not complex-analytic ({NONANALYTIC[key]}): "
                        'complex-step partials of expressions using it are wrong', key=f'table:{nm}')
                nbad += 1
            else:
                out.unsure(EC, st, f"'{nm}' is bound to {src}")
    for need in ('abs', 'arctan2'):
        if need not in final:
            out.unsure(EC, None, f"'{need}' is no longer in the function table")
    if not nbad:
        out.ok(EC, mod.tree.body[0], f'{len(final)} table entries: none of the non-analytic functions is bound to '
               'numpy/scipy directly')


# =========================================================================== self-test
_DECL_BLOCK = '''            for outs, vs, _ in self._exprs_info:
                ins = sorted(set(vs).difference(outs))
                for out in sorted(outs):
                    for inp in ins:
                        if has_diag_partials:
                            ival = nodes[('i', self.pathname + '.' + inp)]['attrs'].val
                            oval = nodes[('o', self.pathname + '.' + out)]['attrs'].val
                            iarray = isinstance(ival, ndarray) and ival.size > 1
                            if iarray and isinstance(oval, ndarray) and oval.size > 1:
                                if oval.size != ival.size:
                                    raise RuntimeError(
                                        "%s: has_diag_partials is True but partial(%s, %s) "
                                        "is not square (shape=(%d, %d))." %
                                        (self.msginfo, out, inp, oval.size, ival.size))
                                # partial will be declared as diagonal
                                decl_partials(of=out, wrt=inp, diagonal=True)
                            else:
                                decl_partials(of=out, wrt=inp)
                        else:
                            decl_partials(of=out, wrt=inp)
'''
_DECL_BLOCK_COND = "            if self.options['do_coloring']:\n" + \
    ''.join('    ' + ln + '\n' for ln in _DECL_BLOCK.splitlines())
_RAISE = '''                                if oval.size != ival.size:
                                    raise RuntimeError(
                                        "%s: has_diag_partials is True but partial(%s, %s) "
                                        "is not square (shape=(%d, %d))." %
                                        (self.msginfo, out, inp, oval.size, ival.size))
'''

selftest(
    'C14',
    # ---- perturb
    Mutant('perturb-whole-no-restore', EC, '                # restore old input value\n                ival -= step\n', '',
           'C14.perturb'),
    Mutant('perturb-restore-other-element', EC, '                    ival[idx] -= step', '                    ival[i] -= step',
           'C14.perturb'),
    Mutant('perturb-colored-double-add', EC, '            inarr[icols] -= step', '            inarr[icols] += step',
           'C14.perturb'),
    Mutant('perturb-colored-restore-before-exec', EC,
           '            inarr[icols] += step\n\n            # solve with complex input value\n            self._exec()\n',
           '            inarr[icols] += step\n            inarr[icols] -= step\n\n            self._exec()\n'
           '            inarr[icols] += step\n', 'C14.perturb'),
    Mutant('perturb-real-step', EC, '                    ival[idx] += step\n', '                    ival[idx] += inv_stepsize\n',
           'C14.perturb'),
    # ---- extract
    Mutant('extract-scale-not-inverted', EC, '        inv_stepsize = 1.0 / self.complex_stepsize',
           '        inv_stepsize = self.complex_stepsize', 'C14.extract', nth=2),
    Mutant('extract-real-part', EC, 'partials[u, inp] = imag(subval * inv_stepsize).ravel()',
           'partials[u, inp] = (subval * inv_stepsize).real.ravel()', 'C14.extract'),
    Mutant('extract-no-imag', EC, 'partials[u, inp][:, i] = imag(subval * inv_stepsize).flat',
           'partials[u, inp][:, i] = (subval * inv_stepsize).flat', 'C14.extract'),
    Mutant('extract-colored-times-h', EC, '            imag_oar = imag(oarr * inv_stepsize)',
           '            imag_oar = imag(oarr) * self.complex_stepsize', 'C14.extract'),
    Mutant('extract-before-exec', EC,
           '                self._exec()\n                jac.set_col(self, i, imag(oarr * inv_stepsize))\n',
           '                jac.set_col(self, i, imag(oarr * inv_stepsize))\n                self._exec()\n', 'C14.extract'),
    Mutant('extract-from-inputs', EC, '        oarr = self._outarray\n        out_names',
           '        oarr = self._inarray\n        out_names', 'C14.extract'),
    Mutant('extract-after-restore', EC,
           '            imag_oar = imag(oarr * inv_stepsize)\n            scratch[:] = 0.\n',
           '            inarr[icols] -= step\n            self._exec()\n            imag_oar = imag(oarr * inv_stepsize)\n'
           '            scratch[:] = 0.\n            inarr[icols] += step\n', ['C14.extract', 'C14.perturb']),
    # ---- slot
    Mutant('slot-key-swapped', EC,
           '                        if (u, inp) in partials:\n                            # set the column in the Jacobian entry\n'
           '                            subval, subval_is_scalar = vdict[u]\n                            if subval_is_scalar:\n'
           '                                partials[u, inp][:, i] = imag(subval * inv_stepsize)\n                            else:\n'
           '                                partials[u, inp][:, i] = imag(subval * inv_stepsize).flat',
           '                        if (inp, u) in partials:\n                            # set the column in the Jacobian entry\n'
           '                            subval, subval_is_scalar = vdict[u]\n                            if subval_is_scalar:\n'
           '                                partials[inp, u][:, i] = imag(subval * inv_stepsize)\n                            else:\n'
           '                                partials[inp, u][:, i] = imag(subval * inv_stepsize).flat', 'C14.slot'),
    Mutant('slot-row-instead-of-column', EC, 'partials[u, inp][:, i] = imag(subval * inv_stepsize).flat',
           'partials[u, inp][i, :] = imag(subval * inv_stepsize).flat', 'C14.slot'),
    Mutant('slot-colored-key-swapped', EC, '                    key = (out_name, in_name)', '                    key = (in_name, out_name)',
           'C14.slot'),
    Mutant('slot-colored-global-column', EC, 'loc_i = icol - in_slices[in_name].start', 'loc_i = icol', 'C14.slot'),
    Mutant('slot-colored-plus-start', EC, 'loc_i = icol - in_slices[in_name].start', 'loc_i = icol + in_slices[in_name].start',
           'C14.slot'),
    Mutant('slot-colored-zip-order', EC, 'for icol, rows in zip(icols, nzrowlists):', 'for icol, rows in zip(nzrowlists, icols):',
           'C14.slot'),
    Mutant('slot-colored-direction', EC, "color_nonzero_iter('fwd')", "color_nonzero_iter('rev')", 'C14.slot'),
    Mutant('slot-colored-scratch-leak', EC, '                        partials[key][:, loc_i] = part\n                        part[:] = 0.\n',
           '                        partials[key][:, loc_i] = part\n', 'C14.slot'),
    Mutant('slot-in-slices-from-outputs', EC,
           'self._in_slices = {n[plen:]: slice(start, stop) for n, start, stop in self._inputs.ranges()}',
           'self._in_slices = {n[plen:]: slice(start, stop) for n, start, stop in self._outputs.ranges()}', 'C14.slot'),
    Mutant('slot-idx2name-from-outputs', EC, '        for name, start, stop in self._inputs.ranges():\n            name = name[plen:]',
           '        for name, start, stop in self._outputs.ranges():\n            name = name[plen:]', 'C14.slot'),
    Mutant('slot-of-names-inputs', EC, "        out_names = self._var_rel_names['output']\n        inv_stepsize",
           "        out_names = self._var_rel_names['input']\n        inv_stepsize", 'C14.slot'),
    Mutant('slot-value-of-input-view', EC, '                        subval, subval_is_scalar = vdict[u]\n                        if psize > 1',
           '                        subval, subval_is_scalar = vdict[inp]\n                        if psize > 1', 'C14.slot'),
    Mutant('slot-colored-part-of-input', EC, 'part = scratch[out_slices[out_name]]', 'part = scratch[in_slices[in_name]]',
           ['C14.slot']),
    # ---- declare
    Mutant('declare-wrt-set-reversed', EC, '                ins = sorted(set(vs).difference(outs))\n                for out in sorted(outs):\n                    for inp in ins:\n                        if has_diag',
           '                ins = sorted(set(outs).difference(vs))\n                for out in sorted(outs):\n                    for inp in ins:\n                        if has_diag', 'C14.declare'),
    Mutant('declare-of-wrt-swapped', EC, '                            decl_partials(of=out, wrt=inp)\n\n        super()._setup_partials()',
           '                            decl_partials(of=inp, wrt=out)\n\n        super()._setup_partials()', 'C14.declare'),
    Mutant('declare-filter-continue', EC, '                    for inp in ins:\n                        if has_diag_partials:',
           "                    for inp in ins:\n                        if inp.startswith('_'):\n                            continue\n"
           '                        if has_diag_partials:', 'C14.declare'),
    Mutant('declare-only-when-coloring', EC, _DECL_BLOCK, _DECL_BLOCK_COND, 'C14.declare'),
    Mutant('declare-after-resolution', EC,
           "        has_diag_partials = self.options['has_diag_partials']\n        if not self._manual_decl_partials:",
           "        has_diag_partials = self.options['has_diag_partials']\n        super()._setup_partials()\n"
           "        if not self._manual_decl_partials:", 'C14.declare',
           also=[(EC, '                            decl_partials(of=out, wrt=inp)\n\n        super()._setup_partials()\n',
                  '                            decl_partials(of=out, wrt=inp)\n\n')]),
    # ---- diag
    Mutant('diag-guard-size-only', EC, '            if has_diag_partials or psize == 1:', '            if psize == 1:', 'C14.diag'),
    Mutant('diag-guard-ge', EC, '            if has_diag_partials or psize == 1:', '            if has_diag_partials or psize >= 1:',
           'C14.diag'),
    Mutant('diag-declared-dense', EC, 'decl_partials(of=out, wrt=inp, diagonal=True)', 'decl_partials(of=out, wrt=inp)', 'C14.diag'),
    Mutant('diag-declared-always', EC, '                            else:\n                                decl_partials(of=out, wrt=inp)\n',
           '                            else:\n                                decl_partials(of=out, wrt=inp, diagonal=True)\n', 'C14.diag'),
    # ---- sync
    Mutant('sync-rebinds-local', EC, '        inarr[:] = self._inputs.asarray(copy=False)\n\n        for inp, (ival, _)',
           '        inarr = self._inputs.asarray(copy=False)\n\n        for inp, (ival, _)', 'C14.sync'),
    Mutant('sync-colored-missing', EC, '        inarr[:] = self._inputs.asarray(copy=False)\n        scratch', '        scratch', 'C14.sync'),
    Mutant('sync-compute-copy-dest', EC, '                outs = outputs.asarray(copy=False)', '                outs = outputs.asarray(copy=True)',
           'C14.sync'),
    Mutant('sync-compute-no-input-copy', EC, '                self._inarray[:] = self._inputs.asarray(copy=False)\n                self._exec()',
           '                self._exec()', 'C14.sync'),
    Mutant('sync-compute-back-before-exec', EC,
           '                self._exec()\n                outs = outputs.asarray(copy=False)\n                if outs.dtype.kind == self._outarray.dtype.kind:\n'
           '                    outs[:] = self._outarray\n                else:\n                    outs[:] = self._outarray.real\n',
           '                outs = outputs.asarray(copy=False)\n                if outs.dtype.kind == self._outarray.dtype.kind:\n'
           '                    outs[:] = self._outarray\n                else:\n                    outs[:] = self._outarray.real\n'
           '                self._exec()\n', 'C14.sync'),
    # ---- coloring
    Mutant('coloring-snapshot-is-view', EC, 'copy=not self._relcopy', 'copy=self._relcopy', 'C14.coloring'),
    Mutant('coloring-offsets-alias', EC, 'in_offsets = starting_inputs.copy()', 'in_offsets = starting_inputs', 'C14.coloring'),
    Mutant('coloring-loop-over-outputs', EC, '            for i in range(inarr.size):', '            for i in range(oarr.size):',
           'C14.coloring'),
    Mutant('coloring-restore-wrong-mode', EC, '        if not self._relcopy:\n            self._inputs.set_val(starting_inputs)',
           '        if self._relcopy:\n            self._inputs.set_val(starting_inputs)', 'C14.coloring'),
    Mutant('coloring-no-restore', EC, '        if not self._relcopy:\n            self._inputs.set_val(starting_inputs)\n', '',
           'C14.coloring'),
    # ---- views
    Mutant('views-relcopy-not-set', EC, '                self._relcopy = True\n', '', 'C14.views'),
    Mutant('views-inputs-into-outarray', EC, 'self._indict = self._inputs._get_local_views(self._inarray)',
           'self._indict = self._inputs._get_local_views(self._outarray)', 'C14.views'),
    Mutant('views-outputs-real-storage', EC, '                self._outputs.set_complex_step_mode(True)\n', '', 'C14.views'),
    Mutant('views-outdict-of-inputs', EC, '                outdict = self._outputs._get_local_views()', '                outdict = self._inputs._get_local_views()',
           'C14.views'),
    Mutant('views-real-outarray', EC, 'self._outarray = np.zeros(len(self._outputs), dtype=complex)',
           'self._outarray = np.zeros(len(self._outputs), dtype=float)', 'C14.views'),
    # ---- exec
    Mutant('exec-on-real-vectors', EC, 'exec(expr, _expr_dict, self._viewdict)', 'exec(expr, _expr_dict, self._iodict)', 'C14.exec'),
    Mutant('exec-store-rebinds', EC, '        val, _ = self.dct[name]\n        try:\n            val[:] = value\n',
           '        val, _ = self.dct[name]\n        try:\n            val = value\n', 'C14.exec'),
    Mutant('exec-iodict-args-swapped', EC, 'self._iodict = _IODict(self._outputs, self._inputs, self._constants)',
           'self._iodict = _IODict(self._inputs, self._outputs, self._constants)', 'C14.exec',
           also=[(EC, 'self._iodict = _IODict(outputs, inputs, self._constants)',
                  'self._iodict = _IODict(inputs, outputs, self._constants)')]),
    Mutant('exec-read-real-part', EC, '        return val.item() if is_scalar else val', '        return val.real.item() if is_scalar else val.real',
           'C14.exec'),
    Mutant('slot-coloring-computed-rev', EC, "coloring = _compute_coloring(sparsity, 'fwd')", "coloring = _compute_coloring(sparsity, 'rev')",
           'C14.slot'),
    Mutant('slot-scratch-uninitialised', EC, "            imag_oar = imag(oarr * inv_stepsize)\n            scratch[:] = 0.\n",
           "            imag_oar = imag(oarr * inv_stepsize)\n", 'C14.slot'),
    Mutant('exec-first-code-only', EC, '        for i, expr in enumerate(self._codes):\n            try:\n                exec(expr, _expr_dict, self._viewdict)',
           '        for i, expr in enumerate(self._codes[:1]):\n            try:\n                exec(expr, _expr_dict, self._viewdict)', 'C14.exec'),
    # ---- table
    Mutant('table-numpy-abs', EC, "_expr_dict['abs'] = cs_safe.abs", "_expr_dict['abs'] = np.abs", 'C14.table'),
    Mutant('table-alias-mixup', EC, "('arccos', 'acos')", "('arccos', 'asin')", 'C14.table'),
    Mutant('table-sign-added', EC, "'log', 'log10', 'log1p', 'power',  # Math operations",
           "'log', 'log10', 'log1p', 'power', 'sign',  # Math operations", 'C14.table'),
    Mutant('table-abs-from-numpy-list', EC, "'exp', 'expm1', 'fmax', 'min', 'max', 'diff',", "'exp', 'expm1', 'fmax', 'min', 'max', 'diff', 'abs',",
           'C14.table', also=[(EC, "_expr_dict['abs'] = cs_safe.abs\n", '')]),
    # ---- twins
    Twin('twin-rename-view', EC, 'ival', 'vw', nth='all'),
    Twin('twin-flip-guard', EC, '            if has_diag_partials or psize == 1:', '            if 1 == psize or has_diag_partials:'),
    Twin('twin-extracted-temporary', EC, '                            partials[u, inp] = imag(subval * inv_stepsize)\n',
         '                            tmp = subval * inv_stepsize\n                            partials[u, inp] = imag(tmp)\n'),
    Twin('twin-reorder-independent', EC,
         "        step = self.complex_stepsize * 1j\n        out_names = self._var_rel_names['output']\n        inv_stepsize = 1.0 / self.complex_stepsize\n",
         "        inv_stepsize = 1.0 / self.complex_stepsize\n        out_names = self._var_rel_names['output']\n        step = 1j * self.complex_stepsize\n"),
    Twin('twin-divide-by-h', EC, '            imag_oar = imag(oarr * inv_stepsize)', '            imag_oar = imag(oarr / self.complex_stepsize)'),
    Twin('twin-imag-attribute', EC, '            imag_oar = imag(oarr * inv_stepsize)', '            imag_oar = (oarr * inv_stepsize).imag'),
    Twin('twin-set-minus', EC, '                ins = sorted(set(vs).difference(outs))\n                for out in sorted(outs):\n                    for inp in ins:\n                        if has_diag',
         '                ins = sorted(set(vs) - set(outs))\n                for out in sorted(outs):\n                    for inp in ins:\n                        if has_diag'),
    Twin('twin-flip-size-compare', EC, 'if iarray and isinstance(oval, ndarray) and oval.size > 1:',
         'if iarray and isinstance(oval, ndarray) and 1 < oval.size:'),
    Twin('twin-zip-swapped-consistently', EC, 'for icol, rows in zip(icols, nzrowlists):', 'for rows, icol in zip(nzrowlists, icols):'),
    Twin('twin-restore-guard-flipped', EC, '        if not self._relcopy:\n            self._inputs.set_val(starting_inputs)\n',
         '        if self._relcopy:\n            pass\n        else:\n            self._inputs.set_val(starting_inputs)\n'),
    Twin('twin-snapshot-always-copy', EC, 'copy=not self._relcopy', 'copy=True'),
)

# the pre-fix shape of the has_diag_partials / size-1 output defect (applicable once compute_partials defers such
# outputs to a per-element pass; inapplicable on a tree that still has the defect, where C14.diag fires directly)
selftest(
    'C14',
    Mutant('diag-scalar-output-defect', EC, 'if psize > 1 and subval.size == 1:', 'if psize > 1 and subval.size == 0:',
           'C14.diag'),
)

_WHOLE = '''                # set a complex inpup value
                ival += step

                # solve with complex input value
                self._exec()

                by_column = []
                for u in out_names:
                    if (u, inp) in partials:
                        subval, subval_is_scalar = vdict[u]
                        if psize > 1 and subval.size == 1:
                            # (size-1 output, array input) is declared dense even with has_diag_partials,
                            # so it needs one perturbation per input element (done below).
                            by_column.append(u)
                        elif subval_is_scalar:
                            partials[u, inp] = imag(subval * inv_stepsize)
                        else:
                            partials[u, inp] = imag(subval * inv_stepsize).ravel()

                # restore old input value
                ival -= step

                if by_column:
                    for i, idx in enumerate(array_idx_iter(ival.shape)):
                        ival[idx] += step
                        self._exec()
                        for u in by_column:
                            subval, _ = vdict[u]
                            partials[u, inp][:, i] = imag(subval * inv_stepsize).ravel()
                        ival[idx] -= step
'''
_ELEM = '''                for i, idx in enumerate(array_idx_iter(ival.shape)):
                    # set a complex input value
                    ival[idx] += step

                    # solve with complex input value
                    self._exec()

                    for u in out_names:
                        if (u, inp) in partials:
                            # set the column in the Jacobian entry
                            subval, subval_is_scalar = vdict[u]
                            if subval_is_scalar:
                                partials[u, inp][:, i] = imag(subval * inv_stepsize)
                            else:
                                partials[u, inp][:, i] = imag(subval * inv_stepsize).flat

                    # restore old input value
                    ival[idx] -= step
'''
_RELCOPY = '''            if self._relcopy:
                self._inarray[:] = self._inputs.asarray(copy=False)
                self._exec()
                outs = outputs.asarray(copy=False)
                if outs.dtype.kind == self._outarray.dtype.kind:
                    outs[:] = self._outarray
                else:
                    outs[:] = self._outarray.real
            else:
                self._exec()
'''
_RELCOPY_FLIPPED = '''            if not self._relcopy:
                self._exec()
            else:
                self._inarray[:] = inputs.asarray()
                self._exec()
                outs = outputs.asarray(copy=False)
                if outs.dtype.kind == self._outarray.dtype.kind:
                    outs[:] = self._outarray
                else:
                    outs[:] = self._outarray.real
'''

selftest(
    'C14',
    Twin('twin-branches-flipped', EC,
         '            if has_diag_partials or psize == 1:\n' + _WHOLE + '            else:\n' + _ELEM,
         '            if not (has_diag_partials or psize == 1):\n' + _ELEM + '            else:\n' + _WHOLE),
    Twin('twin-compute-branches-flipped', EC, _RELCOPY, _RELCOPY_FLIPPED),
    Twin('twin-inline-out-names', EC, '                for u in out_names:\n                    if (u, inp) in partials:\n                        subval',
         "                for u in self._var_rel_names['output']:\n                    if (u, inp) in partials:\n                        subval"),
    Twin('twin-step-inlined', EC, '            inarr[icols] += step\n', '            inarr[icols] += self.complex_stepsize * 1j\n',
         also=[(EC, '            inarr[icols] -= step\n', '            inarr[icols] -= self.complex_stepsize * 1j\n')]),
    Twin('twin-scratch-cleared-by-rows', EC, '                        part[:] = 0.\n', '                        part[:] = 0.0\n'),
    Twin('twin-decl-positional', EC, '                                decl_partials(of=out, wrt=inp, diagonal=True)',
         '                                decl_partials(out, inp, diagonal=True)'),
)


# ---- robustness round: idiom classes accepted after behaviour-preserving refactors (benign/C14_1..3)
_DECL_GUARD_CLAUSES = '''            for outs, vs, _ in self._exprs_info:
                ins = sorted(set(vs).difference(outs))
                for out in sorted(outs):
                    for inp in ins:
                        if not has_diag_partials:
                            decl_partials(of=out, wrt=inp)
                            continue

                        ival = nodes[('i', self.pathname + '.' + inp)]['attrs'].val
                        oval = nodes[('o', self.pathname + '.' + out)]['attrs'].val
                        iarray = isinstance(ival, ndarray) and ival.size > 1
                        if not (iarray and isinstance(oval, ndarray) and oval.size > 1):
                            decl_partials(of=out, wrt=inp)
                            continue

                        if oval.size != ival.size:
                            raise RuntimeError(
                                "%s: has_diag_partials is True but partial(%s, %s) "
                                "is not square (shape=(%d, %d))." %
                                (self.msginfo, out, inp, oval.size, ival.size))
                        # partial will be declared as diagonal
                        decl_partials(of=out, wrt=inp, diagonal=True)
'''
_ELEM_STORES = '''                        if (u, inp) in partials:
                            # set the column in the Jacobian entry
                            subval, subval_is_scalar = vdict[u]
                            if subval_is_scalar:
                                partials[u, inp][:, i] = imag(subval * inv_stepsize)
                            else:
                                partials[u, inp][:, i] = imag(subval * inv_stepsize).flat
'''
_ELEM_STORES_HOISTED = '''                        key = (u, inp)
                        if key not in partials:
                            continue
                        # set the column in the Jacobian entry
                        subval, subval_is_scalar = vdict[u]
                        if not subval_is_scalar:
                            partials[key][:, i] = imag(subval * inv_stepsize).flat
                        else:
                            partials[key][:, i] = imag(subval * inv_stepsize)
'''

selftest(
    'C14',
    # guard clauses with `continue` after each declaration, De Morgan on the array/array test
    Twin('twin-declare-guard-clauses', EC, _DECL_BLOCK, _DECL_GUARD_CLAUSES),
    # ... but a guard clause that continues WITHOUT declaring is still a filter
    Mutant('declare-guard-clause-without-declaration', EC, _DECL_BLOCK,
           _DECL_GUARD_CLAUSES.replace('                        if not has_diag_partials:\n                            decl_partials(of=out, wrt=inp)\n',
                                       '                        if not has_diag_partials:\n'), 'C14.declare'),
    Mutant('declare-break-after-declaration', EC, _DECL_BLOCK,
           _DECL_GUARD_CLAUSES.replace('decl_partials(of=out, wrt=inp)\n                            continue\n\n                        ival',
                                       'decl_partials(of=out, wrt=inp)\n                            break\n\n                        ival'),
           'C14.declare'),
    Mutant('declare-skip-output', EC, '                for out in sorted(outs):\n                    for inp in ins:\n                        if has_diag',
           "                for out in sorted(outs):\n                    if out.startswith('_'):\n                        continue\n"
           '                    for inp in ins:\n                        if has_diag', 'C14.declare'),
    # key hoisted into a local, membership test as early continue, scalar branches swapped
    Twin('twin-key-hoisted-early-continue', EC, _ELEM_STORES, _ELEM_STORES_HOISTED),
    Mutant('slot-hoisted-key-swapped', EC, _ELEM_STORES, _ELEM_STORES_HOISTED.replace('key = (u, inp)', 'key = (inp, u)'),
           'C14.slot'),
    Mutant('slot-hoisted-guard-other-key', EC, _ELEM_STORES,
           _ELEM_STORES_HOISTED.replace('if key not in partials:', 'if (inp, u) not in partials:'), 'C14.slot'),
    # colored store behind an early continue; renamed sparsity loop variables
    Twin('twin-colored-early-continue', EC,
         '                    if key in partials:\n                        # set the column in the Jacobian entry\n'
         '                        part = scratch[out_slices[out_name]]\n                        partials[key][:, loc_i] = part\n'
         '                        part[:] = 0.\n',
         '                    if key not in partials:\n                        continue\n'
         '                    part = scratch[out_slices[out_name]]\n                    partials[key][:, loc_i] = part\n'
         '                    part[:] = 0.\n'),
    Twin('twin-sparsity-loop-renamed', EC,
         '            for i in range(inarr.size):\n                inarr[i] += step\n                self._exec()\n'
         '                jac.set_col(self, i, imag(oarr * inv_stepsize))\n                inarr[i] -= step\n',
         '            for jcol in range(inarr.size):\n                inarr[jcol] += step\n                self._exec()\n'
         '                jac.set_col(self, jcol, imag(oarr * inv_stepsize))\n                inarr[jcol] -= step\n'),
)


selftest(
    'C14',
    # seeds of the seeding round, as permanent mutants
    Mutant('coloring-zero-inputs-not-moved', EC,
           "        in_offsets = starting_inputs.copy()\n        in_offsets[in_offsets == 0.0] = 1.0\n        in_offsets *= info['perturb_size']\n",
           "        in_offsets = starting_inputs * info['perturb_size']\n", 'C14.coloring'),
    Mutant('coloring-zero-replacement-dropped', EC, '        in_offsets[in_offsets == 0.0] = 1.0\n', '', 'C14.coloring'),
    Twin('twin-offsets-np-where', EC,
         "        in_offsets = starting_inputs.copy()\n        in_offsets[in_offsets == 0.0] = 1.0\n        in_offsets *= info['perturb_size']\n",
         "        in_offsets = np.where(starting_inputs == 0.0, 1.0, starting_inputs) * info['perturb_size']\n"),
    Mutant('diag-rejects-same-size-other-shape', EC, '                                if oval.size != ival.size:',
           '                                if oval.shape != ival.shape:', 'C14.diag'),
    Mutant('diag-rejects-size-1-output', EC, 'if iarray and isinstance(oval, ndarray) and oval.size > 1:',
           'if iarray and isinstance(oval, ndarray) and oval.size >= 1:', 'C14.diag'),
    Mutant('slot-scalar-output-whole-store', EC, '                                partials[u, inp][:, i] = imag(subval * inv_stepsize)\n',
           '                                partials[u, inp] = imag(subval * inv_stepsize)\n', 'C14.slot'),
)


# ---- round-2 seeds as permanent mutants; C14.manual-flag
_FIX_VEC_OLD = """        if not self._use_derivatives:
            self._manual_decl_partials = True  # prevents attempts to use _viewdict in compute

        self._iodict = _IODict(self._outputs, self._inputs, self._constants)

        self._relcopy = False

        if not self._manual_decl_partials:
"""
_FIX_VEC_NEW = """        self._iodict = _IODict(self._outputs, self._inputs, self._constants)

        self._relcopy = False
        self._viewdict = None

        if self._use_derivatives and not self._manual_decl_partials:
"""
selftest(
    'C14',
    Mutant('perturb-deferred-pass-restores-last-only', EC,
           '                            partials[u, inp][:, i] = imag(subval * inv_stepsize).ravel()\n                        ival[idx] -= step\n',
           '                            partials[u, inp][:, i] = imag(subval * inv_stepsize).ravel()\n                    ival[idx] -= step\n',
           'C14.perturb'),
    Mutant('sync-colored-real-part-only', EC, '        inarr[:] = self._inputs.asarray(copy=False)\n        scratch',
           '        inarr.real[:] = self._inputs.asarray(copy=False)\n        scratch', 'C14.sync'),
    Mutant('manual-flag-new-writer', EC, '                        self._manual_decl_partials = False  # this gets reset in declare_partials',
           '                        self._manual_decl_partials = True  # this gets reset in declare_partials', 'C14.manual-flag'),
    Mutant('manual-flag-guard-inverted', EC, '        if not self._use_derivatives:\n            self._manual_decl_partials = True',
           '        if self._use_derivatives:\n            self._manual_decl_partials = True', 'C14.manual-flag'),
    Mutant('manual-flag-unguarded', EC, '        if not self._use_derivatives:\n            self._manual_decl_partials = True',
           '        self._manual_decl_partials = True', 'C14.manual-flag'),
    Twin('twin-manual-flag-else-branch', EC, '        if not self._use_derivatives:\n            self._manual_decl_partials = True  # prevents attempts to use _viewdict in compute\n',
         '        if self._use_derivatives:\n            pass\n        else:\n            self._manual_decl_partials = True\n'),
    # the candidate repair of the re-setup defect (flag no longer clobbered, compute() keyed on the views)
    Twin('twin-resetup-repair', EC, _FIX_VEC_OLD, _FIX_VEC_NEW,
         also=[(EC, '        if not self._manual_decl_partials:\n            if self._relcopy:\n                self._inarray[:]',
                '        if self._viewdict is not None:\n            if self._relcopy:\n                self._inarray[:]')]),
)

# ---- second robustness round: extracted statement-helper (expanded in place), conditional-expression stores
_COL_INNER = '''                loc_i = icol - in_slices[in_name].start
                for out_name in out_names:
                    key = (out_name, in_name)
                    if key in partials:
                        # set the column in the Jacobian entry
                        part = scratch[out_slices[out_name]]
                        partials[key][:, loc_i] = part
                        part[:] = 0.
'''
_COL_CALL = '''                self._scatter_colored_column(partials, scratch, in_name,
                                             icol - in_slices[in_name].start)
'''
_COL_HELPER = '''    def _scatter_colored_column(self, partials, scratch, in_name, loc_i):
        out_slices = self._out_slices

        for out_name in self._var_rel_names['output']:
            key = (out_name, in_name)
            if key not in partials:
                continue

            part = scratch[out_slices[out_name]]
            partials[key][:, loc_i] = part
            part[:] = 0.

'''
_CP_DEF = '    def compute_partials(self, inputs, partials):\n'
_ELEM_STORES_CONDEXPR = '''                        key = (u, inp)
                        if key not in partials:
                            continue

                        subval, subval_is_scalar = vdict[u]
                        deriv = imag(subval * inv_stepsize)
                        partials[key][:, i] = deriv if subval_is_scalar else deriv.flat
'''


def _helper_variant(call=_COL_CALL, helper=_COL_HELPER):
    return dict(old=_COL_INNER, new=call, also=[(EC, _CP_DEF, helper + _CP_DEF)])


selftest(
    'C14',
    Twin('twin-colored-scatter-helper', EC, **_helper_variant()),
    Twin('twin-colored-scatter-helper-kwargs', EC, **_helper_variant(
        call='                self._scatter_colored_column(partials, scratch, loc_i=icol - in_slices[in_name].start,\n'
             '                                             in_name=in_name)\n')),
    Mutant('slot-helper-key-swapped', EC, expect='C14.slot',
           **_helper_variant(helper=_COL_HELPER.replace('key = (out_name, in_name)', 'key = (in_name, out_name)'))),
    Mutant('slot-helper-global-column', EC, expect='C14.slot',
           **_helper_variant(call='                self._scatter_colored_column(partials, scratch, in_name, icol)\n')),
    Mutant('slot-helper-scratch-leak', EC, expect='C14.slot',
           **_helper_variant(helper=_COL_HELPER.replace('            part[:] = 0.\n', ''))),
    Mutant('slot-helper-args-swapped', EC, expect='C14.slot',
           **_helper_variant(call='                self._scatter_colored_column(partials, scratch, icol - in_slices[in_name].start,\n'
                                  '                                             in_name)\n')),
    Twin('twin-store-conditional-expression', EC, _ELEM_STORES, _ELEM_STORES_CONDEXPR),
    Mutant('extract-condexpr-real-part', EC, _ELEM_STORES,
           _ELEM_STORES_CONDEXPR.replace('deriv = imag(subval * inv_stepsize)', 'deriv = (subval * inv_stepsize).real'),
           'C14.extract'),
    Mutant('slot-condexpr-value-of-input-view', EC, _ELEM_STORES,
           _ELEM_STORES_CONDEXPR.replace('= vdict[u]', '= vdict[inp]'), 'C14.slot'),
    Mutant('slot-condexpr-row', EC, _ELEM_STORES, _ELEM_STORES_CONDEXPR.replace('partials[key][:, i]', 'partials[key][i, :]'),
           'C14.slot'),
)

# ---- fourth robustness round: column offset through a temporary, renamed locals, inlined key, continue guard
_COL_LOOP = '''            for icol, rows in zip(icols, nzrowlists):
                scratch[rows] = imag_oar[rows]
                in_name = idx2name[icol]
''' + _COL_INNER
_COL_LOOP_TEMP = '''            for icol, nzrows in zip(icols, nzrowlists):
                in_name = idx2name[icol]
                in_start = in_slices[in_name].start
                scratch[nzrows] = imag_oar[nzrows]
                loc_i = icol - in_start
                for out_name in out_names:
                    if (out_name, in_name) not in partials:
                        continue
                    col_view = scratch[out_slices[out_name]]
                    partials[out_name, in_name][:, loc_i] = col_view
                    col_view[:] = 0.
'''
selftest(
    'C14',
    Twin('twin-colored-offset-temporary', EC, _COL_LOOP, _COL_LOOP_TEMP),
    Mutant('slot-offset-temporary-from-out-slices', EC, _COL_LOOP,
           _COL_LOOP_TEMP.replace('in_start = in_slices[in_name].start', 'in_start = out_slices[in_name].start'), 'C14.slot'),
    Mutant('slot-offset-temporary-added', EC, _COL_LOOP, _COL_LOOP_TEMP.replace('loc_i = icol - in_start', 'loc_i = icol + in_start'),
           'C14.slot'),
    Mutant('slot-offset-temporary-dropped', EC, _COL_LOOP, _COL_LOOP_TEMP.replace('loc_i = icol - in_start', 'loc_i = icol'),
           'C14.slot'),
    Mutant('slot-inlined-key-swapped', EC, _COL_LOOP,
           _COL_LOOP_TEMP.replace('partials[out_name, in_name][:, loc_i]', 'partials[in_name, out_name][:, loc_i]')
           .replace('(out_name, in_name) not in partials', '(in_name, out_name) not in partials'), 'C14.slot'),
)
