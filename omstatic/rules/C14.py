"""C14 -- ExecComp evaluates its expressions and their exact complex-step partials.

Structural clauses of components/exec_comp.py that the numerical statement rests on: the
perturb / evaluate / extract / restore discipline of the three complex-step drivers
(compute_partials, _compute_colored_partials, _compute_coloring), the scale of the extraction
(imag(out) / h for a step h*1j), the (of, wrt) / column slots the results are written to, the partial
declaration loop and its agreement with the perturbation mode chosen at run time, the complex views
(_setup_vectors, compute, _exec) and the complex-safety of the function table.
"""
import ast

from .. import astx, cfg as cfgm
from ..core import AnalysisError
from ..engine import rule, describe, selftest, Mutant, Twin

EC = 'openmdao/components/exec_comp.py'
DRIVERS = ('ExecComp.compute_partials', 'ExecComp._compute_colored_partials', 'ExecComp._compute_coloring')

describe('C14',
         'Decides for ExecComp (components/exec_comp.py): every complex-step perturbation `T += step` is '
         'followed in the same iteration by _exec() and by exactly one `T -= step` on the same target; '
         'every read of the complex outputs inside a perturbation is imag(out * k) with step*k == 1j; the '
         'results are stored under (of, wrt) = (output whose view was read, input whose view was '
         'perturbed) and in the column of the perturbed element; _setup_partials declares every '
         '(out, inp) pair of every expression exactly once and the declared kind (diagonal/dense) agrees, '
         'on an abstract domain of sizes, with the perturbation mode compute_partials chooses; the '
         'complex work arrays are synchronised with the input vector before use and copied back after; '
         'the sparsity pass of _compute_coloring leaves the inputs as found; the complex views pair '
         'inputs with _inarray and outputs with _outarray; non-analytic numpy functions never enter the '
         'function table unwrapped.  Does not decide the numerical value of any expression.',
         ['complex_stepsize is small enough for complex step to be exact to round-off',
          'numpy functions outside the frozen non-analytic table are complex-analytic',
          'exceptions raised by _exec abort the run (no restore needed on exceptional paths)'])


# =========================================================================== generic helpers
class Unknown(Exception):
    def __init__(self, node, why=''):
        self.node, self.why = node, why


def resolve(rd, at, e, depth=0):
    """Follow a local Name through unique plain-Assign definitions.  Returns (expr, node)."""
    while isinstance(e, ast.Name) and depth < 8:
        ds = rd.defs(at, e.id)
        if len(ds) != 1:
            return e, at
        d = next(iter(ds))
        if not (d.kind == 'stmt' and isinstance(d.ast, ast.Assign) and len(d.ast.targets) == 1
                and isinstance(d.ast.targets[0], ast.Name) and d.ast.targets[0].id == e.id):
            return e, at
        e, at = d.ast.value, d
        depth += 1
    return e, at


def rpath(rd, at, e):
    """Access path of e after resolving local aliases."""
    return astx.path(resolve(rd, at, e)[0])


def scale(e, rd, at, depth=0):
    """(degree in self.complex_stepsize, power of 1j, real coefficient) of a scalar factor, or None."""
    if depth > 10:
        return None
    if isinstance(e, ast.Constant):
        v = e.value
        if isinstance(v, bool):
            return None
        if isinstance(v, (int, float)):
            return (0, 0, float(v)) if v != 0 else None
        if isinstance(v, complex) and v.real == 0 and v.imag != 0:
            return (0, 1, float(v.imag))
        return None
    if astx.path(e) == 'self.complex_stepsize':
        return (1, 0, 1.0)
    if isinstance(e, ast.Name):
        v, at2 = resolve(rd, at, e)
        if v is e or isinstance(v, ast.Name):
            return None
        return scale(v, rd, at2, depth + 1)
    if isinstance(e, ast.UnaryOp) and isinstance(e.op, (ast.USub, ast.UAdd)):
        s = scale(e.operand, rd, at, depth + 1)
        if s is None:
            return None
        return (s[0], s[1], -s[2] if isinstance(e.op, ast.USub) else s[2])
    if isinstance(e, ast.BinOp) and isinstance(e.op, (ast.Mult, ast.Div)):
        a, b = scale(e.left, rd, at, depth + 1), scale(e.right, rd, at, depth + 1)
        if a is None or b is None:
            return None
        if isinstance(e.op, ast.Mult):
            return (a[0] + b[0], a[1] + b[1], a[2] * b[2])
        if b[1]:
            return None
        return (a[0] - b[0], a[1], a[2] / b[2])
    return None


def root_name(t):
    """Root Name node of a Name / Subscript / Attribute chain."""
    while isinstance(t, (ast.Subscript, ast.Attribute)):
        t = t.value
    return t if isinstance(t, ast.Name) else None


def loops_around(st):
    return [a for a in astx.ancestors(st) if isinstance(a, (ast.For, ast.While))]


IMAG_FUNCS = {'imag', 'np.imag', 'numpy.imag'}
NOTIMAG_FUNCS = {'real', 'np.real', 'numpy.real', 'abs', 'np.abs', 'numpy.abs', 'np.absolute', 'float',
                 'np.conj', 'np.conjugate', 'np.angle'}
SHAPE_METHODS = {'ravel', 'flatten', 'reshape', 'copy', 'squeeze'}
SHAPE_ATTRS = {'flat'}
META_ATTRS = {'size', 'shape', 'dtype', 'ndim'}


class Driver:
    """Perturbation structure of one complex-step driver function."""

    def __init__(self, fn):
        self.fn = fn
        self.g = cfgm.build(fn)
        self.rd = cfgm.ReachingDefs(self.g)
        g = self.g
        self.execs = g.calling('_exec', recv='self')
        self.adds, self.subs, self.odd = [], [], []
        for n in g.where(lambda n: n.kind == 'stmt' and isinstance(n.ast, ast.AugAssign)):
            kind = self.view_kind(n.ast.target, n)
            s = scale(n.ast.value, self.rd, n)
            is_step = s is not None and s[1] == 1
            if not is_step and kind is None:
                continue
            if kind is None:
                # a step applied to something that is not an input view
                self.odd.append((n, 'a complex step is applied to something that is not a view of the '
                                    'complex input array'))
                continue
            if not is_step:
                if s is not None or isinstance(n.ast.op, (ast.Add, ast.Sub)) and \
                        isinstance(n.ast.value, ast.Name) and False:
                    self.odd.append((n, f'the input view is modified by `{astx.src(n.ast.value)}`, which is '
                                        'not the complex step'))
                else:
                    self.odd.append((n, None))
                continue
            if isinstance(n.ast.op, ast.Add):
                self.adds.append(n)
            elif isinstance(n.ast.op, ast.Sub):
                self.subs.append(n)
            else:
                self.odd.append((n, f'the complex step is applied with operator '
                                    f'`{type(n.ast.op).__name__}`'))

    # ---- what is an input view
    def view_kind(self, target, at, depth=0):
        """'inarr' if target is (an element of) self._inarray, 'view' for a view taken from
        self._indict, else None."""
        r = root_name(target)
        if r is None:
            p = astx.path(target)
            if p and (p == 'self._inarray' or p.startswith('self._inarray[')):
                return 'inarr'
            return None
        return self._name_kind(r.id, at, depth)

    def _name_kind(self, name, at, depth=0):
        if depth > 6:
            return None
        ds = self.rd.defs(at, name)
        kinds = set()
        for d in ds:
            if d.kind == 'stmt' and isinstance(d.ast, ast.AugAssign):
                kinds.add(self._name_kind(name, d, depth + 1))
            elif d.kind == 'stmt' and isinstance(d.ast, ast.Assign) and len(d.ast.targets) == 1 and \
                    isinstance(d.ast.targets[0], ast.Name):
                p = astx.path(d.ast.value)
                if p == 'self._inarray':
                    kinds.add('inarr')
                elif isinstance(d.ast.value, ast.Name):
                    kinds.add(self._name_kind(d.ast.value.id, d, depth + 1))
                else:
                    kinds.add(None)
            elif d.kind == 'iter' and isinstance(d.ast, ast.For):
                it = d.ast.iter
                if isinstance(it, ast.Call) and astx.callee_attr(it) in ('items', 'values') and \
                        rpath(self.rd, d, astx.receiver(it)) == 'self._indict':
                    # the view is the first element of the (view, is_scalar) value tuple
                    tgt = d.ast.target
                    val = tgt.elts[1] if astx.callee_attr(it) == 'items' and isinstance(tgt, ast.Tuple) \
                        and len(tgt.elts) == 2 else tgt
                    if isinstance(val, ast.Tuple) and val.elts and isinstance(val.elts[0], ast.Name) and \
                            val.elts[0].id == name:
                        kinds.add('view')
                    else:
                        kinds.add(None)
                else:
                    kinds.add(None)
            else:
                kinds.add(None)
        if len(kinds) == 1:
            return kinds.pop()
        return None

    # ---- regions
    def boundary(self, n):
        ls = loops_around(n.ast)
        b = [self.g.exit]
        if ls:
            b += self.g.nodes_of(ls[0])
        return b

    def mates(self, a):
        return [s for s in self.subs if astx.same(s.ast.target, a.ast.target)]

    def region(self, a):
        """Nodes executed while the perturbation applied at `a` is in place."""
        g = self.g
        return g.reach(g.normal_succ(a), avoid=set(self.mates(a)) | set(self.boundary(a)),
                       labels=cfgm.noexc)

    # ---- complex outputs
    def out_defs(self):
        """CFG nodes defining a name that holds complex output values -> name."""
        res = {}
        for n in self.g.where(lambda n: n.kind == 'stmt' and isinstance(n.ast, ast.Assign)
                              and len(n.ast.targets) == 1):
            t, v = n.ast.targets[0], n.ast.value
            if isinstance(t, ast.Name) and astx.path(v) == 'self._outarray':
                res[n] = t.id
            elif isinstance(t, ast.Tuple) and len(t.elts) == 2 and isinstance(t.elts[0], ast.Name) and \
                    isinstance(v, ast.Subscript) and \
                    rpath(self.rd, n, v.value) in ('self._viewdict.dct',):
                res[n] = t.elts[0].id
        return res

    def out_reads(self):
        """Name loads (ast.Name, cfg node) that read complex output values."""
        odefs = self.out_defs()
        names = set(odefs.values())
        reads = []
        for n in self.g.nodes:
            if n.kind not in ('stmt', 'test', 'iter', 'with'):
                continue
            for e in n.exprs():
                for w in astx.walk(e):
                    if isinstance(w, ast.Name) and isinstance(w.ctx, ast.Load) and w.id in names:
                        ds = self.rd.defs(n, w.id)
                        if ds and ds <= set(odefs):
                            reads.append((w, n, True))
                        elif ds & set(odefs):
                            reads.append((w, n, False))
                    elif isinstance(w, ast.Attribute) and astx.path(w) == 'self._outarray' and \
                            isinstance(w.ctx, ast.Load) and n not in odefs:
                        reads.append((w, n, True))
        return reads


def climb(node, drv, at, acc=None, depth=0):
    """Follow the value read at `node` upward through scalings / imag / reshapes.

    Yields (wrappers, top_expr, consumer, cfg_node) for every final consumer; wrappers is a list of
    ('mul'|'div', factor_expr, at) / ('imag', n) / ('notimag', n) / ('shape', n) / ('index', n) /
    ('unknown', n) / ('meta', n).
    """
    wr = list(acc or [])
    cur = node
    while True:
        par = getattr(cur, '_parent', None)
        if isinstance(par, ast.BinOp):
            if isinstance(par.op, ast.Mult):
                wr.append(('mul', par.right if par.left is cur else par.left, at))
            elif isinstance(par.op, ast.Div) and par.left is cur:
                wr.append(('div', par.right, at))
            else:
                wr.append(('unknown', par, at))
            cur = par
        elif isinstance(par, ast.Call) and any(a is cur for a in par.args):
            nm = astx.call_name(par)
            if nm in IMAG_FUNCS:
                wr.append(('imag', par, at))
                cur = par
            elif nm in NOTIMAG_FUNCS:
                wr.append(('notimag', par, at))
                cur = par
            else:
                break
        elif isinstance(par, ast.Attribute) and par.value is cur:
            gp = getattr(par, '_parent', None)
            if isinstance(gp, ast.Call) and gp.func is par:
                if par.attr in SHAPE_METHODS:
                    wr.append(('shape', gp, at))
                elif par.attr in ('conj', 'conjugate'):
                    wr.append(('notimag', gp, at))
                else:
                    wr.append(('unknown', gp, at))
                cur = gp
            elif par.attr == 'imag':
                wr.append(('imag', par, at))
                cur = par
            elif par.attr == 'real':
                wr.append(('notimag', par, at))
                cur = par
            elif par.attr in SHAPE_ATTRS:
                wr.append(('shape', par, at))
                cur = par
            elif par.attr in META_ATTRS:
                wr.append(('meta', par, at))
                cur = par
                break
            else:
                wr.append(('unknown', par, at))
                cur = par
        elif isinstance(par, ast.Subscript) and par.value is cur and isinstance(par.ctx, ast.Load):
            wr.append(('index', par, at))
            cur = par
        else:
            break
    par = getattr(cur, '_parent', None)
    # extracted temporary: `tmp = <chain>` -> continue at the loads of tmp
    if isinstance(par, ast.Assign) and par.value is cur and len(par.targets) == 1 and \
            isinstance(par.targets[0], ast.Name) and depth < 4 and not any(k == 'meta' for k, _, _ in wr):
        nm = par.targets[0].id
        defnodes = set(drv.g.nodes_of(par))
        uses = []
        for n in drv.g.nodes:
            if n.kind not in ('stmt', 'test', 'iter', 'with'):
                continue
            for e in n.exprs():
                for w in astx.walk(e):
                    if isinstance(w, ast.Name) and w.id == nm and isinstance(w.ctx, ast.Load) and \
                            drv.rd.defs(n, nm) & defnodes:
                        uses.append((w, n))
        if uses:
            for w, n in uses:
                yield from climb(w, drv, n, wr, depth + 1)
            return
    yield wr, cur, par, at


# =========================================================================== C14.perturb
@rule('C14.perturb', floor=5)
def perturb(repo, out):
    """Each `T += step` is followed, in the same iteration, by self._exec() and exactly one `T -= step` on the same target."""
    for qn in DRIVERS:
        fn = repo.func(EC, qn)
        d = Driver(fn)
        g, rd = d.g, d.rd
        for n, why in d.odd:
            if why is None:
                out.unsure(fn, n.ast, 'modification of an input view that is not recognised as a complex step')
            else:
                out.bad(fn, n.ast, why, key='perturb-step')
        if not d.execs:
            raise AnalysisError(f'{fn.ident}: no self._exec() call')
        for a in d.adds:
            s = scale(a.ast.value, rd, a)
            if s[0] != 1:
                out.unsure(fn, a.ast, 'step is not proportional to self.complex_stepsize')
                continue
            mates = d.mates(a)
            bnd = d.boundary(a)
            if not mates:
                cand = [x for x in d.subs if root_name(x.ast.target) is not None and
                        root_name(a.ast.target) is not None and
                        root_name(x.ast.target).id == root_name(a.ast.target).id]
                extra = f' (the restore `{astx.src(cand[0].ast)}` addresses a different element)' if cand else ''
                out.bad(fn, a.ast, 'perturbation is never removed: no `-= step` on the same target' + extra,
                        key='perturb-unrestored')
                continue
            w = g.path(g.normal_succ(a), bnd, avoid=mates, labels=cfgm.noexc)
            if w is not None:
                out.bad(fn, a.ast, 'the input can stay perturbed when the iteration ends: ' + g.fmt_path(w),
                        key='perturb-unrestored')
                continue
            w = g.path(g.normal_succ(a), mates, avoid=d.execs, labels=cfgm.noexc)
            if w is not None:
                out.bad(fn, a.ast, 'the perturbation is removed without evaluating the expressions '
                        '(no self._exec() between `+= step` and `-= step`): ' + g.fmt_path(w),
                        key='perturb-no-exec')
                continue
            # same step value, target not rebound in between
            problem = None
            own = a.ast.target.id if isinstance(a.ast.target, ast.Name) else None
            for m in mates:
                if not astx.same(m.ast.value, a.ast.value):
                    sm = scale(m.ast.value, rd, m)
                    if sm != s:
                        problem = (m, 'the step removed differs from the step applied')
                        break
                for nm in astx.names(a.ast.target) | astx.names(a.ast.value):
                    da, dm = rd.defs(a, nm), rd.defs(m, nm)
                    if nm == own:
                        if dm != {a}:
                            problem = (m, f'`{nm}` is rebound between perturbation and restore')
                    elif da != dm:
                        problem = (m, f'`{nm}` is rebound between perturbation and restore: a different '
                                      'element is restored')
                if problem:
                    break
            if problem:
                out.bad(fn, problem[0].ast, problem[1], key='perturb-target-rebound')
                continue
            # at most once
            reg = d.region(a)
            again = [x for x in d.adds if x in reg and astx.same(x.ast.target, a.ast.target)]
            after = set()
            for m in mates:
                after |= g.reach(g.normal_succ(m), avoid=bnd + [a], labels=cfgm.noexc)
            twice = [m for m in mates if m in after]
            if again or twice:
                out.bad(fn, (again or twice)[0].ast, 'the step is applied or removed twice in one iteration',
                        key='perturb-twice')
                continue
            out.ok(fn, a.ast, f'+= step -> _exec() -> -= step on `{astx.src(a.ast.target)}` on every path')
        for sb in d.subs:
            same_t = [a for a in d.adds if astx.same(a.ast.target, sb.ast.target)]
            if not same_t or g.dominated_by(sb, same_t, labels=cfgm.noexc) is not None:
                out.bad(fn, sb.ast, '`-= step` without a preceding `+= step` on the same target: the input '
                        'is left shifted by -step', key='perturb-orphan-restore')
        # evaluations used for derivatives must run under a perturbation
        for x in d.execs:
            starts = [g.entry] + [m for sb in d.subs for m in g.normal_succ(sb)]
            w = g.path(starts, [x], avoid=d.adds, labels=cfgm.noexc)
            if w is not None and d.adds:
                out.bad(fn, x.ast, 'self._exec() can run with no perturbation in place: ' + g.fmt_path(w),
                        key='exec-unperturbed')


# =========================================================================== C14.extract
@rule('C14.extract', floor=6)
def extract(repo, out):
    """Inside a perturbation every read of the complex outputs is imag(out * k) with step * k == 1j, taken after _exec()."""
    for qn in DRIVERS:
        fn = repo.func(EC, qn)
        d = Driver(fn)
        g, rd = d.g, d.rd
        steps = {scale(a.ast.value, rd, a) for a in d.adds}
        if len(steps) != 1:
            out.unsure(fn, fn.node, f'{len(steps)} different step values in one function')
            continue
        st = steps.pop()
        regions = {a: d.region(a) for a in d.adds}
        for nm_node, at, sure in d.out_reads():
            for wr, top, consumer, at2 in climb(nm_node, d, at):
                kinds = [k for k, _, _ in wr]
                if 'meta' in kinds:
                    continue
                if not sure:
                    out.unsure(fn, astx.stmt_of(top), f'`{astx.src(nm_node)}` may or may not hold the outputs')
                    continue
                stmt = astx.stmt_of(top)
                # placement: inside a perturbation, after the evaluation
                home = [a for a, reg in regions.items() if at in reg]
                if not home:
                    out.bad(fn, stmt, 'complex outputs are read outside any perturbation (stale or '
                            'unperturbed values enter the jacobian)', key='extract-placement')
                    continue
                w = None
                for a in home:
                    w = w or g.path(g.normal_succ(a), [at], avoid=d.execs, labels=cfgm.noexc)
                if w is not None:
                    out.bad(fn, stmt, 'complex outputs are read before self._exec() has evaluated the '
                            'perturbed point: ' + g.fmt_path(w), key='extract-placement')
                    continue
                if 'unknown' in kinds:
                    out.unsure(fn, stmt, 'output value flows through an unrecognised operation')
                    continue
                if 'notimag' in kinds:
                    out.bad(fn, stmt, 'the derivative is taken from the real part / modulus of the '
                            'perturbed output instead of its imaginary part', key='extract-imag')
                    continue
                ni = kinds.count('imag')
                if ni == 0:
                    out.bad(fn, stmt, 'the perturbed complex output is used without taking its imaginary '
                            'part', key='extract-imag')
                    continue
                if ni > 1:
                    out.bad(fn, stmt, 'imag() applied twice: the result is identically zero', key='extract-imag')
                    continue
                tot = (0, 0, 1.0)
                okk = True
                for k, e, at_k in wr:
                    if k in ('mul', 'div'):
                        s = scale(e, rd, at_k)
                        if s is None:
                            okk = False
                            break
                        if k == 'mul':
                            tot = (tot[0] + s[0], tot[1] + s[1], tot[2] * s[2])
                        else:
                            tot = (tot[0] - s[0], tot[1] - s[1], tot[2] / s[2])
                if not okk:
                    out.unsure(fn, stmt, 'scaling factor of the extraction not recognised')
                    continue
                if tot[1] != 0:
                    out.bad(fn, stmt, 'the output is multiplied by an imaginary factor before imag(): the '
                            'real part is extracted', key='extract-scale')
                    continue
                if tot[0] + st[0] != 0 or abs(tot[2] * st[2] - 1.0) > 1e-12:
                    out.bad(fn, stmt, f'extraction scale does not invert the step: step ~ h^{st[0]}*{st[2]:g}, '
                            f'extraction ~ h^{tot[0]}*{tot[2]:g} (h = self.complex_stepsize); d out/d in = '
                            'imag(out)/h', key='extract-scale')
                    continue
                out.ok(fn, stmt, 'imag(out * k), k * step == 1j, read after _exec() inside the perturbation')
