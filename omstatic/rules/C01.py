"""C01 -- total derivatives equal the exact derivative of the converged model.

The numbers themselves are out of reach of a static check.  What is decided here are the structural
necessary conditions of `_TotalJacInfo` (core/total_jac.py) and of the pieces it drives:

  zero-seeds      every seed write is preceded by a zeroing of the linear vectors of that direction
  state           `_totjac_context` installs and restores relevance/mode; approx path installs `_tot_jac`
  loop            per-iteration protocol of the main solve loop (seed -> solve -> scatter, each once, with
                  the loop's own `mode`, the right seed direction, the problem-level bookkeeping)
  linearize       linearize (in the scaled state) before the linear solver's linearize before any solve;
                  solves run scaled and with seeds active, seeds/scatter happen in the physical state
  mode-tables     the fwd/rev role tables built in `__init__`
  slots           tuple orders agree between producers (`_get_sol2jac_map`, `_create_in_idx_map`, the
                  iterators) and their consumers; orientation of the scatter into J
  offsets         running row/column offsets: the interval handed out in an iteration is exactly the
                  amount by which the offset advances (symbolic execution of the loop body)
  scaling         flat-dict and nested-dict branches of unit scaling / driver scaling apply the same
                  operators under equivalent guards, response scaler multiplies, desvar scaler divides
  units           unit scaler tables are filled from the matching driver tables / conversion direction
  cache           the linear-solution cache only touches the solution vector
  transpose       a stored-matrix solve that transposes in rev mode runs in the physical state
"""
import ast

from .. import astx, cfg as cfgm, boolx
from ..core import AnalysisError
from ..engine import rule, describe, selftest, Mutant, Twin

TJ = 'openmdao/core/total_jac.py'
CLS = '_TotalJacInfo'
AUTOSCALER = 'openmdao/drivers/autoscalers/autoscaler.py'
GROUP = 'openmdao/core/group.py'
DIRECT = 'openmdao/solvers/linear/direct.py'
PETSC_DIRECT = 'openmdao/solvers/linear/petsc_direct_solver.py'

describe('C01',
         'Decides structural necessary conditions of the total-derivative machinery in '
         'core/total_jac.py (_TotalJacInfo), Group._linearize, Autoscaler.apply_jac_scaling and the '
         'direct solvers: seed vectors are zeroed before every seed (all four input setters; '
         '_zero_vecs clears doutputs/dresiduals always and dinputs in rev); _totjac_context installs '
         'and restores relevance and mode; the main loop performs seed -> solve -> scatter exactly '
         'once per iteration with the loop\'s own mode, the matching seed direction and the '
         'problem-level bookkeeping (seed_vars, parallel_deriv_color, ncompute_totals); the model is '
         'linearized in the scaled state before the linear solver is linearized before any solve; '
         'solves run in the scaled state with seeds active while seeds are written and solutions read '
         'in the physical state; fwd/rev role tables; tuple-slot agreement between index-map producers '
         'and consumers and the orientation of the scatter into J; running row/column offsets hand out '
         'exactly the interval by which they advance (symbolic execution of every offset loop of the '
         'class); flat-dict and nested-dict scaling branches apply the same operators under '
         'equivalent guards with response scalers multiplying rows and desvar scalers dividing '
         'columns; unit-scaler tables and conversion direction; the linear-solution cache writes only '
         'the solution vector; transposing stored-matrix solves happen in the physical state.  Does '
         'not decide any numerical value, MPI scatter code, the colouring itself (C03) or adjointness '
         'of the operators (C02).',
         ['the model-level scaling of linear vectors is the one implemented in DefaultVector '
          '(scale_to_norm divides outputs by ref and residuals by res_ref in both directions)',
          'user components are opaque',
          'input setters / jac setters are only reached through the iterators of _TotalJacInfo'])


# =========================================================================== helpers
def tj(repo, name):
    return repo.func(TJ, f'{CLS}.{name}')


def params(fn):
    """Positional parameter names of a method without self."""
    a = fn.node.args
    names = [x.arg for x in a.posonlyargs + a.args]
    return names[1:] if names and names[0] in ('self', 'cls') else names


def head_of(p):
    for i, ch in enumerate(p):
        if ch in '.[(':
            return p[:i]
    return p


_FLIP = {ast.Gt: ast.Lt, ast.GtE: ast.LtE}


def xdump(node, ren=None):
    """Structural key of an expression/statement without copying the tree (astx.dump deep-copies the
    parent links).  `a > b` is keyed as `b < a`; Name ids are mapped through *ren* (dict or callable)."""
    if node is None:
        return 'None'
    if isinstance(node, list):
        return '[' + ','.join(xdump(x, ren) for x in node) + ']'
    if not isinstance(node, ast.AST):
        return repr(node)
    if isinstance(node, ast.Name):
        nm = node.id
        if ren is not None:
            nm = ren(nm) if callable(ren) else ren.get(nm, nm)
        return f'N({nm})'
    if isinstance(node, ast.Compare) and len(node.ops) == 1 and type(node.ops[0]) in _FLIP:
        return f'Compare({xdump(node.comparators[0], ren)},[{_FLIP[type(node.ops[0])].__name__}()],' \
               f'[{xdump(node.left, ren)}])'
    if isinstance(node, ast.UnaryOp) and isinstance(node.op, ast.USub) and isinstance(node.operand, ast.Constant) \
            and isinstance(node.operand.value, (int, float)) and not isinstance(node.operand.value, bool):
        return f'Constant({-node.operand.value!r})'
    if isinstance(node, ast.Constant):
        return f'Constant({node.value!r})'
    parts = []
    for f in node._fields:
        if f in ('ctx', 'type_comment', 'kind'):
            continue
        parts.append(xdump(getattr(node, f, None), ren))
    return f'{type(node).__name__}(' + ','.join(parts) + ')'


def own_exprs(st):
    """Expressions evaluated by statement st itself (headers only for compound statements)."""
    if isinstance(st, (ast.If, ast.While)):
        return [st.test]
    if isinstance(st, (ast.For, ast.AsyncFor)):
        return [st.iter, st.target]
    if isinstance(st, (ast.With, ast.AsyncWith)):
        return [x for it in st.items for x in (it.context_expr, it.optional_vars) if x is not None]
    if isinstance(st, (ast.Try, ast.FunctionDef, ast.AsyncFunctionDef, ast.ClassDef)):
        return []
    if isinstance(st, ast.Match):
        return [st.subject]
    return [st]


def own_walk(st):
    for e in own_exprs(st):
        yield from astx.walk(e)


def own_calls(st):
    return [c for c in own_walk(st) if isinstance(c, ast.Call)]


def xparse(text):
    return ast.parse(text, mode='eval').body


def assigned_value(stmt, name):
    """Expression bound to local *name* by Assign statement stmt: `name = e`, `a = name = e`, or the
    matching element of a tuple assignment `a, name = x, e` (nested tuples included); else None."""
    if not isinstance(stmt, ast.Assign):
        return None

    def match(t, v):
        if isinstance(t, ast.Name):
            return v if t.id == name else None
        if isinstance(t, (ast.Tuple, ast.List)) and isinstance(v, ast.IfExp):
            # a, b = (x, None) if c else (None, x)   ->   name bound to  (x if c else None)
            b, o = match(t, v.body), match(t, v.orelse)
            if b is not None and o is not None:
                return ast.IfExp(test=v.test, body=b, orelse=o)
            return None
        if isinstance(t, (ast.Tuple, ast.List)) and isinstance(v, (ast.Tuple, ast.List)) and \
                len(t.elts) == len(v.elts) and not any(isinstance(e, ast.Starred) for e in t.elts + v.elts):
            for te, ve in zip(t.elts, v.elts):
                r = match(te, ve)
                if r is not None:
                    return r
        return None
    for t in stmt.targets:
        r = match(t, stmt.value)
        if r is not None:
            return r
    return None


class Ctx:
    """CFG + reaching definitions of one function with alias-resolving access paths."""

    def __init__(self, fn):
        self.fn = fn
        self.g = cfgm.build(fn)
        self.rd = cfgm.ReachingDefs(self.g)
        self.pins = {}

    def pin(self, name, nodes):
        """Declare the only definition nodes under which *name* still means the pinned variable
        (function entry for a parameter, the loop header for a loop variable)."""
        self.pins[name] = set(nodes)

    def node(self, stmt):
        ns = self.g.nodes_of(stmt)
        if not ns:
            raise AnalysisError(f'{self.fn.ident}: statement not in CFG (unreachable?): {astx.src(stmt)}')
        return ns[0]

    def node_of_expr(self, expr):
        """CFG node at which an expression is evaluated."""
        n = expr
        while n is not None:
            par = getattr(n, '_parent', None)
            if isinstance(n, ast.stmt):
                break
            if isinstance(par, (ast.If, ast.While)) and n is par.test:
                return self.node(par)
            if isinstance(par, (ast.For, ast.AsyncFor)) and (n is par.iter or n is par.target):
                return self.node(par)
            if isinstance(par, ast.withitem):
                return self.node(par._parent)
            n = par
        if n is None:
            raise AnalysisError(f'{self.fn.ident}: expression without statement')
        return self.node(n)

    def alias(self, name, at, depth=0):
        """Unique defining expression of local *name* reaching node *at* (Assign with one target,
        chained assignment `a = b = expr` accepted), with the defining node; else (None, None)."""
        ds = self.rd.defs(at, name)
        if len(ds) != 1:
            return None, None
        d = next(iter(ds))
        if d.kind == 'stmt':
            v = assigned_value(d.ast, name)
            if v is not None:
                return v, d
        return None, None

    def resolve(self, expr, at=None, depth=0):
        """Access path of expr with a leading local alias expanded (model -> self.model)."""
        p = astx.path(expr)
        if p is None or depth > 6:
            return p
        if at is None:
            at = self.node_of_expr(expr)
        h = head_of(p)
        if h in ('self', 'cls'):
            return p
        val, d = self.alias(h, at)
        if val is None:
            return p
        rp = self.resolve(val, d, depth + 1)
        if rp is None:
            return p
        return rp + p[len(h):]

    def same_name(self, expr, name, at=None, depth=0):
        """True / False / None: does expr denote local variable *name* (possibly through aliases)?"""
        if isinstance(expr, ast.Name):
            if at is None:
                at = self.node_of_expr(expr)
            if expr.id == name:
                pin = self.pins.get(name)
                if pin is not None and not (self.rd.defs(at, name) <= pin):
                    return None     # rebound since: no longer the pinned variable
                return True
            val, d = self.alias(expr.id, at)
            if val is None or depth > 4:
                return None
            return self.same_name(val, name, d, depth + 1)
        if isinstance(expr, ast.Constant) or astx.path(expr) is not None:
            return False     # a constant or another access path (self.mode, ...) is plainly not it
        return None


def encl_withs(stmt, stop=None):
    """(With statement, context call) pairs lexically enclosing stmt, innermost first."""
    out = []
    for a in astx.ancestors(stmt):
        if a is stop or isinstance(a, (ast.FunctionDef, ast.AsyncFunctionDef)):
            break
        if isinstance(a, (ast.With, ast.AsyncWith)):
            for it in a.items:
                if isinstance(it.context_expr, ast.Call):
                    out.append((a, it.context_expr))
    return out


def stmt_calls(g, pred):
    """CFG nodes having a call that satisfies pred(call)."""
    return g.where(lambda n: any(pred(c) for c in n.calls()))


def mode_test(expr, ctx, mode_name, at):
    """'fwd' / 'rev' / None: the direction under which boolean expr is true (expr is `mode == 'fwd'`,
    `mode != 'rev'`, an alias of those, or a negation)."""
    if isinstance(expr, ast.UnaryOp) and isinstance(expr.op, ast.Not):
        r = mode_test(expr.operand, ctx, mode_name, at)
        return {'fwd': 'rev', 'rev': 'fwd'}.get(r)
    if isinstance(expr, ast.Name):
        val, d = ctx.alias(expr.id, at)
        if val is None:
            return None
        return mode_test(val, ctx, mode_name, d)
    if isinstance(expr, ast.Compare) and len(expr.ops) == 1 and isinstance(expr.ops[0], (ast.Eq, ast.NotEq)):
        l, r = expr.left, expr.comparators[0]
        if astx.const_str(l) is not None:
            l, r = r, l
        lit = astx.const_str(r)
        if lit in ('fwd', 'rev') and ctx.same_name(l, mode_name, at):
            if isinstance(expr.ops[0], ast.NotEq):
                lit = {'fwd': 'rev', 'rev': 'fwd'}[lit]
            return lit
    return None


def reach_assuming(g, starts, decide, avoid=()):
    """Nodes reachable from starts (no exceptional edges) when branch tests for which decide(node)
    returns True/False only take that edge."""
    avoid = set(avoid)
    seen = set(s for s in starts if s not in avoid)
    todo = list(seen)
    while todo:
        n = todo.pop()
        d = decide(n) if n.kind == 'test' else None
        for m, lab in g.succ[n]:
            if lab == 'exc' or m in avoid or m in seen:
                continue
            if d is True and lab == 'false':
                continue
            if d is False and lab == 'true':
                continue
            seen.add(m)
            todo.append(m)
    return seen


# =========================================================================== C01.zero-seeds
INPUT_SETTERS = ('single_input_setter', 'simul_coloring_input_setter', 'par_deriv_input_setter',
                 'directional_input_setter')
_VEC_WRITERS = ('set_val', 'iadd', 'isub', 'imul', 'set_vec', 'add_scal_vec')


def _is_zero(e):
    return isinstance(e, ast.Constant) and not isinstance(e.value, bool) and \
        isinstance(e.value, (int, float)) and e.value == 0


@rule('C01.zero-seeds', floor=7)
def zero_seeds(repo, out):
    """Every seed write into input_vec[mode] is dominated by _zero_vecs(mode); _zero_vecs clears
    doutputs and dresiduals on every path and dinputs on every rev path."""
    for name in INPUT_SETTERS:
        fn = tj(repo, name)
        ps = params(fn)
        if len(ps) < 3:
            raise AnalysisError(f'{fn.ident}: expected (index, meta, mode) parameters')
        mode = ps[2]
        cx = Ctx(fn)
        g = cx.g
        cx.pin(mode, [g.entry])
        seeds, zeros, delegs, verdict = [], [], [], True
        for n in g.nodes:
            for c in n.calls():
                attr = astx.callee_attr(c)
                recv = astx.receiver(c)
                if attr in _VEC_WRITERS and recv is not None:
                    rp = recv
                    if isinstance(rp, ast.Name):
                        val, d = cx.alias(rp.id, n)
                        rp = val if val is not None else rp
                    if isinstance(rp, ast.Subscript) and cx.resolve(rp.value, n) == 'self.input_vec':
                        sm = cx.same_name(rp.slice, mode, n)
                        if sm is True:
                            seeds.append(n)
                        elif sm is False:
                            out.bad(fn, n.ast, f'seed is written into input_vec[{astx.src(rp.slice)}] instead '
                                    f'of the vector of the requested direction `{mode}`', key=f'{name}:seed-vector')
                            verdict = False
                        else:
                            out.unsure(fn, n.ast, 'cannot resolve which input_vec is written')
                            verdict = None
                elif attr == '_zero_vecs' and astx.path(recv) == 'self':
                    a = astx.arg(c, 0, 'mode')
                    sm = cx.same_name(a, mode, n) if a is not None else False
                    if sm is True:
                        zeros.append(n)
                    elif sm is False:
                        out.bad(fn, n.ast, f'_zero_vecs is called with {astx.src(a)} instead of `{mode}`: the '
                                'vectors of the other direction are cleared (dinputs stays dirty in rev)',
                                key=f'{name}:zero-mode')
                        verdict = False
                    else:
                        out.unsure(fn, n.ast, 'cannot resolve the argument of _zero_vecs')
                        verdict = None
                elif attr in INPUT_SETTERS and astx.path(recv) == 'self':
                    a = astx.arg(c, 2, 'mode')
                    sm = cx.same_name(a, mode, n) if a is not None else False
                    if sm is True:
                        delegs.append(n)
                    elif sm is False:
                        out.bad(fn, n.ast, f'delegates to {attr} with mode {astx.src(a)} instead of `{mode}`',
                                key=f'{name}:deleg-mode')
                        verdict = False
                    else:
                        out.unsure(fn, n.ast, 'cannot resolve the mode passed on')
                        verdict = None
        if verdict is not True:
            continue
        if not seeds and not delegs:
            out.unsure(fn, fn.node, 'no seed write and no delegation to another input setter recognised')
            continue
        bad = False
        for s in seeds:
            w = g.dominated_by(s, zeros, labels=cfgm.noexc)
            if w is not None:
                out.bad(fn, s.ast, 'seed is written without clearing the linear vectors first (the previous '
                        'right-hand side / solution leaks into this solve): ' + g.fmt_path(w),
                        key=f'{name}:seed-without-zero')
                bad = True
                continue
            late = g.reach(g.normal_succ(s), labels=cfgm.noexc) & set(zeros)
            if late:
                out.bad(fn, next(iter(late)).ast, 'the linear vectors are cleared again after the seed was '
                        'written: the solve runs with a zero right-hand side', key=f'{name}:zero-after-seed')
                bad = True
        if not bad:
            out.ok(fn, (seeds or delegs)[0].ast,
                   f'{len(seeds)} seed write(s) dominated by _zero_vecs({mode}); {len(delegs)} delegation(s)')

    fn = tj(repo, '_zero_vecs')
    ps = params(fn)
    if not ps:
        raise AnalysisError(f'{fn.ident}: no mode parameter')
    mode = ps[0]
    cx = Ctx(fn)
    g = cx.g
    cx.pin(mode, [g.entry])
    zero_nodes = {'_doutputs': [], '_dresiduals': [], '_dinputs': []}
    unresolved = []
    for n in g.nodes:
        for c in n.calls():
            if astx.callee_attr(c) != 'set_val':
                continue
            rp = cx.resolve(astx.receiver(c), n) or ''
            if not any(rp == f'self.model.{v}' for v in zero_nodes):
                unresolved.append(n)
            for v in zero_nodes:
                if rp == f'self.model.{v}':
                    a = astx.arg(c, 0, 'val')
                    if _is_zero(a) and len(c.args) + len(c.keywords) == 1:
                        zero_nodes[v].append(n)
                    else:
                        out.bad(fn, n.ast, f'{v} is set to {astx.src(a)} instead of being cleared',
                                key=f'zero-value:{v}')
                        zero_nodes[v] = None
                    break
            if any(v is None for v in zero_nodes.values()):
                break

    def decide_rev(n):
        r = mode_test(n.ast.test, cx, mode, n)
        return None if r is None else (r == 'rev')

    for v, always in (('_doutputs', True), ('_dresiduals', True), ('_dinputs', False)):
        zs = zero_nodes[v]
        if zs is None:
            continue
        if not zs and unresolved:
            out.unsure(fn, unresolved[0].ast, f'cannot tell which vector is cleared here ({v} not recognised)')
            continue
        if always:
            w = g.path([g.entry], [g.exit], avoid=zs, labels=cfgm.noexc)
            if w is not None:
                out.bad(fn, fn.node, f'{v} is not cleared on every path (stale values are added to the next '
                        'solve): ' + g.fmt_path(w), key=f'zero:{v}')
            else:
                out.ok(fn, zs[0].ast, f'{v} cleared on every path')
        else:
            r = reach_assuming(g, [g.entry], decide_rev, avoid=zs)
            if g.exit in r:
                out.bad(fn, fn.node, f'{v} is not cleared when {mode} == \'rev\': reverse-mode products '
                        'accumulate into dinputs, so the previous row leaks into the next one',
                        key=f'zero:{v}')
            else:
                out.ok(fn, zs[0].ast, f'{v} cleared on every rev path')


# =========================================================================== C01.state
def _writes_to(cx, path):
    """Assign nodes whose (single) target resolves to access path *path*."""
    out = []
    for n in cx.g.nodes:
        if n.kind == 'stmt' and isinstance(n.ast, ast.Assign):
            for t in n.ast.targets:
                if not isinstance(t, (ast.Tuple, ast.List)) and cx.resolve(t, n) == path:
                    out.append(n)
    return out


@rule('C01.state', floor=3)
def state(repo, out):
    """_totjac_context installs self.relevance / self.mode before the yield and restores the saved
    values on both exits; the approximation path keeps model._tot_jac = self around model._linearize."""
    fn = tj(repo, '_totjac_context')
    if 'contextmanager' not in fn.decorators():
        out.bad(fn, fn.node, '_totjac_context is no longer a @contextmanager', key='ctx-decorator')
        return
    cx = Ctx(fn)
    g = cx.g
    ys = [n for n in g.nodes if n.kind == 'stmt' and any(isinstance(x, ast.Yield) for x in astx.walk(n.ast))]
    if len(ys) != 1:
        raise AnalysisError(f'{fn.ident}: expected exactly one yield')
    y = ys[0]
    for key, want in (('relevance', 'self.relevance'), ('mode', 'self.mode')):
        path = f"self.model._problem_meta[{key!r}]"
        ws = _writes_to(cx, path)
        pre = [w for w in ws if y in g.reach([w], labels=cfgm.noexc)]
        post = [w for w in ws if w not in pre]
        if not pre:
            out.bad(fn, y.ast, f'{path} is not installed before the yield: linearization and solves run with '
                    f'the {key} of whoever ran last', key=f'ctx-install:{key}')
            continue
        wrong = [w for w in pre if cx.resolve(w.ast.value, w) != want]
        if wrong:
            out.bad(fn, wrong[0].ast, f'{path} must be set to {want} (found {astx.src(wrong[0].ast.value)})',
                    key=f'ctx-install:{key}')
            continue
        w = g.dominated_by(y, pre, labels=cfgm.noexc)
        if w is not None:
            out.bad(fn, y.ast, f'{path} is not installed on every path to the yield: ' + g.fmt_path(w),
                    key=f'ctx-install:{key}')
            continue
        after = set(g.reach(pre))
        bad = False
        for r in post:
            v = r.ast.value
            saved = None
            if isinstance(v, ast.Name):
                val, d = cx.alias(v.id, r)
                if val is not None and cx.resolve(val, d) == path and d not in after:
                    saved = d
            if saved is None:
                plain = isinstance(v, (ast.Name, ast.Constant)) or (astx.path(v) or '').startswith('self.')
                if plain:
                    out.bad(fn, r.ast, f'{path} is not restored from a snapshot taken before it was overwritten '
                            f'(found {astx.src(v)})', key=f'ctx-restore:{key}')
                else:
                    out.unsure(fn, r.ast, f'cannot tell whether {astx.src(v)} is the saved value of {path}')
                bad = True
        if bad:
            continue
        w = g.must_pass([m for m, _ in g.succ[y]], [g.exit, g.raise_exit], post)
        if w is not None:
            out.bad(fn, y.ast, f'{path} is not restored on every exit of the context (an exception in the '
                    f'body leaves the totals\' {key} installed): ' + g.fmt_path(w), key=f'ctx-restore:{key}')
            continue
        out.ok(fn, pre[0].ast, f'{path}: saved, set to {want}, restored on normal and exceptional exit')

    fn = tj(repo, '_compute_totals_approx')
    cx = Ctx(fn)
    g = cx.g
    ws = _writes_to(cx, 'self.model._tot_jac')
    sets = [w for w in ws if astx.path(w.ast.value) == 'self']
    resets = [w for w in ws if isinstance(w.ast.value, ast.Constant) and w.ast.value.value is None]
    other = [w for w in ws if w not in sets and w not in resets]
    lins = stmt_calls(g, lambda c: astx.callee_attr(c) == '_linearize' and
                      cx.resolve(astx.receiver(c)) == 'self.model')
    if not lins:
        raise AnalysisError(f'{fn.ident}: model._linearize call not found')
    if other:
        out.bad(fn, other[0].ast, 'model._tot_jac must be either this _TotalJacInfo or None', key='approx-totjac')
        return
    for ln in lins:
        w = g.dominated_by(ln, sets, labels=cfgm.noexc) if sets else [g.entry, ln]
        if w is None and resets:
            w = g.path([m for r in resets for m in g.normal_succ(r)], [ln], avoid=sets, labels=cfgm.noexc)
        if w is not None:
            out.bad(fn, ln.ast, 'model._linearize runs without model._tot_jac = self: the approximation writes '
                    'into the group jacobian and the total jacobian J stays untouched: ' + g.fmt_path(w),
                    key='approx-totjac')
            return
        w = g.must_pass([m for m, _ in g.succ[ln]], [g.exit, g.raise_exit], resets)
        if w is not None:
            out.bad(fn, ln.ast, 'model._tot_jac is not reset to None after the approximation on every path '
                    '(Group._apply_linear treats a jacobian identical to _tot_jac specially): ' + g.fmt_path(w),
                    key='approx-totjac')
            return
    out.ok(fn, lins[0].ast, 'model._linearize runs between `model._tot_jac = self` and its reset (also on exceptions)')


# =========================================================================== main loop of compute_totals
def main_loop(repo):
    ml = getattr(repo, '_c01_main_loop', None)
    if ml is None:
        ml = MainLoop(repo)
        try:
            repo._c01_main_loop = ml
        except AttributeError:
            pass
    return ml


class MainLoop:
    """Structure of _TotalJacInfo.compute_totals: mode loop, solve loop, setter / solve / scatter calls."""

    def __init__(self, repo):
        self.fn = fn = tj(repo, 'compute_totals')
        self.cx = cx = Ctx(fn)
        self.g = g = cx.g
        self.solves = stmt_calls(g, lambda c: astx.callee_attr(c) == '_solve_linear' and
                                 cx.resolve(astx.receiver(c)) == 'self.model')
        if not self.solves:
            raise AnalysisError(f'{fn.ident}: no model._solve_linear call found')
        loops = {id(astx.enclosing(s.ast, (ast.For,))): astx.enclosing(s.ast, (ast.For,)) for s in self.solves}
        if len(loops) != 1 or None in loops.values():
            raise AnalysisError(f'{fn.ident}: the _solve_linear calls are not in one common for loop')
        self.loop = loop = next(iter(loops.values()))
        self.mode_loop = None
        for a in astx.ancestors(loop):
            if isinstance(a, ast.For) and cx.resolve(a.iter, cx.node(a)) == 'self.modes' and \
                    isinstance(a.target, ast.Name):
                self.mode_loop = a
        if self.mode_loop is None:
            raise AnalysisError(f'{fn.ident}: enclosing `for <mode> in self.modes` loop not found')
        self.mode = self.mode_loop.target.id
        cx.pin(self.mode, [cx.node(self.mode_loop)])
        t = loop.target
        if not (isinstance(t, ast.Tuple) and len(t.elts) == 4 and all(isinstance(e, ast.Name) for e in t.elts)):
            raise AnalysisError(f'{fn.ident}: solve loop target is not a 4-tuple of names')
        self.v_inds, self.v_inset, self.v_jacset, self.v_meta = [e.id for e in t.elts]
        self.hdr = cx.node(loop)
        for nm in (self.v_inds, self.v_inset, self.v_jacset, self.v_meta):
            cx.pin(nm, [self.hdr])
        self.body = set(g.body_nodes(loop))
        self.body_entry = [m for m, lab in g.succ[self.hdr] if lab == 'true']

        def calls_var(v):
            return [n for n in self.body if any(isinstance(c.func, ast.Name) and
                                                cx.same_name(c.func, v, n) is True for c in n.calls())]
        self.insets = calls_var(self.v_inset)
        self.jacsets = calls_var(self.v_jacset)

    def call_of(self, node, pred):
        for c in node.calls():
            if pred(c):
                return c
        return None

    def once_in_order(self, out, groups):
        """groups: [(label, nodes)] must each execute exactly once per iteration, in this order."""
        g, fn = self.g, self.fn
        ok = True
        starts = self.body_entry
        for label, nodes in groups:
            if not nodes:
                out.bad(fn, self.loop, f'the solve loop never calls {label}', key=f'loop-missing:{label}')
                return False
            w = g.path(starts, [self.hdr], avoid=nodes, labels=cfgm.noexc)
            if w is not None:
                out.bad(fn, self.loop, f'an iteration can complete without {label} at this point of the '
                        'protocol seed -> solve -> scatter: ' + g.fmt_path(w), key=f'loop-order:{label}')
                ok = False
            for n in nodes:
                again = g.reach(g.normal_succ(n), avoid=[self.hdr], labels=cfgm.noexc) & set(nodes)
                if again:
                    out.bad(fn, n.ast, f'{label} can run twice in one iteration', key=f'loop-twice:{label}')
                    ok = False
            starts = [m for n in nodes for m in g.normal_succ(n)]
        return ok


def _arg_is_mode(ml, out, node, call, pos, kw, what, key):
    a = astx.arg(call, pos, kw)
    if a is None:
        out.unsure(ml.fn, node.ast, f'{what}: mode argument not found')
        return
    r = ml.cx.same_name(a, ml.mode, node)
    if r is True:
        out.ok(ml.fn, node.ast, f'{what} receives the loop direction `{ml.mode}`')
    elif r is False:
        out.bad(ml.fn, node.ast, f'{what} receives {astx.src(a)} instead of the loop direction `{ml.mode}`: with '
                'a bidirectional colouring (self.modes == [fwd, rev]) one of the two passes uses the wrong '
                'direction', key=key)
    else:
        out.unsure(ml.fn, node.ast, f'{what}: cannot resolve {astx.src(a)}')


@rule('C01.loop', floor=12)
def loop(repo, out):
    """Main loop of compute_totals: seed -> solve -> scatter once each per iteration, all with the loop's
    own mode; seeds_active gets the seeds of that direction; seed_vars / parallel_deriv_color /
    ncompute_totals bookkeeping."""
    ml = main_loop(repo)
    fn, cx, g = ml.fn, ml.cx, ml.g
    # --- protocol order
    if ml.once_in_order(out, [('input_setter', ml.insets), ('model._solve_linear', ml.solves),
                              ('jac_setter', ml.jacsets)]):
        out.ok(fn, ml.loop, 'input_setter -> _solve_linear -> jac_setter, each exactly once per iteration')
    # --- mode consistency
    it = ml.loop.iter
    if isinstance(it, ast.Call):
        _arg_is_mode(ml, out, ml.hdr, it, 1, 'mode', 'the index iterator', 'mode:iterator')
    else:
        out.unsure(fn, ml.loop, 'solve loop does not iterate over an iterator call')
    tabs = [s for a in astx.ancestors(ml.loop) if isinstance(a, ast.For) and a is not ml.mode_loop
            and astx.in_body(a, ml.mode_loop, 'body')
            for s in astx.walk(a.iter) if isinstance(s, ast.Subscript) and
            cx.resolve(s.value, cx.node(a)) == 'self.idx_iter_dict']
    for s in tabs:
        at = cx.node_of_expr(s)
        r = cx.same_name(s.slice, ml.mode, at)
        if r is True:
            out.ok(fn, at.ast, f'idx_iter_dict is indexed with the loop direction `{ml.mode}`')
        elif r is False:
            out.bad(fn, at.ast, f'idx_iter_dict is indexed with {astx.src(s.slice)} instead of `{ml.mode}`',
                    key='mode:idx_iter_dict')
        else:
            out.unsure(fn, at.ast, 'cannot resolve the index of idx_iter_dict')
    if not tabs:
        out.unsure(fn, ml.mode_loop, 'self.idx_iter_dict[mode] lookup not found')
    for n in ml.insets:
        _arg_is_mode(ml, out, n, ml.call_of(n, lambda c: isinstance(c.func, ast.Name) and
                                            cx.same_name(c.func, ml.v_inset, n) is True), 2, 'mode',
                     'input_setter', 'mode:input_setter')
    for n in ml.solves:
        _arg_is_mode(ml, out, n, ml.call_of(n, lambda c: astx.callee_attr(c) == '_solve_linear'), 0, 'mode',
                     'model._solve_linear', 'mode:solve_linear')
    for n in ml.jacsets:
        _arg_is_mode(ml, out, n, ml.call_of(n, lambda c: isinstance(c.func, ast.Name) and
                                            cx.same_name(c.func, ml.v_jacset, n) is True), 1, 'mode',
                     'jac_setter', 'mode:jac_setter')
    # --- seed direction
    seeds_with = []
    for s in ml.solves:
        for w, call in encl_withs(s.ast, stop=ml.loop):
            if astx.callee_attr(call) == 'seeds_active' and w not in [x for x, _ in seeds_with]:
                seeds_with.append((w, call))
    for w, call in seeds_with:
        wn = cx.node(w)
        res = {}
        for direction in ('fwd', 'rev'):
            for kw in ('fwd_seeds', 'rev_seeds'):
                e = astx.kwarg(call, kw)
                res[direction, kw] = _values_under(cx, e, wn, ml.mode, direction, ml.loop) if e is not None \
                    else {'None'}
        seedexpr = f"{ml.v_meta}['seed_vars']"
        want = {('fwd', 'fwd_seeds'): {seedexpr}, ('fwd', 'rev_seeds'): {'None'},
                ('rev', 'fwd_seeds'): {'None'}, ('rev', 'rev_seeds'): {seedexpr}}
        if any(v is None for v in res.values()):
            out.unsure(fn, w, 'cannot evaluate the seeds passed to seeds_active per direction')
        elif res == want:
            out.ok(fn, w, f'seeds_active gets {seedexpr} as fwd_seeds in fwd and as rev_seeds in rev, None otherwise')
        else:
            diff = [f'{d}:{k}={sorted(res[d, k])}' for (d, k) in want if res[d, k] != want[d, k]]
            out.bad(fn, w, 'seeds_active is given the seeds of the wrong direction (relevance then prunes the '
                    'systems this solve needs): ' + '; '.join(diff), key='seed-direction')
    if not seeds_with:
        out.bad(fn, ml.solves[0].ast, 'model._solve_linear is not inside relevance.seeds_active(...)',
                key='seed-direction')
    # --- problem-level bookkeeping
    sv_path = "self.model._problem_meta['seed_vars']"
    pdc_path = "self.model._problem_meta['parallel_deriv_color']"
    sv_writes = [n for n in _writes_to(cx, sv_path) if n in ml.body]
    def _is_iter_seeds(n):
        v = n.ast.value
        for _ in range(4):
            if isinstance(v, ast.Name):
                v2, d = cx.alias(v.id, n)
                if v2 is None:
                    return False
                v, n = v2, d
        return xdump(v) == xdump(xparse(f"{ml.v_meta}['seed_vars']"))
    sv_set = [n for n in sv_writes if _is_iter_seeds(n)]
    sv_reset = [n for n in sv_writes if isinstance(n.ast.value, ast.Constant) and n.ast.value.value is None]
    pdc_reset = [n for n in _writes_to(cx, pdc_path) if n in ml.body and
                 isinstance(n.ast.value, ast.Constant) and n.ast.value.value is None]
    strange = [n for n in sv_writes if n not in sv_set and n not in sv_reset]
    if strange and (isinstance(strange[0].ast.value, ast.Constant) or
                    (astx.path(strange[0].ast.value) and ml.v_meta not in astx.names(strange[0].ast.value))):
        out.bad(fn, strange[0].ast, f"seed_vars must be {ml.v_meta}['seed_vars'] during the solve and None "
                'afterwards', key='seed-vars')
    elif strange:
        out.unsure(fn, strange[0].ast, 'unrecognised value stored as seed_vars')
    else:
        w = None
        for s in ml.solves:
            w = w or g.path(ml.body_entry, [s], avoid=sv_set, labels=cfgm.noexc)
            if w is None and sv_set:
                w = g.path([m for r in sv_reset for m in g.normal_succ(r)], [s], avoid=sv_set + [ml.hdr],
                           labels=cfgm.noexc)
        if w is not None or not sv_set:
            out.bad(fn, ml.solves[0].ast, "_problem_meta['seed_vars'] is not set to this iteration's seed "
                    'variables before the solve (the RHS cache of the linear solvers and the FD transfer '
                    'correction key on it): ' + g.fmt_path(w), key='seed-vars')
        else:
            out.ok(fn, sv_set[0].ast, "_problem_meta['seed_vars'] set from the iteration metadata before the solve")
    for label, resets, key in (('seed_vars', sv_reset, 'reset:seed_vars'),
                               ('parallel_deriv_color', pdc_reset, 'reset:parallel_deriv_color')):
        starts = [m for n in ml.jacsets for m in g.normal_succ(n)] or ml.body_entry
        w = g.path(starts, [ml.hdr], avoid=resets, labels=cfgm.noexc)
        if w is not None:
            out.bad(fn, ml.loop, f"_problem_meta['{label}'] is not reset to None at the end of every iteration "
                    '(the next solve / transfer sees the previous colour or seeds): ' + g.fmt_path(w), key=key)
        else:
            out.ok(fn, resets[0].ast, f"_problem_meta['{label}'] reset after the scatter in every iteration")
    # ncompute_totals
    incs = [n for n in g.nodes if n.kind == 'stmt' and isinstance(n.ast, ast.AugAssign) and
            isinstance(n.ast.op, ast.Add) and
            cx.resolve(n.ast.target, n) == "self.model._problem_meta['ncompute_totals']"]
    w = None
    for s in ml.solves:
        w = w or g.dominated_by(s, incs, labels=cfgm.noexc)
    if w is not None or not incs:
        out.bad(fn, ml.solves[0].ast, "_problem_meta['ncompute_totals'] is not incremented before solving: "
                'LinearRHSChecker keeps serving adjoint solutions cached for the previous linearization point',
                key='ncompute-totals')
    else:
        out.ok(fn, incs[0].ast, 'ncompute_totals incremented before any solve (invalidates RHS caches)')


def _branch_feasible(cx, d, mode_name, direction, stop):
    """False if definition node d sits in an if-branch that contradicts mode == direction."""
    child = d.ast
    for a in astx.ancestors(d.ast):
        if a is stop:
            break
        if isinstance(a, ast.If):
            r = mode_test(a.test, cx, mode_name, cx.node(a))
            if r is not None:
                in_body = any(child is s for s in a.body)
                if in_body != (r == direction):
                    return False
        child = a
    return True


def _values_under(cx, e, at, mode_name, direction, stop, depth=0):
    """Set of canonical value texts expression e can have at node `at` when mode == direction, or None."""
    if depth > 4:
        return None
    if isinstance(e, ast.Constant) and e.value is None:
        return {'None'}
    if isinstance(e, ast.IfExp):
        r = mode_test(e.test, cx, mode_name, at)
        if r is None:
            return None
        return _values_under(cx, e.body if r == direction else e.orelse, at, mode_name, direction, stop, depth + 1)
    if isinstance(e, ast.Name):
        ds = cx.rd.defs(at, e.id)
        vals = set()
        for d in ds:
            dv = assigned_value(d.ast, e.id) if d.kind == 'stmt' else None
            if dv is None:
                return None
            if not _branch_feasible(cx, d, mode_name, direction, stop):
                continue
            v = _values_under(cx, dv, d, mode_name, direction, stop, depth + 1)
            if v is None:
                return None
            vals |= v
        return vals or None
    if isinstance(e, ast.Subscript) and isinstance(e.value, ast.Name) and astx.const_str(e.slice):
        return {f'{e.value.id}[{astx.const_str(e.slice)!r}]'}
    return None


# =========================================================================== C01.linearize
def _ctx_calls(cx, stmt, attr, recv_path, stop=None):
    """With statements enclosing stmt whose context manager is <recv_path>.<attr>(...)."""
    accept = {recv_path}
    if recv_path == 'self.relevance':
        accept.add('self.model._relevance')     # the same object once _totjac_context has installed it
    return [w for w, call in encl_withs(stmt, stop) if astx.callee_attr(call) == attr and
            cx.resolve(astx.receiver(call), cx.node(w)) in accept]


@rule('C01.linearize', floor=11)
def linearize(repo, out):
    """model._linearize (scaled state, under _totjac_context) precedes linear_solver._linearize precedes
    every solve; solves run inside _scaled_context_all and seeds_active; seeds are written and the
    solution is read outside the scaled context; Group._linearize linearizes a subsystem before its solver."""
    ml = main_loop(repo)
    fn, cx, g = ml.fn, ml.cx, ml.g
    mls = stmt_calls(g, lambda c: astx.callee_attr(c) == '_linearize' and
                     cx.resolve(astx.receiver(c)) == 'self.model')
    lss = stmt_calls(g, lambda c: astx.callee_attr(c) == '_linearize' and
                     cx.resolve(astx.receiver(c)) in ('self.model._linear_solver', 'self.model.linear_solver'))
    if not mls:
        out.bad(fn, fn.node, 'compute_totals never calls model._linearize: partials are those of an earlier point',
                key='no-model-linearize')
        return
    if not lss:
        out.bad(fn, fn.node, 'compute_totals never calls model._linear_solver._linearize(): factorizations are '
                'those of an earlier point', key='no-solver-linearize')
        return
    # order
    w = None
    for ls in lss:
        w = w or g.dominated_by(ls, mls, labels=cfgm.noexc)
    if w is not None:
        out.bad(fn, lss[0].ast, 'the linear solver is linearized (factorized) before the model jacobian is '
                'updated: ' + g.fmt_path(w), key='order:solver-linearize')
    else:
        late = set()
        for ls in lss:
            late |= g.reach(g.normal_succ(ls), labels=cfgm.noexc) & set(mls)
        if late:
            out.bad(fn, next(iter(late)).ast, 'model._linearize runs again after the linear solver was '
                    'factorized', key='order:solver-linearize')
        else:
            out.ok(fn, lss[0].ast, 'model._linearize precedes linear_solver._linearize')
    w = None
    for s in ml.solves:
        w = w or g.dominated_by(s, lss, labels=cfgm.noexc)
    if w is not None:
        out.bad(fn, ml.solves[0].ast, 'a linear solve can run before the linear solver was linearized: ' +
                g.fmt_path(w), key='order:solve')
    else:
        out.ok(fn, ml.solves[0].ast, 'linear_solver._linearize precedes every model._solve_linear')
    # sub_do_ln comes from the same solver
    for m in mls:
        c = ml.call_of(m, lambda c: astx.callee_attr(c) == '_linearize')
        a = astx.arg(c, 0, 'sub_do_ln')
        if a is None:
            out.ok(fn, m.ast, 'sub_do_ln left at its default (True): sub-solvers are linearized')
        elif isinstance(a, ast.Call) and astx.callee_attr(a) == '_linearize_children' and \
                cx.resolve(astx.receiver(a), m) in ('self.model._linear_solver', 'self.model.linear_solver'):
            out.ok(fn, m.ast, 'sub_do_ln is decided by the model\'s own linear solver')
        elif isinstance(a, ast.Constant) and a.value is False:
            out.bad(fn, m.ast, 'sub_do_ln=False: linear solvers of subsystems are never re-linearized',
                    key='sub-do-ln')
        else:
            out.unsure(fn, m.ast, f'unrecognised sub_do_ln argument {astx.src(a)}')
    # enclosures
    for m in mls:
        if not _ctx_calls(cx, m.ast, '_scaled_context_all', 'self.model'):
            out.bad(fn, m.ast, 'model._linearize runs outside model._scaled_context_all(): components unscale '
                    'vectors that are already physical, so partials are evaluated at a wrongly scaled point',
                    key='enclose:linearize-scaled')
        elif not _ctx_calls(cx, m.ast, '_totjac_context', 'self'):
            out.bad(fn, m.ast, 'model._linearize runs outside self._totjac_context(): relevance and mode of '
                    'this total jacobian are not installed', key='enclose:linearize-totjac')
        else:
            out.ok(fn, m.ast, 'model._linearize inside _totjac_context and _scaled_context_all')
    for m in mls:
        if _ctx_calls(cx, m.ast, 'all_seeds_active', 'self.relevance'):
            out.ok(fn, m.ast, 'model._linearize runs with all seeds active (no subsystem is skipped by relevance)')
        else:
            out.bad(fn, m.ast, 'model._linearize runs outside relevance.all_seeds_active(): Group._linearize filters '
                    'subsystems by the seeds of whatever solve ran last, so some partials keep their old values',
                    key='enclose:linearize-all-seeds')
    apx = stmt_calls(g, lambda c: astx.call_name(c) == 'self._compute_totals_approx')
    for a in apx:
        if _ctx_calls(cx, a.ast, 'all_seeds_active', 'self.relevance'):
            out.ok(fn, a.ast, 'the approximation path runs with all seeds active')
        else:
            out.bad(fn, a.ast, '_compute_totals_approx runs outside relevance.all_seeds_active(): the model is '
                    'perturbed with systems pruned for the seeds of an earlier solve', key='enclose:approx-all-seeds')
    for s in ml.solves:
        missing = [nm for nm, recv in (('_scaled_context_all', 'self.model'), ('seeds_active', 'self.relevance'),
                                       ('_totjac_context', 'self'))
                   if not _ctx_calls(cx, s.ast, nm, recv)]
        if missing:
            out.bad(fn, s.ast, 'model._solve_linear runs outside ' + ', '.join(missing) + ' (linear solvers '
                    'assume scaled vectors and the relevance of the current seeds)', key='enclose:solve')
        else:
            out.ok(fn, s.ast, '_solve_linear inside _totjac_context, seeds_active and _scaled_context_all')
    for label, nodes in (('input_setter', ml.insets), ('jac_setter', ml.jacsets)):
        for n in nodes:
            if _ctx_calls(cx, n.ast, '_scaled_context_all', 'self.model', stop=None):
                out.bad(fn, n.ast, f'{label} runs inside model._scaled_context_all(): seeds must be written and '
                        'solutions read in the physical state, otherwise ref/res_ref leak into J',
                        key=f'enclose:{label}')
            else:
                out.ok(fn, n.ast, f'{label} runs in the physical state (outside _scaled_context_all)')

    # Group._linearize: subsystem jacobian before subsystem solver
    fn = repo.func(GROUP, 'Group._linearize')
    cx = Ctx(fn)
    g = cx.g
    found = False
    for lp in [s for s in astx.walk_stmts(fn.node.body) if isinstance(s, ast.For) and isinstance(s.target, ast.Name)]:
        v = lp.target.id
        body = set(g.body_nodes(lp))
        subs = [n for n in body if any(astx.callee_attr(c) == '_linearize' and astx.path(astx.receiver(c)) == v
                                       for c in n.calls())]
        sols = [n for n in body if any(astx.callee_attr(c) == '_linearize' and
                                       astx.path(astx.receiver(c)) == f'{v}._linear_solver' for c in n.calls())]
        if not subs and not sols:
            continue
        found = True
        hdr = cx.node(lp)
        entry = [m for m, lab in g.succ[hdr] if lab == 'true']
        if not subs:
            out.bad(fn, lp, f'subsystems are not linearized ({v}._linearize missing)', key='group:sub-linearize')
            continue
        w = g.path(entry, [hdr], avoid=subs, labels=cfgm.noexc)
        if w is not None:
            out.bad(fn, lp, f'an iteration can skip {v}._linearize: ' + g.fmt_path(w), key='group:sub-linearize')
            continue
        w = None
        for s in sols:
            w = w or g.path(entry, [s], avoid=subs, labels=cfgm.noexc)
        if w is not None:
            out.bad(fn, sols[0].ast, f'{v}._linear_solver._linearize() can run before {v}._linearize(): the '
                    'factorization is built from the previous jacobian: ' + g.fmt_path(w), key='group:order')
            continue
        late = set()
        for s in sols:
            late |= g.reach(g.normal_succ(s), avoid=[hdr], labels=cfgm.noexc) & set(subs)
        if late:
            out.bad(fn, next(iter(late)).ast, 'subsystem jacobian updated after its solver was factorized',
                    key='group:order')
            continue
        out.ok(fn, lp, f'{v}._linearize precedes {v}._linear_solver._linearize in every iteration')
    if not found:
        raise AnalysisError(f'{fn.ident}: subsystem linearization loop not found')


# =========================================================================== C01.mode-tables
def _self_assigns(fn, attr):
    """Assign statements (anywhere in fn) one of whose targets is self.<attr>."""
    return [st for st in astx.walk_stmts(fn.node.body) if isinstance(st, ast.Assign) and
            any(astx.path(t) == f'self.{attr}' for t in st.targets)]


def _mode_dict(st):
    """{'fwd': expr, 'rev': expr} of a literal dict value, else None."""
    v = st.value
    if not isinstance(v, ast.Dict) or len(v.keys) != 2:
        return None
    d = {astx.const_str(k): e for k, e in zip(v.keys, v.values) if k is not None}
    return d if set(d) == {'fwd', 'rev'} else None


@rule('C01.mode-tables', floor=6)
def mode_tables(repo, out):
    """__init__: input_vec/output_vec/input_meta/output_meta map fwd/rev to the right vectors and
    metadata (rows = of, columns = wrt); index maps are built from the table entry of their own mode."""
    fn = tj(repo, '__init__')
    # which local holds the `of` metadata / the `wrt` metadata: rows/cols of J
    jst = [st for st in _self_assigns(fn, 'J') if isinstance(st.value, ast.Call) and
           astx.callee_attr(st.value) == 'zeros' and st.value.args and isinstance(st.value.args[0], ast.Tuple)
           and len(st.value.args[0].elts) == 2]
    if len(jst) != 1:
        raise AnalysisError(f'{fn.ident}: allocation self.J = np.zeros((rows, cols)) not found')
    rows, cols = (astx.path(e) for e in jst[0].value.args[0].elts)
    role = {}
    for st in astx.walk_stmts(fn.node.body):
        if isinstance(st, ast.Assign) and isinstance(st.value, ast.Call) and \
                astx.call_name(st.value) == 'self._get_tuple_map' and st.value.args:
            tgt = st.targets[0]
            first = astx.path(tgt.elts[0]) if isinstance(tgt, ast.Tuple) and tgt.elts else astx.path(tgt)
            a0 = astx.path(st.value.args[0])
            if first == rows:
                role['of'] = a0
            elif first == cols:
                role['wrt'] = a0
    if set(role) != {'of', 'wrt'} or None in role.values() or role['of'] == role['wrt']:
        raise AnalysisError(f'{fn.ident}: cannot tell which metadata sizes the rows / the columns of J')
    want = {'input_meta': {'fwd': role['wrt'], 'rev': role['of']},
            'output_meta': {'fwd': role['of'], 'rev': role['wrt']}}
    for attr, w in want.items():
        sts = _self_assigns(fn, attr)
        if len(sts) != 1 or _mode_dict(sts[0]) is None:
            out.unsure(fn, sts[0] if sts else fn.node, f'self.{attr} is not a single literal fwd/rev dict')
            continue
        got = {k: astx.path(e) for k, e in _mode_dict(sts[0]).items()}
        if got == w:
            out.ok(fn, sts[0], f'self.{attr}: fwd -> {w["fwd"]}, rev -> {w["rev"]} (rows of J are sized by '
                   f'{role["of"]}, columns by {role["wrt"]})')
        elif set(got.values()) <= set(role.values()):
            out.bad(fn, sts[0], f'self.{attr} maps fwd -> {got["fwd"]}, rev -> {got["rev"]}; expected '
                    f'fwd -> {w["fwd"]}, rev -> {w["rev"]}: seeds go to the wrong side of the jacobian',
                    key=f'table:{attr}')
        else:
            out.unsure(fn, sts[0], f'self.{attr} holds unrecognised entries')
    wantv = {'input_vec': {'fwd': '_dresiduals', 'rev': '_doutputs'},
             'output_vec': {'fwd': '_doutputs', 'rev': '_dresiduals'}}
    for attr, w in wantv.items():
        sts = _self_assigns(fn, attr)
        if len(sts) != 1 or _mode_dict(sts[0]) is None:
            out.unsure(fn, sts[0] if sts else fn.node, f'self.{attr} is not a single literal fwd/rev dict')
            continue
        got = {}
        for k, e in _mode_dict(sts[0]).items():
            p = astx.path(e) or ''
            got[k] = p.rsplit('.', 1)[-1] if p.startswith(('model.', 'self.model.')) else None
        if got == w:
            out.ok(fn, sts[0], f'self.{attr}: fwd -> model.{w["fwd"]}, rev -> model.{w["rev"]}')
        elif None not in got.values() and set(got.values()) <= {'_dresiduals', '_doutputs', '_dinputs'}:
            out.bad(fn, sts[0], f'self.{attr} maps fwd -> {got["fwd"]}, rev -> {got["rev"]}; expected fwd -> '
                    f'{w["fwd"]}, rev -> {w["rev"]} (fwd seeds the residual side and reads outputs, rev the '
                    'opposite)', key=f'table:{attr}')
        else:
            out.unsure(fn, sts[0], f'self.{attr} holds unrecognised entries')
    # sol2jac_map[m] = _get_sol2jac_map(output_meta[m], ..., m)
    n = 0
    for st in astx.walk_stmts(fn.node.body):
        if isinstance(st, ast.Assign) and isinstance(st.value, ast.Call) and \
                astx.call_name(st.value) == 'self._get_sol2jac_map':
            n += 1
            t = st.targets[0]
            c = st.value
            a0, a2 = astx.arg(c, 0, 'vois'), astx.arg(c, 2, 'mode')
            if not (isinstance(t, ast.Subscript) and astx.path(t.value) == 'self.sol2jac_map' and
                    isinstance(t.slice, ast.Name) and isinstance(a0, ast.Subscript) and a2 is not None):
                out.unsure(fn, st, 'unrecognised construction of sol2jac_map')
                continue
            m = t.slice.id
            if astx.path(a0.value) != 'self.output_meta':
                out.bad(fn, st, f'the solution-to-jacobian map is built from {astx.src(a0.value)}; the solution '
                        'vector holds the variables of self.output_meta', key='sol2jac:table')
            elif not (isinstance(a0.slice, ast.Name) and a0.slice.id == m and isinstance(a2, ast.Name) and a2.id == m):
                out.bad(fn, st, f'sol2jac_map[{m}] is built from output_meta[{astx.src(a0.slice)}] with mode '
                        f'{astx.src(a2)}: all three must be the same direction', key='sol2jac:mode')
            else:
                out.ok(fn, st, f'sol2jac_map[{m}] built from output_meta[{m}] with mode {m}')
    if n == 0:
        out.unsure(fn, fn.node, 'construction of self.sol2jac_map not found')
    # _create_in_idx_map iterates input_meta[mode]
    f2 = tj(repo, '_create_in_idx_map')
    mode = params(f2)[0] if params(f2) else None
    loops = [s for s in astx.walk_stmts(f2.node.body) if isinstance(s, ast.For) and
             any(isinstance(x, ast.Subscript) and astx.path(x.value) in ('self.input_meta', 'self.output_meta')
                 for x in astx.walk(s.iter))]
    if not loops or mode is None:
        out.unsure(f2, f2.node, 'loop over self.input_meta[mode] not found')
    for lp in loops:
        sub = [x for x in astx.walk(lp.iter) if isinstance(x, ast.Subscript) and
               astx.path(x.value) in ('self.input_meta', 'self.output_meta')][0]
        if astx.path(sub.value) != 'self.input_meta':
            out.bad(f2, lp, 'seed indices are enumerated over self.output_meta; seeds belong to the variables of '
                    'self.input_meta', key='in-idx-map:table')
        elif not (isinstance(sub.slice, ast.Name) and sub.slice.id == mode):
            out.bad(f2, lp, f'seed indices are enumerated over input_meta[{astx.src(sub.slice)}] instead of '
                    f'input_meta[{mode}]', key='in-idx-map:mode')
        else:
            out.ok(f2, lp, f'seed indices enumerated over input_meta[{mode}]')


# =========================================================================== C01.slots
ITER_FAMILIES = {'single_index_iter': ('single_input_setter', 'single_jac_setter'),
                 'simul_coloring_iter': ('simul_coloring_input_setter', 'simul_coloring_jac_setter'),
                 'par_deriv_iter': ('par_deriv_input_setter', 'par_deriv_jac_setter'),
                 'directional_iter': ('directional_input_setter', 'directional_jac_setter')}
SOL2JAC_CONSUMERS = ('simple_single_jac_scatter', 'simul_coloring_jac_setter', 'directional_jac_setter')


def _closure_names(fn, seeds):
    """Names assigned (directly) from expressions that mention a name in seeds; fixpoint."""
    names = set(seeds)
    changed = True
    while changed:
        changed = False
        for st in astx.walk_stmts(fn.node.body):
            if isinstance(st, ast.Assign) and (astx.names(st.value) & names):
                for t in astx.assigned_targets(st):
                    if isinstance(t, ast.Name) and t.id not in names:
                        names.add(t.id)
                        changed = True
    return names


def _classify_container(cx, e, at, depth=0):
    """'sol' if e denotes the solution array (output_vec[m].asarray()), 'jac' if J or a J-shaped scratch."""
    if depth > 4:
        return None
    if isinstance(e, ast.Name):
        ds = cx.rd.defs(at, e.id)
        kinds = set()
        for d in ds:
            if d.kind == 'stmt' and isinstance(d.ast, ast.Assign) and len(d.ast.targets) == 1 and \
                    isinstance(d.ast.targets[0], ast.Name):
                kinds.add(_classify_container(cx, d.ast.value, d, depth + 1))
            else:
                kinds.add(None)
        return kinds.pop() if len(kinds) == 1 else None
    p = astx.path(e) or ''
    if p == 'self.output_vec[*].asarray()':
        return 'sol'
    if p == 'self.input_vec[*].asarray()':
        return 'seedvec'
    if p == 'self.J' or p.startswith('self.jac_scratch['):
        return 'jac'
    return None


@rule('C01.slots', floor=12)
def slots(repo, out):
    """Tuple orders agree between producers and consumers: iterators yield (indices, input setter, jac
    setter, meta) of one family; _get_sol2jac_map returns (solution indices, jacobian indices, ...) and
    the scatter code indexes the solution vector with the first and J with the second; fwd writes a
    column of J, rev a row; in_idx_map entries carry the seed source in the slot the colouring reads."""
    # --- iterators
    for it, (ins, jac) in ITER_FAMILIES.items():
        fn = tj(repo, it)
        cx = Ctx(fn)
        ys = [x for st in astx.walk_stmts(fn.node.body) for x in own_walk(st) if isinstance(x, ast.Yield)]
        if not ys:
            raise AnalysisError(f'{fn.ident}: no yield')
        for y in ys:
            v = y.value
            if not (isinstance(v, ast.Tuple) and len(v.elts) == 4):
                out.bad(fn, astx.stmt_of(y), 'the solve loop unpacks (indices, input_setter, jac_setter, meta); '
                        f'this iterator yields {astx.src(v)}', key=f'{it}:arity')
                continue
            got = tuple(cx.resolve(e, cx.node(astx.stmt_of(y))) for e in v.elts[1:3])
            want = (f'self.{ins}', f'self.{jac}')
            if got == want:
                out.ok(fn, astx.stmt_of(y), f'yields (indices, {ins}, {jac}, meta)')
            elif all(g_ and g_.startswith('self.') and g_.endswith('_setter') for g_ in got):
                out.bad(fn, astx.stmt_of(y), f'yields setters {got[0]}, {got[1]}; this iterator must pair '
                        f'{want[0]} with {want[1]} (seed layout and scatter layout belong together)',
                        key=f'{it}:family')
            else:
                out.unsure(fn, astx.stmt_of(y), 'cannot resolve the yielded setters')
    # --- sol2jac producer
    fn = tj(repo, '_get_sol2jac_map')
    cx = Ctx(fn)
    g = cx.g
    rets = [n for n in g.nodes if n.kind == 'stmt' and isinstance(n.ast, ast.Return)]
    solv = set()
    for st in astx.walk_stmts(fn.node.body):
        if isinstance(st, ast.Assign) and isinstance(st.value, ast.Call) and astx.callee_attr(st.value) == 'get_range':
            solv |= {t.id for t in astx.assigned_targets(st) if isinstance(t, ast.Name)}
    if not solv:
        raise AnalysisError(f'{fn.ident}: no <vec>.get_range(...) unpack found')
    solv = _closure_names(fn, solv)
    accs = {st.target.id for st in astx.walk_stmts(fn.node.body) if isinstance(st, ast.AugAssign) and
            isinstance(st.op, ast.Add) and isinstance(st.target, ast.Name)}
    offs = _closure_names(fn, accs) - solv
    appends = {}
    for st in astx.walk_stmts(fn.node.body):
        for c in own_calls(st):
            if astx.callee_attr(c) == 'append' and isinstance(astx.receiver(c), ast.Name) and len(c.args) == 1:
                appends.setdefault(astx.receiver(c).id, []).append((st, c.args[0]))

    def list_kind(lst):
        kinds = set()
        for st, a in appends.get(lst, []):
            nm = astx.names(a)
            s_, o_ = bool(nm & solv), bool(nm & offs)
            kinds.add('sol' if s_ and not o_ else 'jac' if o_ and not s_ else '?')
        return kinds

    def list_of(name, at):
        ls = set()
        for d in cx.rd.defs(at, name):
            if d.kind == 'stmt' and isinstance(d.ast, ast.Assign) and isinstance(d.ast.value, ast.Call):
                c = d.ast.value
                if astx.callee_attr(c) in ('hstack', 'concatenate') and c.args and isinstance(c.args[0], ast.Name):
                    ls.add(c.args[0].id)
                elif astx.callee_attr(c) in ('zeros', 'empty') and c.args and _is_zero(c.args[0]):
                    continue
                else:
                    return None
            else:
                return None
        return ls
    for r in rets:
        v = r.ast.value
        if not (isinstance(v, ast.Tuple) and len(v.elts) == 3 and all(isinstance(e, ast.Name) for e in v.elts[:2])):
            out.unsure(fn, r.ast, 'return value is not a 3-tuple of names')
            continue
        l0, l1 = list_of(v.elts[0].id, r), list_of(v.elts[1].id, r)
        if not l0 or not l1 or len(l0) != 1 or len(l1) != 1:
            out.unsure(fn, r.ast, 'cannot trace the returned arrays to index lists')
            continue
        k0, k1 = list_kind(next(iter(l0))), list_kind(next(iter(l1)))
        if k0 == {'sol'} and k1 == {'jac'}:
            out.ok(fn, r.ast, f'returns (indices into the solution vector [{next(iter(l0))}], indices into the '
                   f'jacobian [{next(iter(l1))}], ...)')
        elif k0 == {'jac'} and k1 == {'sol'}:
            out.bad(fn, r.ast, 'returns (jacobian indices, solution indices, ...): every consumer unpacks '
                    '(solution indices, jacobian indices, _)', key='sol2jac:return-order')
        elif '?' not in k0 | k1 and ('jac' in k0 or 'sol' in k1):
            out.bad(fn, r.ast, f'the list of solution indices receives {sorted(k0)} entries and the list of '
                    f'jacobian indices {sorted(k1)} entries: an append goes to the wrong list',
                    key='sol2jac:append-list')
        else:
            out.unsure(fn, r.ast, f'index lists not classifiable ({sorted(k0)}, {sorted(k1)})')
    # --- sol2jac consumers
    for name in SOL2JAC_CONSUMERS:
        fn = tj(repo, name)
        cx = Ctx(fn)
        # slot variables: tuple unpacking of self.sol2jac_map[m] (directly or through a local holding the
        # entry) or constant indexing  entry[0] / self.sol2jac_map[m][1]
        def is_entry(e, at, depth=0):
            if isinstance(e, ast.Subscript) and astx.path(e.value) == 'self.sol2jac_map':
                return True
            if isinstance(e, ast.Name) and depth < 3:
                v, d = cx.alias(e.id, at)
                return v is not None and is_entry(v, d, depth + 1)
            return False
        slot = {}
        slot_stmts = []
        for st in astx.walk_stmts(fn.node.body):
            if not isinstance(st, ast.Assign) or len(st.targets) != 1:
                continue
            t, v = st.targets[0], st.value
            at = cx.node(st)
            if isinstance(t, ast.Tuple) and is_entry(v, at):
                for i, e in enumerate(t.elts):
                    if isinstance(e, ast.Name) and e.id != '_':
                        slot[e.id] = i
                slot_stmts.append(st)
            elif isinstance(t, ast.Name) and isinstance(v, ast.Subscript) and isinstance(v.slice, ast.Constant) \
                    and isinstance(v.slice.value, int) and is_entry(v.value, at):
                slot[t.id] = v.slice.value
                slot_stmts.append(st)
        byslot = {i: [n for n, k in slot.items() if k == i] for i in (0, 1)}
        if len(byslot[0]) != 1 or len(byslot[1]) != 1:
            out.unsure(fn, fn.node, 'unpacking / indexing of self.sol2jac_map[mode] not found')
            continue
        a = ast.Name(id=byslot[0][0], ctx=ast.Load())
        b = ast.Name(id=byslot[1][0], ctx=ast.Load())
        unp = [slot_stmts[0]]
        use = {a.id: set(), b.id: set()}
        for st in astx.walk_stmts(fn.node.body):
            if st in slot_stmts:
                continue
            for x in own_walk(st):
                if isinstance(x, ast.Name) and x.id in use and isinstance(x.ctx, ast.Load):
                    par = x._parent
                    if isinstance(par, ast.Tuple):
                        par = par._parent
                    if isinstance(par, ast.Subscript) and (par.slice is x or par.slice is x._parent):
                        use[x.id].add(_classify_container(cx, par.value, cx.node(st)))
                    else:
                        use[x.id].add(None)
        ua, ub = use[a.id], use[b.id]
        if ua == {'sol'} and ub == {'jac'}:
            out.ok(fn, unp[0], f'{a.id} indexes the solution vector, {b.id} indexes J')
        elif None not in ua | ub and ua and ub and ('jac' in ua or 'sol' in ub):
            out.bad(fn, unp[0], f'{a.id} (first slot: solution indices) is used on {sorted(ua)} and {b.id} '
                    f'(second slot: jacobian indices) on {sorted(ub)}: the two index arrays are swapped',
                    key=f'{name}:index-roles')
        else:
            out.unsure(fn, unp[0], f'uses of the index arrays not recognised ({ua}, {ub})')
    # --- orientation of the single scatter
    fn = tj(repo, 'simple_single_jac_scatter')
    cx = Ctx(fn)
    ps = params(fn)
    if len(ps) < 2:
        raise AnalysisError(f'{fn.ident}: expected (i, mode)')
    seed, mode = ps[0], ps[1]
    cx.pin(mode, [cx.g.entry])
    jw = [st for st in astx.walk_stmts(fn.node.body) if isinstance(st, ast.Assign) and
          isinstance(st.targets[0], ast.Subscript) and cx.resolve(st.targets[0].value, cx.node(st)) == 'self.J']
    seen = set()
    for st in jw:
        sl = st.targets[0].slice
        if not (isinstance(sl, ast.Tuple) and len(sl.elts) == 2):
            out.unsure(fn, st, 'J is not written with a (row, column) subscript')
            continue
        pos = [i for i, e in enumerate(sl.elts) if isinstance(e, ast.Name) and e.id == seed]
        direction = None
        child = st
        for anc in astx.ancestors(st):
            if isinstance(anc, ast.If):
                r = mode_test(anc.test, cx, mode, cx.node(anc))
                if r is not None:
                    direction = r if any(child is s for s in anc.body) else {'fwd': 'rev', 'rev': 'fwd'}[r]
                    break
            child = anc
        if direction is None or len(pos) != 1:
            out.unsure(fn, st, 'cannot tell direction / seed index position of this write into J')
            continue
        seen.add(direction)
        want = 1 if direction == 'fwd' else 0
        if pos[0] == want:
            out.ok(fn, st, f'{direction}: seed index `{seed}` selects the ' + ('column' if want else 'row') + ' of J')
        else:
            out.bad(fn, st, f'in {direction} mode the seed index `{seed}` must select the ' +
                    ('column' if want else 'row') + ' of J (a forward solve yields one column d(all of)/d(wrt_i), '
                    'a reverse solve one row); found ' + astx.src(st.targets[0]), key=f'scatter-orientation:{direction}')
    if seen != {'fwd', 'rev'} and len(jw) >= 1:
        out.unsure(fn, fn.node, f'writes into J found only for {sorted(seen)}')
    # --- in_idx_map tuple slots
    fn = tj(repo, '_create_in_idx_map')
    cx = Ctx(fn)
    ext = [c for st in astx.walk_stmts(fn.node.body) for c in own_calls(st)
           if astx.callee_attr(c) in ('extend', 'append') and astx.path(astx.receiver(c)) == 'idx_map']
    tup = None
    for c in ext:
        for x in astx.walk(c.args[0]) if c.args else []:
            if isinstance(x, ast.Name):
                val, d = cx.alias(x.id, cx.node(astx.stmt_of(c)))
                if isinstance(val, ast.Tuple):
                    tup = val
            elif isinstance(x, ast.Tuple):
                tup = x
    seedsrc = set()
    for st in astx.walk_stmts(fn.node.body):
        if isinstance(st, ast.Assign) and isinstance(st.targets[0], ast.Subscript) and \
                astx.const_str(st.targets[0].slice) == 'seed_vars' and isinstance(st.value, ast.Set) and \
                len(st.value.elts) == 1:
            seedsrc.add(xdump(st.value.elts[0]))
    unp = [st for st in astx.walk_stmts(fn.node.body) if isinstance(st, ast.Assign) and
           isinstance(st.targets[0], ast.Tuple) and isinstance(st.value, ast.Subscript) and
           astx.path(st.value.value) == 'idx_map']
    if tup is None or len(seedsrc) != 1 or len(unp) != 1 or len(unp[0].targets[0].elts) != len(tup.elts):
        out.unsure(fn, fn.node, 'idx_map producer / consumer idiom not recognised')
    else:
        src_slot = [i for i, e in enumerate(tup.elts) if xdump(e) in seedsrc]
        names_ = [e.id if isinstance(e, ast.Name) else None for e in unp[0].targets[0].elts]
        used = None
        for st in astx.walk_stmts(fn.node.body):
            for c in own_calls(st):
                if astx.callee_attr(c) == 'add' and c.args and isinstance(c.args[0], ast.Name) and \
                        c.args[0].id in names_ and c.args[0].id != '_':
                    used = names_.index(c.args[0].id)
        cache_slot = [i for i, e in enumerate(tup.elts) if isinstance(e, ast.Name) and
                      (lambda v: isinstance(v, ast.Subscript) and astx.const_str(v.slice) == 'cache_linear_solution')
                      (cx.alias(e.id, cx.node(astx.stmt_of(tup)))[0])]
        if used is None or len(src_slot) != 1:
            out.unsure(fn, unp[0], 'cannot tell which slot feeds the colour\'s seed variables')
        elif used != src_slot[0]:
            out.bad(fn, unp[0], f'the colouring branch collects seed variables from slot {used} of idx_map '
                    f'entries, but the source name (the thing the uncoloured branches use as seed_vars) is in '
                    f'slot {src_slot[0]}: relevance is then activated for the wrong names', key='idx-map:seed-slot')
        else:
            out.ok(fn, unp[0], f'slot {used} of idx_map entries is the seed source in producer and consumer')
        # consumers of the cache flag
        flags = []
        for cname in ('single_input_setter',):
            f2 = tj(repo, cname)
            for st in astx.walk_stmts(f2.node.body):
                if isinstance(st, ast.Assign) and isinstance(st.targets[0], ast.Tuple) and \
                        isinstance(st.value, ast.Subscript) and \
                        (astx.path(st.value.value) or '').startswith('self.in_idx_map['):
                    elts = st.targets[0].elts
                    tests = [s.test.id for s in astx.walk_stmts(f2.node.body) if isinstance(s, ast.If) and
                             isinstance(s.test, ast.Name)]
                    for i, e in enumerate(elts):
                        if isinstance(e, ast.Name) and e.id in tests:
                            flags.append((f2, st, i))
        for f2, st, i in flags:
            if len(cache_slot) == 1 and i == cache_slot[0]:
                out.ok(f2, st, f'slot {i} of in_idx_map entries is the cache_linear_solution flag on both sides')
            elif len(cache_slot) == 1:
                out.bad(f2, st, f'the flag tested here comes from slot {i} of in_idx_map entries, but '
                        f'cache_linear_solution is stored in slot {cache_slot[0]}', key='idx-map:cache-slot')
            else:
                out.unsure(f2, st, 'cache flag slot of the producer not identified')


# =========================================================================== C01.offsets
class _Lin:
    """Linear form  sum(coef * symbol) + const  (immutable)."""
    __slots__ = ('t', 'c')

    def __init__(self, terms=(), c=0):
        self.t = tuple(sorted((k, v) for k, v in dict(terms).items() if v != 0))
        self.c = c

    def __add__(self, o):
        d = dict(self.t)
        for k, v in o.t:
            d[k] = d.get(k, 0) + v
        return _Lin(d, self.c + o.c)

    def __sub__(self, o):
        d = dict(self.t)
        for k, v in o.t:
            d[k] = d.get(k, 0) - v
        return _Lin(d, self.c - o.c)

    def __eq__(self, o):
        return isinstance(o, _Lin) and self.t == o.t and self.c == o.c

    def __hash__(self):
        return hash((self.t, self.c))

    def nonneg_symbols(self):
        return self.c == 0 and all(v > 0 and k != 'H' for k, v in self.t)

    def show(self, names=None):
        parts = []
        for k, v in self.t:
            nm = 'offset' if k == 'H' else (names or {}).get(k, k)
            parts.append(nm if v == 1 else f'{v}*{nm}')
        if self.c or not parts:
            parts.append(str(self.c))
        return ' + '.join(parts)


_H = _Lin({'H': 1})


class _OffState:
    def __init__(self):
        self.vals = {}
        self.vers = {}
        self.conds = []
        self.uses = []        # (lo at use, start form, length form or None, stmt)
        self.alias = {}       # plain local name -> linear form of the expression it was assigned from
        self.unknown = None

    def copy(self):
        s = _OffState()
        s.vals = dict(self.vals)
        s.vers = dict(self.vers)
        s.conds = list(self.conds)
        s.uses = list(self.uses)
        s.alias = dict(self.alias)
        s.unknown = self.unknown
        return s


class OffsetLoop:
    """Symbolic execution of one iteration of a loop that maintains a running offset pair (lo, hi)."""

    def __init__(self, fn, loop, lo, hi):
        self.fn, self.loop, self.lo, self.hi = fn, loop, lo, hi
        self.symtext = {}
        self.ends = []       # states at the end of an iteration
        self.problems = []   # (kind, stmt, text) found during execution ('bad' | 'unsure')

    # ---- expressions
    def _sym(self, e, st):
        key = xdump(e) + '@' + ','.join(f'{n}{st.vers.get(n, 0)}' for n in sorted(astx.names(e)))
        self.symtext[key] = astx.src(e)
        return _Lin({key: 1})

    def ev(self, e, st):
        """Linear form of e over the offset at iteration start and opaque size symbols; None if e
        mixes the offsets into something non-linear."""
        if isinstance(e, ast.Name) and e.id in (self.lo, self.hi):
            return st.vals[e.id]
        if isinstance(e, ast.Constant) and isinstance(e.value, int) and not isinstance(e.value, bool):
            return _Lin((), e.value)
        if isinstance(e, ast.Name) and e.id in st.alias:
            return st.alias[e.id]
        if not (astx.names(e) & {self.lo, self.hi}):
            return self._sym(e, st)
        if isinstance(e, ast.BinOp) and isinstance(e.op, (ast.Add, ast.Sub)):
            a, b = self.ev(e.left, st), self.ev(e.right, st)
            if a is None or b is None:
                return None
            return a + b if isinstance(e.op, ast.Add) else a - b
        return None

    def mentions(self, node):
        return any(isinstance(x, ast.Name) and x.id in (self.lo, self.hi) for x in astx.walk(node))

    # ---- uses
    def record_uses(self, exprs, st, stmt, skip=()):
        """Find interval patterns (a, b) / a:b / b - a and lone reads of lo in the expressions."""
        done = set()

        def pair(a, b):
            fa, fb = self.ev(a, st), self.ev(b, st)
            if fa is None or fb is None:
                return False
            st.uses.append((st.vals[self.lo], fa, fb - fa, stmt))
            for x in astx.walk(a):
                done.add(id(x))
            for x in astx.walk(b):
                done.add(id(x))
            return True
        for e in exprs:
            for x in astx.walk(e):
                if id(x) in done or x in skip:
                    continue
                if isinstance(x, (ast.Call, ast.Tuple, ast.List)):
                    args = x.args if isinstance(x, ast.Call) else x.elts
                    for a, b in zip(args, args[1:]):
                        if self.mentions(a) and id(a) not in done:
                            if pair(a, b):
                                break
                elif isinstance(x, ast.Slice) and x.lower is not None and x.upper is not None and \
                        self.mentions(x.lower):
                    pair(x.lower, x.upper)
                elif isinstance(x, ast.BinOp) and isinstance(x.op, ast.Sub) and self.mentions(x.right) and \
                        self.mentions(x.left):
                    pair(x.right, x.left)
            for x in astx.walk(e):
                if id(x) in done or x in skip:
                    continue
                if isinstance(x, ast.Name) and x.id == self.lo and isinstance(x.ctx, ast.Load):
                    st.uses.append((st.vals[self.lo], st.vals[self.lo], None, stmt))

    # ---- conditions
    def _atom(self, st):
        def atom_of(e):
            neg = False
            if isinstance(e, ast.Compare) and len(e.ops) == 1:
                op = e.ops[0]
                if isinstance(op, (ast.IsNot, ast.NotIn, ast.NotEq)):
                    pos = {ast.IsNot: ast.Is, ast.NotIn: ast.In, ast.NotEq: ast.Eq}[type(op)]()
                    e = ast.Compare(left=e.left, ops=[pos], comparators=e.comparators)
                    neg = True
            names = set()
            for x in ast.walk(e):
                if isinstance(x, ast.Name):
                    names.add(x.id)
            key = xdump(e) + '@' + ','.join(f'{n}{st.vers.get(n, 0)}' for n in sorted(names))
            return ('not', key) if neg else key
        return atom_of

    def feasible(self, st):
        if not st.conds:
            return True
        f = boolx.And(*st.conds)
        try:
            for v in boolx.valuations(f.atoms()):
                if f.ev(v):
                    return True
        except AnalysisError:
            return True
        return False

    # ---- statements
    def _bump(self, st, stmt):
        simple = None
        if isinstance(stmt, ast.Assign) and len(stmt.targets) == 1 and isinstance(stmt.targets[0], ast.Name) \
                and stmt.targets[0].id not in (self.lo, self.hi):
            simple = (stmt.targets[0].id, self.ev(stmt.value, st))
        for s in [stmt] + list(astx.walk_stmts([stmt]))[1:]:
            for t in astx.assigned_targets(s):
                if isinstance(t, ast.Name):
                    st.vers[t.id] = st.vers.get(t.id, 0) + 1
                    st.alias.pop(t.id, None)
        if simple is not None and simple[1] is not None:
            st.alias[simple[0]] = simple[1]

    def _binds_jump(self, stmt):
        """Does stmt contain a continue/break that belongs to our loop?"""
        def rec(s):
            if isinstance(s, (ast.Continue, ast.Break)):
                return True
            if isinstance(s, (ast.For, ast.While, ast.FunctionDef, ast.AsyncFunctionDef, ast.ClassDef)):
                return False
            for fld in ('body', 'orelse', 'finalbody'):
                for c in getattr(s, fld, []) or []:
                    if rec(c):
                        return True
            for h in getattr(s, 'handlers', []) or []:
                for c in h.body:
                    if rec(c):
                        return True
            return False
        return rec(stmt)

    def block(self, stmts, states):
        for stmt in stmts:
            if not states:
                break
            states = self.stmt(stmt, states)
        return states

    def stmt(self, stmt, states):
        relevant = self.mentions(stmt) or self._binds_jump(stmt)
        if not relevant:
            for st in states:
                self._bump(st, stmt)
            return states
        if isinstance(stmt, ast.Continue):
            self.ends.extend(states)
            return []
        if isinstance(stmt, (ast.Break, ast.Return, ast.Raise)):
            return []
        if isinstance(stmt, ast.If):
            outs = []
            for st in states:
                if self.mentions(stmt.test):
                    self.record_uses([stmt.test], st, stmt)
                try:
                    f = boolx.from_ast(stmt.test, self._atom(st))
                except AnalysisError:
                    f = None
                for branch, neg in ((stmt.body, False), (stmt.orelse, True)):
                    s2 = st.copy()
                    if f is not None:
                        s2.conds.append(boolx.Not(f) if neg else f)
                        if not self.feasible(s2):
                            continue
                    outs.extend(self.block(branch, [s2]))
            return self._dedupe(outs)
        if isinstance(stmt, (ast.With, ast.AsyncWith)):
            for st in states:
                self.record_uses(own_exprs(stmt), st, stmt)
            return self.block(stmt.body, states)
        if isinstance(stmt, (ast.For, ast.While)):
            writes = [t for s in astx.walk_stmts([stmt]) for t in astx.assigned_targets(s)
                      if isinstance(t, ast.Name) and t.id in (self.lo, self.hi)]
            for st in states:
                if writes:
                    st.unknown = st.unknown or f'offsets are modified inside a nested loop: {astx.src(stmt)}'
                else:
                    for s in [stmt] + list(astx.walk_stmts(stmt.body + stmt.orelse)):
                        self.record_uses(own_exprs(s), st, s)
                self._bump(st, stmt)
            return states
        if isinstance(stmt, ast.Try):
            if any(self.mentions(h) for h in stmt.handlers) or any(self.mentions(s) for s in stmt.finalbody):
                for st in states:
                    st.unknown = st.unknown or 'offsets are used in exception handlers'
            states = self.block(stmt.body, states)
            states = self.block(stmt.orelse, states)
            return self.block(stmt.finalbody, states)
        if isinstance(stmt, ast.AugAssign) and isinstance(stmt.target, ast.Name) and \
                stmt.target.id in (self.lo, self.hi):
            for st in states:
                if self.mentions(stmt.value):
                    self.record_uses([stmt.value], st, stmt)
                v = self.ev(stmt.value, st)
                if v is None or not isinstance(stmt.op, (ast.Add, ast.Sub)):
                    st.unknown = st.unknown or f'unrecognised update {astx.src(stmt)}'
                else:
                    cur = st.vals[stmt.target.id]
                    st.vals[stmt.target.id] = cur + v if isinstance(stmt.op, ast.Add) else cur - v
            return states
        if isinstance(stmt, ast.Assign):
            tnames = [t.id for t in stmt.targets if isinstance(t, ast.Name) and t.id in (self.lo, self.hi)]
            complex_t = [t for t in stmt.targets if not isinstance(t, ast.Name) and
                         any(isinstance(x, ast.Name) and x.id in (self.lo, self.hi) and
                             isinstance(x.ctx, ast.Store) for x in astx.walk(t))]
            for st in states:
                if complex_t:
                    st.unknown = st.unknown or f'offsets assigned by unpacking: {astx.src(stmt)}'
                    continue
                if tnames:
                    v = self.ev(stmt.value, st)
                    plain = isinstance(stmt.value, ast.Name)
                    if not plain and self.mentions(stmt.value):
                        self.record_uses([stmt.value], st, stmt)
                    if v is None:
                        st.unknown = st.unknown or f'unrecognised update {astx.src(stmt)}'
                    else:
                        for nm in tnames:
                            st.vals[nm] = v
                    others = [t for t in stmt.targets if not (isinstance(t, ast.Name) and t.id in tnames)]
                    if others:
                        self.record_uses(others, st, stmt)
                else:
                    self.record_uses([stmt], st, stmt)
                self._bump(st, stmt)
            return states
        for st in states:
            self.record_uses(own_exprs(stmt), st, stmt)
            self._bump(st, stmt)
        return states

    def _dedupe(self, states):
        seen, out = set(), []
        for s in states:
            k = (tuple(sorted(s.vals.items(), key=lambda kv: kv[0])), tuple(sorted(s.vers.items())),
                 tuple((a, b, c, id(d)) for a, b, c, d in s.uses), tuple(sorted(s.alias.items())), s.unknown, len(s.conds) and repr(s.conds))
            if k not in seen:
                seen.add(k)
                out.append(s)
        if len(out) > 4000:
            raise AnalysisError('too many symbolic paths')
        return out

    def run(self):
        st = _OffState()
        st.vals = {self.lo: _H, self.hi: _H}
        falls = self.block(self.loop.body, [st])
        self.ends.extend(falls)
        return self.ends


def _offset_pairs(fn):
    """(loop, lo, hi) for every loop of fn that has `hi += ...` and `lo = hi` at its own level."""
    out = []
    for lp in [s for s in astx.walk_stmts(fn.node.body) if isinstance(s, (ast.For, ast.While))]:
        own = []

        def rec(stmts):
            for s in stmts:
                if isinstance(s, (ast.For, ast.While, ast.FunctionDef, ast.AsyncFunctionDef, ast.ClassDef)):
                    continue
                own.append(s)
                for fld in ('body', 'orelse', 'finalbody'):
                    rec(getattr(s, fld, []) or [])
                for h in getattr(s, 'handlers', []) or []:
                    rec(h.body)
        rec(lp.body)
        his = {s.target.id for s in own if isinstance(s, ast.AugAssign) and isinstance(s.op, ast.Add) and
               isinstance(s.target, ast.Name)}
        for s in own:
            if isinstance(s, ast.Assign) and len(s.targets) == 1 and isinstance(s.targets[0], ast.Name) and \
                    isinstance(s.value, ast.Name) and s.value.id in his and s.targets[0].id != s.value.id:
                if (lp, s.targets[0].id, s.value.id) not in out:
                    out.append((lp, s.targets[0].id, s.value.id))
        # also: an accumulator used as the end of an interval slice(lo, hi) / range(lo, hi) / (lo, hi) / lo:hi
        for s in own:
            for x in own_walk(s):
                cand = []
                if isinstance(x, (ast.Call, ast.Tuple)):
                    args = x.args if isinstance(x, ast.Call) else x.elts
                    cand = list(zip(args, args[1:]))
                elif isinstance(x, ast.Slice) and x.lower is not None and x.upper is not None:
                    cand = [(x.lower, x.upper)]
                for a, b in cand:
                    if isinstance(a, ast.Name) and isinstance(b, ast.Name) and b.id in his and a.id != b.id \
                            and a.id not in his and (lp, a.id, b.id) not in out and \
                            not any(o[0] is lp and o[2] == b.id for o in out):
                        out.append((lp, a.id, b.id))
    return out


def _initial_values(loop, names):
    """xdump of the value each name holds on entry to loop (nearest preceding straight-line assignment in
    the enclosing blocks); None when an intervening compound statement may assign one of them."""
    found = {}
    cur = loop
    while cur is not None and len(found) < len(names):
        par = getattr(cur, '_parent', None)
        if par is None:
            break
        for fld in ('body', 'orelse', 'finalbody'):
            lst = getattr(par, fld, None)
            if isinstance(lst, list) and cur in lst:
                for st in reversed(lst[:lst.index(cur)]):
                    tg = [t.id for t in astx.assigned_targets(st) if isinstance(t, ast.Name)] \
                        if isinstance(st, (ast.Assign, ast.AugAssign, ast.AnnAssign)) else []
                    if isinstance(st, ast.Assign) and all(isinstance(t, ast.Name) for t in st.targets):
                        for nm in names:
                            if nm in tg and nm not in found:
                                found[nm] = xdump(st.value)
                    else:
                        inner = {t.id for s2 in [st] + list(astx.walk_stmts([st]))[1:]
                                 for t in astx.assigned_targets(s2) if isinstance(t, ast.Name)}
                        if any(nm in inner and nm not in found for nm in names):
                            return None
        if isinstance(par, (ast.FunctionDef, ast.AsyncFunctionDef)):
            break
        if isinstance(par, (ast.For, ast.While)) and any(nm not in found for nm in names):
            # value would be loop-carried from the enclosing loop
            tg = {t.id for s2 in astx.walk_stmts(par.body) for t in astx.assigned_targets(s2)
                  if isinstance(t, ast.Name)}
            if any(nm in tg and nm not in found for nm in names):
                return None
        cur = par
    return found if len(found) == len(names) else None


OFFSET_FUNCS = ('__init__', '_get_tuple_map', '_get_sol2jac_map', '_create_in_idx_map', '_get_as_directional')


@rule('C01.offsets', floor=9)
def offsets(repo, out):
    """Running row/column offsets (lo, hi): both start equal; within one iteration every interval handed
    out starts at the running offset and has exactly the length by which the offset advances; at the end of
    every iteration lo == hi again (symbolic execution of the loop body with path feasibility)."""
    for name in OFFSET_FUNCS:
        fn = tj(repo, name)
        pairs = _offset_pairs(fn)
        if not pairs:
            if name != '__init__':
                out.unsure(fn, fn.node, 'no running-offset loop (`hi += size ... lo = hi`) recognised')
            continue
        for lp, lo, hi in pairs:
            key = f'{name}:{lo}/{hi}'
            inits = _initial_values(lp, (lo, hi))
            if inits is None:
                out.unsure(fn, lp, f'initial values of {lo}/{hi} not recognised')
                continue
            if inits[lo] != inits[hi]:
                out.bad(fn, lp, f'{lo} and {hi} do not start from the same value: the first interval is not '
                        'empty-based', key=key + ':init')
                continue
            ex = OffsetLoop(fn, lp, lo, hi)
            ends = ex.run()
            verdict = None
            for st in ends:
                if st.unknown:
                    verdict = verdict or ('unsure', lp, st.unknown)
                    continue
                adv = st.vals[hi] - _H
                for lo_now, start, length, stmt in st.uses:
                    if lo_now != _H and length is None:
                        continue    # a lone read of the base after it moved on (not an interval)
                    if lo_now != _H:
                        verdict = ('bad', stmt, f'`{lo}` is read after it was advanced in the same iteration '
                                   f'(value {lo_now.show(ex.symtext)}): the interval does not start at the running '
                                   'offset of this variable')
                    elif start != _H:
                        continue    # a sub-interval [lo + k, ...) of this variable's block (distributed part)
                    elif length is not None and not (length.nonneg_symbols() and length.t):
                        verdict = ('bad', stmt, f'interval [{lo}, {lo} + {length.show(ex.symtext)}) is handed out '
                                   f'(empty or off by a constant): the offset `{hi}` was not advanced by the '
                                   'variable\'s size before the interval was taken')
                    elif length is not None and length != adv:
                        verdict = ('bad', stmt, f'interval of length {length.show(ex.symtext)} is handed out but '
                                   f'the offset advances by {adv.show(ex.symtext)} in this iteration: consecutive '
                                   'variables overlap or leave a gap in J')
                    if verdict and verdict[0] == 'bad':
                        break
                if verdict and verdict[0] == 'bad':
                    break
                if st.vals[lo] != st.vals[hi]:
                    verdict = ('bad', lp, f'at the end of an iteration {lo} = {st.vals[lo].show(ex.symtext)} but '
                               f'{hi} = {st.vals[hi].show(ex.symtext)}: the next interval does not start where '
                               'this one ended')
                    break
                if not adv.nonneg_symbols() and adv != _Lin():
                    verdict = verdict or ('unsure', lp, f'offset advances by {adv.show(ex.symtext)}')
            if verdict is None:
                out.ok(fn, lp, f'({lo}, {hi}): {len(ends)} symbolic iteration path(s); intervals start at the '
                       'running offset and have the length by which it advances')
                out.count('offset_paths', len(ends))
            elif verdict[0] == 'bad':
                out.bad(fn, verdict[1], verdict[2], key=key)
            else:
                out.unsure(fn, verdict[1], verdict[2])


# =========================================================================== C01.scaling
class _ScaleWalk:
    """Effects (in-place scalings of a jacobian block) of a function that walks a flat or nested jac
    dict, extracted under the assumption that the dict has the given format."""

    def __init__(self, fn, fmt):
        self.fn, self.fmt = fn, fmt
        ps = params(fn)
        if not ps:
            raise AnalysisError(f'{fn.ident}: no jac dict parameter')
        self.dict_name = ps[0]
        self.env = {}            # local name -> canonical text
        self.effects = []        # (op, operand canon, guard formula, stmt)
        self.problems = []
        self.keyvars = set()     # loop variables holding the key of the outer dict

    # canonical text of an expression under the current environment
    def canon(self, e):
        return xdump(e, lambda nm: self.env.get(nm, nm))

    def is_role(self, e, role):
        return isinstance(e, ast.Name) and self.env.get(e.id) == role

    def fmt_test(self, e):
        """True/False if e tests the dict format (isinstance(<key>, tuple) or an alias of it), else None."""
        if isinstance(e, ast.UnaryOp) and isinstance(e.op, ast.Not):
            r = self.fmt_test(e.operand)
            return None if r is None else not r
        if isinstance(e, ast.Name) and self.env.get(e.id) == '$ISFLAT':
            return self.fmt == 'flat'
        if self._is_flat_expr(e):
            return self.fmt == 'flat'
        return None

    def _is_flat_expr(self, e):
        if isinstance(e, ast.Call) and astx.call_name(e) == 'isinstance' and len(e.args) == 2 and \
                isinstance(e.args[1], ast.Name) and e.args[1].id == 'tuple':
            a = e.args[0]
            if self.is_role(a, '$KEY') or (isinstance(a, ast.Name) and a.id in self.keyvars):
                return True
            # isinstance(next(iter(jac_dict)), tuple)
            if isinstance(a, ast.Call) and astx.call_name(a) == 'next' and a.args and \
                    isinstance(a.args[0], ast.Call) and astx.call_name(a.args[0]) == 'iter' and \
                    a.args[0].args and self.is_role(a.args[0].args[0], '$DICT'):
                return True
        return False

    def atom_of(self, e):
        neg = False
        if isinstance(e, ast.Compare) and len(e.ops) == 1 and \
                isinstance(e.ops[0], (ast.IsNot, ast.NotIn, ast.NotEq)):
            pos = {ast.IsNot: ast.Is, ast.NotIn: ast.In, ast.NotEq: ast.Eq}[type(e.ops[0])]()
            e = ast.Compare(left=e.left, ops=[pos], comparators=e.comparators)
            neg = True
        k = self.canon(e)
        return ('not', k) if neg else k

    def run(self):
        self.env[self.dict_name] = '$DICT'
        self.block(astx.strip_doc(self.fn.node.body), boolx.TRUE)
        return self

    def block(self, stmts, cond):
        """Walk statements under path condition cond; return the fall-through condition."""
        for st in stmts:
            if cond is boolx.FALSE:
                break       # unreachable (previous statement always returns / continues)
            cond = self.stmt(st, cond)
        return cond

    def _merge_env(self, envs):
        keys = set()
        for e in envs:
            keys |= set(e)
        out = {}
        for k in keys:
            vals = sorted({e.get(k, f'$UNSET') for e in envs})
            out[k] = vals[0] if len(vals) == 1 else 'phi{' + '|'.join(vals) + '}'
        return out

    def stmt(self, st, cond):
        if isinstance(st, (ast.Return, ast.Continue, ast.Break, ast.Raise)):
            return boolx.FALSE
        if isinstance(st, ast.If):
            ft = self.fmt_test(st.test)
            if ft is not None:
                return self.block(st.body if ft else st.orelse, cond)
            try:
                t = boolx.from_ast(st.test, self.atom_of)
            except AnalysisError:
                self.problems.append((st, 'unrecognised condition'))
                return cond
            env0 = dict(self.env)
            c1 = self.block(st.body, boolx.And(cond, t))
            env1 = self.env
            self.env = dict(env0)
            c2 = self.block(st.orelse, boolx.And(cond, boolx.Not(t)))
            env2 = self.env
            live = [e for e, c in ((env1, c1), (env2, c2)) if c is not boolx.FALSE]
            self.env = self._merge_env(live) if live else env0
            if c1 is boolx.FALSE:
                return c2
            if c2 is boolx.FALSE:
                return c1
            return boolx.Or(c1, c2)
        if isinstance(st, ast.For):
            it = st.iter
            if isinstance(it, ast.Call) and astx.callee_attr(it) == 'items' and not it.args:
                recv = astx.receiver(it)
                t = st.target
                if self.is_role(recv, '$DICT') and isinstance(t, ast.Tuple) and len(t.elts) == 2:
                    k, v = t.elts
                    if isinstance(k, ast.Name):
                        self.keyvars.add(k.id)
                    if self.fmt == 'flat':
                        if isinstance(k, ast.Tuple) and len(k.elts) == 2 and \
                                all(isinstance(x, ast.Name) for x in k.elts) and isinstance(v, ast.Name):
                            self.env[k.elts[0].id], self.env[k.elts[1].id], self.env[v.id] = '$OUT', '$IN', '$B'
                        elif isinstance(k, ast.Name) and isinstance(v, ast.Name):
                            self.env[k.id], self.env[v.id] = '$KEY', '$B'
                        else:
                            self.problems.append((st, 'unrecognised loop target over a flat jac dict'))
                    else:
                        if isinstance(k, ast.Name) and isinstance(v, ast.Name):
                            self.env[k.id], self.env[v.id] = '$OUT', '$INNER'
                        else:
                            self.problems.append((st, 'unrecognised loop target over a nested jac dict'))
                    self.block(st.body, cond)
                    return cond
                if self.is_role(recv, '$INNER') and isinstance(t, ast.Tuple) and len(t.elts) == 2 and \
                        all(isinstance(x, ast.Name) for x in t.elts):
                    self.env[t.elts[0].id], self.env[t.elts[1].id] = '$IN', '$B'
                    self.block(st.body, cond)
                    return cond
            if any(self.env.get(n) in ('$B', '$INNER', '$DICT') for n in astx.names(st)):
                self.problems.append((st, 'unrecognised loop touching the jacobian blocks'))
            return cond
        if isinstance(st, ast.Assign) and len(st.targets) == 1:
            t, v = st.targets[0], st.value
            if isinstance(t, ast.Name):
                if self._is_flat_expr(v):
                    self.env[t.id] = '$ISFLAT'
                elif isinstance(v, ast.Name) and self.env.get(v.id, '').startswith('$'):
                    role = self.env[v.id]
                    self.env[t.id] = '$OUT' if role == '$KEY' and self.fmt == 'nested' else role
                    if role == '$OUT' and self.fmt == 'nested':
                        pass
                else:
                    self.env[t.id] = self.canon(v)
                return cond
            if isinstance(t, ast.Tuple) and len(t.elts) == 2 and all(isinstance(x, ast.Name) for x in t.elts) \
                    and self.is_role(v, '$KEY') and self.fmt == 'flat':
                self.env[t.elts[0].id], self.env[t.elts[1].id] = '$OUT', '$IN'
                return cond
            if isinstance(t, ast.Subscript) and self.is_role(t.value, '$B'):
                sl = t.slice
                whole = (isinstance(sl, ast.Constant) and sl.value is Ellipsis) or \
                    (isinstance(sl, ast.Slice) and sl.lower is None and sl.upper is None and sl.step is None)
                eff = self._product(v) if whole else None
                if eff is None:
                    self.problems.append((st, f'unrecognised write into the block: {astx.src(st)}'))
                else:
                    self.effects.append((eff[0], eff[1], cond, st))
                return cond
        if isinstance(st, ast.AugAssign) and self.is_role(st.target, '$B'):
            if isinstance(st.op, ast.Mult):
                self.effects.append(('mul',) + (self._recip(st.value),) + (cond, st))
            elif isinstance(st.op, ast.Div):
                self.effects.append(('mul', ('recip', self.canon(st.value)), cond, st))
            else:
                self.problems.append((st, f'unrecognised in-place operation on the block: {astx.src(st)}'))
            return cond
        if any(self.env.get(n) == '$B' for n in astx.names(st)) and \
                not (isinstance(st, ast.Expr) and isinstance(st.value, ast.Call) and
                     astx.call_name(st.value) in ('print', 'pprint.pprint')):
            self.problems.append((st, f'unrecognised statement touching the block: {astx.src(st)}'))
        elif isinstance(st, (ast.With, ast.Try, ast.While)):
            if any(self.env.get(n) in ('$B', '$INNER', '$DICT') for n in astx.names(st)):
                self.problems.append((st, 'unrecognised compound statement touching the jacobian'))
        return cond

    def _recip(self, e):
        """('recip', s) for 1/s, ('plain', s) otherwise."""
        if isinstance(e, ast.BinOp) and isinstance(e.op, ast.Div) and isinstance(e.left, ast.Constant) and \
                e.left.value in (1, 1.0) and not isinstance(e.left.value, bool):
            return ('recip', self.canon(e.right))
        if isinstance(e, ast.BinOp) and isinstance(e.op, ast.Pow) and isinstance(e.right, ast.Constant) and \
                e.right.value in (-1, -1.0):
            return ('recip', self.canon(e.left))
        return ('plain', self.canon(e))

    def _product(self, v):
        """Recognise B * s, s * B (column broadcast) and (s * B.T).T, (B.T * s).T (row scaling)."""
        def is_b(e):
            return self.is_role(e, '$B')

        def is_bt(e):
            return isinstance(e, ast.Attribute) and e.attr == 'T' and is_b(e.value)
        if isinstance(v, ast.Attribute) and v.attr == 'T' and isinstance(v.value, ast.BinOp) and \
                isinstance(v.value.op, ast.Mult):
            l, r = v.value.left, v.value.right
            if is_bt(l):
                return ('rowmul', self._recip(r))
            if is_bt(r):
                return ('rowmul', self._recip(l))
        if isinstance(v, ast.BinOp) and isinstance(v.op, ast.Mult):
            if is_b(v.left):
                return ('mul', self._recip(v.right))
            if is_b(v.right):
                return ('mul', self._recip(v.left))
        if isinstance(v, ast.BinOp) and isinstance(v.op, ast.Div) and is_b(v.left):
            return ('mul', ('recip', self.canon(v.right)))
        return None


def _side(canon_text):
    """'out' / 'in': does a canonical operand text depend on the response name or on the desvar name?"""
    i = 'N($IN)' in canon_text
    o = 'N($OUT)' in canon_text
    return 'out' if o and not i else 'in' if i and not o else None


SCALING_FUNCS = [(TJ, f'{CLS}._apply_unit_scaling', False),
                 (AUTOSCALER, 'Autoscaler.apply_jac_scaling', True)]


@rule('C01.scaling', floor=6)
def scaling(repo, out):
    """Unit scaling and driver scaling of J: the flat-dict and the nested-dict branch apply the same
    operators under equivalent guards; the response-side scaler multiplies (rows), the design-variable
    scaler divides (columns); array-valued driver scalers scale rows, not columns."""
    for rel, qn, array_scalers in SCALING_FUNCS:
        fn = repo.func(rel, qn)
        walks = {}
        bad_walk = False
        for fmt in ('flat', 'nested'):
            w = _ScaleWalk(fn, fmt).run()
            walks[fmt] = w
            for st, why in w.problems:
                out.unsure(fn, st, f'[{fmt}] {why}')
                bad_walk = True
            if not w.effects and not w.problems:
                out.bad(fn, fn.node, f'no scaling is applied to the blocks of a {fmt} jacobian dict: the '
                        f'{fmt} return format comes back unscaled', key=f'{qn}:{fmt}:no-effect')
                bad_walk = True
        if bad_walk:
            continue
        # ---- sibling comparison: structural signature (operator, plain/reciprocal, response/desvar side)
        vocab = None
        for fmt, w in walks.items():
            atoms = set()
            for op, operand, cond, st in w.effects:
                atoms |= cond.atoms()
            vocab = atoms if vocab is None else (vocab & atoms)
        eff = {fmt: {} for fmt in walks}
        dup = False
        for fmt, w in walks.items():
            for op, operand, cond, st in w.effects:
                k = (op, operand[0], _side(operand[1]))
                if k in eff[fmt]:
                    if eff[fmt][k][0] == operand[1]:
                        out.bad(fn, st, f'[{fmt}] the same scaling is applied twice to a block: {astx.src(st)}',
                                key=f'{qn}:{fmt}:twice')
                    else:
                        out.unsure(fn, st, f'[{fmt}] two scalings of the same kind on one block')
                    dup = True
                eff[fmt][k] = (operand[1], cond, st)
        if dup:
            continue
        same = True
        for k in sorted(set(eff['flat']) | set(eff['nested']), key=repr):
            if k not in eff['flat'] or k not in eff['nested']:
                have = 'flat' if k in eff['flat'] else 'nested'
                miss = 'nested' if have == 'flat' else 'flat'
                st = eff[have][k][2]
                out.bad(fn, st, f'the {have}-dict branch applies `{astx.src(st)}` but the {miss}-dict branch has '
                        'no operation of that kind (operator / reciprocal / response-or-desvar side): the scaled '
                        'jacobian depends on the return format', key=f'{qn}:sibling:{k[0]}:{k[1]}:{k[2]}')
                same = False
                continue
            (o1, c1, s1), (o2, c2, s2) = eff['flat'][k], eff['nested'][k]
            if o1 != o2:
                out.unsure(fn, s2, 'the flat and the nested branch scale by differently written operands; cannot '
                           'prove they are the same scaler')
                same = False
                continue
            eq, n, cex = boolx.equivalent(c1, c2)
            out.count('truth_table_rows', n)
            if not eq:
                if (c1.atoms() | c2.atoms()) <= (vocab or set()):
                    out.bad(fn, s2, f'`{astx.src(s2)}` is applied under different conditions in the flat and the '
                            f'nested branch (differs for {boolx.fmt_val(cex)[:200]})',
                            key=f'{qn}:guard:{k[0]}:{k[1]}:{k[2]}')
                else:
                    out.unsure(fn, s2, 'guards of the flat and the nested branch use different tests')
                same = False
        if same:
            out.ok(fn, fn.node, f'flat and nested branches: {len(eff["flat"])} identical operations under '
                   'equivalent guards')
        # ---- absolute direction (checked on both formats)
        for side, want_kind, what in (('out', 'plain', 'response scaler multiplies'),
                                      ('in', 'recip', 'design-variable scaler divides')):
            verdict = 'ok'
            where = None
            for fmt, w in walks.items():
                hits = [(op, operand, st) for op, operand, cond, st in w.effects if _side(operand[1]) == side]
                unk = [(op, operand, st) for op, operand, cond, st in w.effects if _side(operand[1]) is None]
                if unk:
                    verdict, where = 'unsure', unk[0][2]
                    break
                if len(hits) != 1:
                    verdict, where = ('missing' if not hits else 'unsure'), (hits[0][2] if hits else fn.node)
                    break
                op, operand, st = hits[0]
                where = st
                if operand[0] != want_kind:
                    verdict = 'direction'
                    break
                if side == 'out' and array_scalers and op != 'rowmul':
                    verdict = 'axis'
                    break
                if side == 'in' and op != 'mul':
                    verdict = 'axis-in'
                    break
            if verdict == 'ok':
                out.ok(fn, where, f'{what}' + (' along rows (array-valued scalers allowed)'
                                               if side == 'out' and array_scalers else
                                               ' along columns' if side == 'in' else ''))
            elif verdict == 'direction':
                out.bad(fn, where, f'd(scaled f)/d(scaled x) = s_f * df/dx / s_x: the {what.split(" scaler")[0]} '
                        f'scaler must {"multiply" if side == "out" else "divide"} the block; found '
                        f'{astx.src(where)}', key=f'{qn}:direction:{side}')
            elif verdict == 'axis':
                out.bad(fn, where, 'total_scaler of a response may be an array (one entry per row); a plain '
                        f'`block *= scaler` broadcasts it along the columns: {astx.src(where)}',
                        key=f'{qn}:axis:{side}')
            elif verdict == 'axis-in':
                out.bad(fn, where, 'the design-variable scaler has one entry per column and must broadcast along '
                        f'the last axis; found a row-wise scaling: {astx.src(where)}', key=f'{qn}:axis:{side}')
            elif verdict == 'missing':
                out.bad(fn, where, f'no operation found in which the {what.split(" scaler")[0]} scaler acts on the '
                        'block', key=f'{qn}:missing:{side}')
            else:
                out.unsure(fn, where, f'cannot attribute the scaling operand to the response or the design variable')


# =========================================================================== C01.units
@rule('C01.units', floor=5)
def units(repo, out):
    """Unit-scaler tables: responses (constraints, objectives) fill _resp_unit_scalers, design variables
    fill _desvar_unit_scalers; the functional API converts native -> requested units and files the factor
    under the table of its own side."""
    fn = tj(repo, '_identify_unit_active_vars')
    want = {'_cons': '_resp_unit_scalers', '_objs': '_resp_unit_scalers', '_designvars': '_desvar_unit_scalers'}
    seen = set()
    for lp in [s for s in astx.walk_stmts(fn.node.body) if isinstance(s, ast.For)]:
        it = lp.iter
        if not (isinstance(it, ast.Call) and astx.callee_attr(it) == 'items' and
                (astx.path(astx.receiver(it)) or '').startswith('self._driver.')):
            continue
        tbl = astx.path(astx.receiver(it)).split('.')[-1]
        if tbl not in want or not (isinstance(lp.target, ast.Tuple) and len(lp.target.elts) == 2 and
                                   all(isinstance(e, ast.Name) for e in lp.target.elts)):
            out.unsure(fn, lp, 'unrecognised loop over a driver table')
            continue
        name_v, meta_v = (e.id for e in lp.target.elts)
        writes = [st for st in astx.walk_stmts(lp.body) if isinstance(st, ast.Assign) and
                  isinstance(st.targets[0], ast.Subscript) and
                  (astx.path(st.targets[0].value) or '') in ('self._resp_unit_scalers', 'self._desvar_unit_scalers')]
        if not writes:
            out.unsure(fn, lp, f'no write into a unit scaler table recognised for self._driver.{tbl}')
            continue
        ok = True
        for st in writes:
            got = astx.path(st.targets[0].value).split('.')[-1]
            key_ok = isinstance(st.targets[0].slice, ast.Name) and st.targets[0].slice.id == name_v
            val = st.value
            src = None
            if isinstance(val, ast.Name):
                for s2 in astx.walk_stmts(lp.body):
                    if isinstance(s2, ast.Assign) and any(isinstance(t, ast.Name) and t.id == val.id
                                                          for t in s2.targets):
                        src = s2.value
            from_meta = src is not None and isinstance(src, ast.Call) and astx.callee_attr(src) == 'get' and \
                astx.path(astx.receiver(src)) == meta_v and src.args and astx.const_str(src.args[0]) == 'unit_scaler'
            from_meta = from_meta or (isinstance(src, ast.Subscript) and astx.path(src.value) == meta_v and
                                      astx.const_str(src.slice) == 'unit_scaler')
            if got != want[tbl]:
                out.bad(fn, st, f'unit scaler of a variable from self._driver.{tbl} is filed under self.{got}; '
                        f'_apply_unit_scaling looks responses up in _resp_unit_scalers (rows, multiply) and design '
                        'variables in _desvar_unit_scalers (columns, divide)', key=f'units:{tbl}:table')
                ok = False
            elif not key_ok:
                out.bad(fn, st, f'unit scaler is stored under {astx.src(st.targets[0].slice)} instead of the '
                        f'variable name `{name_v}`', key=f'units:{tbl}:key')
                ok = False
            elif not from_meta:
                out.unsure(fn, st, "stored value is not recognisably meta['unit_scaler']")
                ok = False
        if ok:
            seen.add(tbl)
            out.ok(fn, writes[0], f'self._driver.{tbl} -> self.{want[tbl]}[{name_v}] = {meta_v}[\'unit_scaler\']')
    for tbl in want:
        if tbl not in seen and not any(i['status'] != 'ok' for i in out.items):
            out.unsure(fn, fn.node, f'no loop over self._driver.{tbl} recognised')

    fn = tj(repo, '_apply_functional_api_unit_scalers')
    ps = params(fn)
    if len(ps) != 4:
        raise AnalysisError(f'{fn.ident}: expected (of_metadata, wrt_metadata, of_units, wrt_units)')
    sides = {ps[2]: (ps[0], '_resp_unit_scalers', 'of'), ps[3]: (ps[1], '_desvar_unit_scalers', 'wrt')}
    cx = Ctx(fn)
    for lp in [s for s in astx.walk_stmts(fn.node.body) if isinstance(s, ast.For)]:
        it = lp.iter
        if not (isinstance(it, ast.Call) and astx.callee_attr(it) == 'items' and
                astx.path(astx.receiver(it)) in sides):
            continue
        meta_p, table, side = sides[astx.path(astx.receiver(it))]
        if not (isinstance(lp.target, ast.Tuple) and len(lp.target.elts) == 2 and
                all(isinstance(e, ast.Name) for e in lp.target.elts)):
            out.unsure(fn, lp, 'unrecognised loop target')
            continue
        name_v, req_v = (e.id for e in lp.target.elts)
        convs = [st for st in astx.walk_stmts(lp.body) if isinstance(st, ast.Assign) and
                 isinstance(st.value, ast.Call) and astx.callee_attr(st.value) == 'unit_conversion']
        writes = [st for st in astx.walk_stmts(lp.body) if isinstance(st, ast.Assign) and
                  isinstance(st.targets[0], ast.Subscript) and
                  (astx.path(st.targets[0].value) or '') in ('self._resp_unit_scalers', 'self._desvar_unit_scalers')]
        if len(convs) != 1 or len(writes) != 1:
            out.unsure(fn, lp, 'expected one unit_conversion call and one table write per loop')
            continue
        cv, wr = convs[0], writes[0]
        a0, a1 = astx.arg(cv.value, 0, 'old_units'), astx.arg(cv.value, 1, 'new_units')
        tgt = cv.targets[0]
        factor = tgt.elts[0].id if isinstance(tgt, ast.Tuple) and tgt.elts and isinstance(tgt.elts[0], ast.Name) else None
        at = cx.node(cv)
        a0_is_req = isinstance(a0, ast.Name) and a0.id == req_v
        a1_is_req = isinstance(a1, ast.Name) and a1.id == req_v
        # native units come from the source variable's metadata looked up through this side's metadata dict
        native_src = None
        if isinstance(a0, ast.Name):
            v, d = cx.alias(a0.id, at)
            if isinstance(v, ast.Subscript) and astx.const_str(v.slice) == 'units':
                native_src = v
        srcs = [st for st in astx.walk_stmts(lp.body) if isinstance(st, ast.Assign) and
                isinstance(st.value, ast.Subscript) and astx.const_str(st.value.slice) == 'source']
        meta_used = astx.path(srcs[0].value.value.value) if srcs and isinstance(srcs[0].value.value, ast.Subscript) \
            else None
        if a0_is_req and not a1_is_req:
            out.bad(fn, cv, f'unit_conversion({astx.src(a0)}, {astx.src(a1)}) converts requested -> native: the '
                    'jacobian must be scaled by the factor native -> requested (the reciprocal is applied)',
                    key=f'units:functional:{side}:direction')
        elif not a1_is_req or native_src is None:
            out.unsure(fn, cv, 'cannot identify native and requested units of the conversion')
        elif astx.path(wr.targets[0].value) != f'self.{table}':
            out.bad(fn, wr, f'factor for a `{side}` variable is filed under {astx.src(wr.targets[0].value)} instead '
                    f'of self.{table}', key=f'units:functional:{side}:table')
        elif not (isinstance(wr.value, ast.Name) and wr.value.id == factor):
            out.bad(fn, wr, f'the value stored is {astx.src(wr.value)}, not the multiplicative factor (first element) '
                    'returned by unit_conversion', key=f'units:functional:{side}:factor')
        elif meta_used is not None and meta_used != meta_p:
            out.bad(fn, srcs[0], f'the source of a `{side}` variable is looked up in {meta_used} instead of {meta_p}',
                    key=f'units:functional:{side}:meta')
        elif not (isinstance(wr.targets[0].slice, ast.Name) and wr.targets[0].slice.id == name_v):
            out.bad(fn, wr, f'factor stored under {astx.src(wr.targets[0].slice)} instead of `{name_v}`',
                    key=f'units:functional:{side}:key')
        else:
            out.ok(fn, cv, f'{side}: factor of unit_conversion(native, requested) stored in self.{table}[{name_v}]')


# =========================================================================== C01.cache
def _vec_of(cx, e, at, depth=0):
    """('input_vec'|'output_vec', index expr) if e denotes self.<table>[idx] (possibly via alias / .asarray())."""
    if depth > 4 or e is None:
        return None
    if isinstance(e, ast.Call) and astx.callee_attr(e) == 'asarray':
        return _vec_of(cx, astx.receiver(e), at, depth + 1)
    if isinstance(e, ast.Name):
        v, d = cx.alias(e.id, at)
        return _vec_of(cx, v, d, depth + 1) if v is not None else None
    if isinstance(e, ast.Subscript) and astx.path(e.value) in ('self.input_vec', 'self.output_vec'):
        return astx.path(e.value).split('.')[-1], e.slice
    return None


@rule('C01.cache', floor=3)
def cache(repo, out):
    """cache_linear_solution: the restore writes only into the solution vector output_vec[mode] (never the
    seed), the save reads that same vector, and compute_totals does restore -> solve -> save with the
    loop's mode."""
    for name, kind in (('_restore_linear_solution', 'restore'), ('_save_linear_solution', 'save')):
        fn = tj(repo, name)
        ps = params(fn)
        if len(ps) < 2:
            raise AnalysisError(f'{fn.ident}: expected (key, mode)')
        mode = ps[1]
        cx = Ctx(fn)
        cx.pin(mode, [cx.g.entry])
        refs = []
        for n in cx.g.nodes:
            for e in n.exprs():
                for x in astx.walk(e):
                    if isinstance(x, ast.Subscript) and astx.path(x.value) in ('self.input_vec', 'self.output_vec'):
                        refs.append((n, x))
        verdict = True
        for n, x in refs:
            tbl = astx.path(x.value).split('.')[-1]
            sm = cx.same_name(x.slice, mode, n)
            if tbl != 'output_vec':
                out.bad(fn, n.ast, f'the linear-solution cache touches self.{tbl}[...]: that vector holds the seed '
                        'of this solve; the cached solution belongs to output_vec[mode]', key=f'cache:{kind}:vector')
                verdict = False
            elif sm is False:
                out.bad(fn, n.ast, f'the cache uses output_vec[{astx.src(x.slice)}] instead of output_vec[{mode}]',
                        key=f'cache:{kind}:mode')
                verdict = False
            elif sm is None:
                out.unsure(fn, n.ast, 'cannot resolve which output_vec is used')
                verdict = None
        if verdict is True and refs:
            out.ok(fn, refs[0][0].ast, f'{kind} only touches self.output_vec[{mode}] ({len(refs)} reference(s))')
        elif verdict is True:
            out.unsure(fn, fn.node, 'no reference to the solution vector found')
    ml = main_loop(repo)
    fn, cx, g = ml.fn, ml.cx, ml.g
    rest = [n for n in ml.body if any(astx.call_name(c) == 'self._restore_linear_solution' for c in n.calls())]
    save = [n for n in ml.body if any(astx.call_name(c) == 'self._save_linear_solution' for c in n.calls())]
    if not rest and not save:
        out.ok(fn, ml.loop, 'no linear-solution caching in the solve loop')
        return
    problems = False
    for n in rest + save:
        c = ml.call_of(n, lambda c: astx.call_name(c) in ('self._restore_linear_solution',
                                                          'self._save_linear_solution'))
        a = astx.arg(c, 1, 'mode')
        r = cx.same_name(a, ml.mode, n) if a is not None else None
        if r is False:
            out.bad(fn, n.ast, f'{astx.call_name(c)} is called with {astx.src(a)} instead of the loop direction '
                    f'`{ml.mode}`', key='cache:loop-mode')
            problems = True
        elif r is None:
            out.unsure(fn, n.ast, 'cannot resolve the mode passed to the cache')
            problems = True
    if problems:
        return
    for r in rest:
        nxt = g.reach(g.normal_succ(r), avoid=[ml.hdr], labels=cfgm.noexc)
        sol = [s for s in ml.solves if s in nxt]
        w = g.path(g.normal_succ(r), [ml.hdr], avoid=ml.solves, labels=cfgm.noexc)
        if w is not None or not sol:
            out.bad(fn, r.ast, 'the cached solution is restored but no solve follows in this iteration',
                    key='cache:order')
            problems = True
    for s_ in save:
        w = g.path(ml.body_entry, [s_], avoid=ml.solves, labels=cfgm.noexc)
        if w is not None:
            out.bad(fn, s_.ast, 'the solution is saved to the cache before the solve of this iteration: the cache '
                    'keeps the initial guess, not the solution', key='cache:order')
            problems = True
        w = g.path(ml.body_entry, [s_], avoid=rest, labels=cfgm.noexc)
        if w is not None and not problems:
            out.bad(fn, s_.ast, 'the solution is saved without the cache entry having been created by '
                    '_restore_linear_solution', key='cache:order')
            problems = True
    if not problems:
        out.ok(fn, rest[0].ast, 'restore -> model._solve_linear -> save within one iteration, all with the loop mode')


# =========================================================================== C01.transpose
TRANSPOSING_SOLVERS = [(DIRECT, 'DirectSolver.solve'), (PETSC_DIRECT, 'PETScDirectSolver.solve')]
_NO_TRANSPOSE = (0, 'N', False)


@rule('C01.transpose', floor=4)
def transpose(repo, out):
    """Direct solvers: a back-substitution that uses the transposed factorization in rev mode must run with
    d_outputs and d_residuals in the physical state (inside system._unscaled_context(outputs=[d_outputs],
    residuals=[d_residuals])): the model-level vector scaling divides outputs by ref and residuals by res_ref
    in both directions, so the transpose of the scaled fwd operator is not the scaled rev operator."""
    for rel, qn in TRANSPOSING_SOLVERS:
        fn = repo.try_func(rel, qn)
        if fn is None:
            continue
        cx = Ctx(fn)
        g = cx.g
        rescale = any(isinstance(x, ast.Attribute) and x.attr in ('_scaling', 'scale_to_norm', 'scale_to_phys',
                                                                  '_scale_forward', '_scale_reverse')
                      for st in astx.walk_stmts(fn.node.body) for x in own_walk(st))
        for n in g.nodes:
            for c in n.calls():
                attr = astx.callee_attr(c)
                recv = astx.path(astx.receiver(c)) or ''
                if attr == 'lu_solve':
                    t = astx.arg(c, 2, 'trans')
                elif attr == 'solve' and recv.startswith(('self._lu', 'self._lup')):
                    t = astx.kwarg(c, 'trans') or astx.kwarg(c, 'transpose') or astx.arg(c, 1, None)
                else:
                    continue
                may = None
                if t is None:
                    may = False
                elif isinstance(t, ast.Constant):
                    may = t.value not in _NO_TRANSPOSE
                elif isinstance(t, ast.Name):
                    vals = []
                    for d in cx.rd.defs(n, t.id):
                        if d.kind == 'stmt' and isinstance(d.ast, ast.Assign) and isinstance(d.ast.value, ast.Constant):
                            vals.append(d.ast.value.value)
                        else:
                            vals = None
                            break
                    if vals:
                        may = any(v not in _NO_TRANSPOSE for v in vals)
                if may is None:
                    out.unsure(fn, n.ast, f'cannot tell whether {astx.src(t)} selects the transposed system')
                    continue
                if not may:
                    out.ok(fn, n.ast, 'solve never transposes')
                    continue
                ctxs = [(w, call) for w, call in encl_withs(n.ast) if astx.callee_attr(call) == '_unscaled_context']
                good = False
                for w, call in ctxs:
                    vecs = set()
                    for kw in ('outputs', 'residuals'):
                        v = astx.kwarg(call, kw)
                        if isinstance(v, (ast.List, ast.Tuple)):
                            for e in v.elts:
                                vecs.add((kw, (cx.resolve(e, cx.node(w)) or '').split('.')[-1]))
                    if ('outputs', '_doutputs') in vecs and ('residuals', '_dresiduals') in vecs:
                        good = True
                if good:
                    out.ok(fn, n.ast, 'transposing solve runs inside _unscaled_context(outputs=[d_outputs], '
                           'residuals=[d_residuals])')
                elif rescale:
                    out.unsure(fn, n.ast, 'transposing solve outside _unscaled_context, but the function rescales '
                               'vectors explicitly: compensation not analysed')
                else:
                    out.bad(fn, n.ast, 'in rev mode this back-substitution uses the transposed factorization while '
                            'd_outputs / d_residuals are in the solver-scaled state (both divided by ref / res_ref, '
                            'the forward convention).  For the matrix built by apply_linear, M = R^-1 J O, it solves '
                            'O J^T R^-1 x = b, but the reverse operator every other code path applies to these '
                            'vectors is O^-1 J^T R: the result is off by ref**2 / res_ref**2 whenever the seeded '
                            '`of` variable has ref != 1 or the `wrt` variable has res_ref != 1 (rev totals differ '
                            'from fwd totals).  Transposition is only the adjoint in the physical state',
                            key=f'{qn}:scaled-transpose:{astx.src(c.func)}({astx.src(c.args[0]) if c.args else ""}'
                                f'{"," + astx.src(c.args[1]) if attr == "lu_solve" and len(c.args) > 1 else ""})')


# =========================================================================== C01.views
@rule('C01.views', floor=10)
def views(repo, out):
    """The per-variable blocks handed out by _get_dict_J are views J[of_slice, wrt_slice] of the dense array
    (rows = of, columns = wrt, no copy): unit / driver scaling is applied to the blocks in place and must
    reach the array that is returned; every caller passes (J, wrt metadata, of metadata); set_col writes a
    column."""
    fn = tj(repo, '_get_dict_J')
    ps = params(fn)
    if len(ps) < 3:
        raise AnalysisError(f'{fn.ident}: expected (J, wrt_metadata, of_metadata, return_format)')
    jname, wrt_p, of_p = ps[0], ps[1], ps[2]
    cx = Ctx(fn)

    def side_of(e, st):
        """'of' / 'wrt' when e is <loopvar>['jac_slice'] (possibly via a local) of a loop over that dict."""
        for _ in range(3):
            if isinstance(e, ast.Name):
                v, d = cx.alias(e.id, cx.node(st))
                if v is None:
                    return None
                e = v
        if not (isinstance(e, ast.Subscript) and astx.const_str(e.slice) == 'jac_slice' and
                isinstance(e.value, ast.Name)):
            return None
        for a in astx.ancestors(st):
            if isinstance(a, ast.For) and isinstance(a.target, ast.Tuple) and len(a.target.elts) == 2 and \
                    isinstance(a.target.elts[1], ast.Name) and a.target.elts[1].id == e.value.id and \
                    isinstance(a.iter, ast.Call) and astx.callee_attr(a.iter) == 'items':
                r = astx.path(astx.receiver(a.iter))
                return 'of' if r == of_p else 'wrt' if r == wrt_p else None
        return None
    n_store = 0
    for st in astx.walk_stmts(fn.node.body):
        if not isinstance(st, ast.Assign) or not any(isinstance(t, ast.Subscript) for t in st.targets):
            continue
        subs = [x for x in astx.walk(st.value) if isinstance(x, ast.Subscript) and isinstance(x.value, ast.Name)
                and x.value.id == jname]
        if not subs:
            continue
        n_store += 1
        x = subs[0]
        copying = any((isinstance(y, ast.Call) and astx.callee_attr(y) in ('copy', 'array', 'deepcopy', 'astype',
                                                                           'ascontiguousarray', 'toarray'))
                      or isinstance(y, ast.BinOp) for y in astx.walk(st.value))
        if x is not st.value and not copying:
            out.unsure(fn, st, f'block is wrapped: {astx.src(st.value)}; cannot tell whether it is still a view')
            continue
        if x is not st.value:
            out.bad(fn, st, f'the block stored is {astx.src(st.value)}, not the plain view {astx.src(x)}: in-place '
                    'scaling of the dict blocks no longer reaches the array J (return_format=\'array\' comes back '
                    'unscaled) and later computations do not update the returned dict', key='views:copy')
            continue
        if not (isinstance(x.slice, ast.Tuple) and len(x.slice.elts) == 2):
            out.unsure(fn, st, 'block is not taken with a (rows, columns) subscript')
            continue
        r, c = (side_of(e, st) for e in x.slice.elts)
        if (r, c) == ('of', 'wrt'):
            out.ok(fn, st, 'block = J[of jac_slice, wrt jac_slice] (a view)')
        elif (r, c) == ('wrt', 'of'):
            out.bad(fn, st, 'block is taken as J[wrt slice, of slice]: rows of J are responses, columns are design '
                    'variables', key='views:orientation')
        elif r == c and r is not None:
            out.bad(fn, st, f'both subscripts of the block come from the `{r}` metadata', key='views:orientation')
        else:
            out.unsure(fn, st, 'cannot tell which metadata the row / column slices come from')
    if n_store == 0:
        out.unsure(fn, fn.node, 'no block J[...] is stored')
    # call sites
    init = tj(repo, '__init__')
    role = {}
    jst = [st for st in _self_assigns(init, 'J') if isinstance(st.value, ast.Call) and st.value.args and
           isinstance(st.value.args[0], ast.Tuple) and len(st.value.args[0].elts) == 2]
    if len(jst) == 1:
        rows, cols = (astx.path(e) for e in jst[0].value.args[0].elts)
        for st in astx.walk_stmts(init.node.body):
            if isinstance(st, ast.Assign) and isinstance(st.value, ast.Call) and \
                    astx.call_name(st.value) == 'self._get_tuple_map' and st.value.args:
                tgt = st.targets[0]
                first = astx.path(tgt.elts[0]) if isinstance(tgt, ast.Tuple) and tgt.elts else astx.path(tgt)
                if first == rows:
                    role[astx.path(st.value.args[0])] = 'of'
                elif first == cols:
                    role[astx.path(st.value.args[0])] = 'wrt'
    role["self.input_meta['fwd']"] = 'wrt'
    role["self.output_meta['fwd']"] = 'of'
    role["self.input_meta['rev']"] = 'of'
    role["self.output_meta['rev']"] = 'wrt'
    for f in (init, tj(repo, 'record_derivatives'), tj(repo, '_get_as_directional')):
        for st in astx.walk_stmts(f.node.body):
            for c in own_calls(st):
                if astx.call_name(c) != 'self._get_dict_J':
                    continue
                a1, a2 = astx.arg(c, 1, wrt_p), astx.arg(c, 2, of_p)
                k1, k2 = role.get(astx.path(a1)), role.get(astx.path(a2))
                if (k1, k2) == ('wrt', 'of'):
                    out.ok(f, st, '_get_dict_J(J, wrt metadata, of metadata, ...)')
                elif (k1, k2) == ('of', 'wrt'):
                    out.bad(f, st, f'_get_dict_J is called with ({astx.src(a1)}, {astx.src(a2)}); its parameters are '
                            '(J, wrt_metadata, of_metadata): blocks are cut out of J transposed',
                            key=f'views:call-order:{f.name}')
                else:
                    out.unsure(f, st, 'cannot classify the metadata arguments of _get_dict_J')
    f = tj(repo, 'set_col')
    ps2 = params(f)
    w = [st for st in astx.walk_stmts(f.node.body) if isinstance(st, ast.Assign) and
         isinstance(st.targets[0], ast.Subscript) and astx.path(st.targets[0].value) == 'self.J']
    if len(ps2) >= 3 and len(w) == 1 and isinstance(w[0].targets[0].slice, ast.Tuple) and \
            len(w[0].targets[0].slice.elts) == 2:
        e0, e1 = w[0].targets[0].slice.elts
        full = lambda e: isinstance(e, ast.Slice) and e.lower is None and e.upper is None
        if full(e0) and isinstance(e1, ast.Name) and e1.id == ps2[1]:
            out.ok(f, w[0], f'set_col writes column `{ps2[1]}` of J')
        elif full(e1) and isinstance(e0, ast.Name) and e0.id == ps2[1]:
            out.bad(f, w[0], 'set_col writes a row of J: approximated totals come back transposed',
                    key='views:set-col')
        else:
            out.unsure(f, w[0], 'unrecognised write in set_col')
    else:
        out.unsure(f, f.node, 'unrecognised set_col')


# =========================================================================== C01.index-norm
INDEXER = 'openmdao/utils/indexer.py'
_INDEX_PRODUCERS = ('as_array', 'flat', 'shaped_array', '__call__')
INDEX_SITES = [(TJ, f'{CLS}._create_in_idx_map'), (TJ, f'{CLS}._get_sol2jac_map'),
               (INDEXER, 'idx_list_to_index_array')]


def _normalising_methods(repo):
    """Names of Indexer methods that return shape-resolved (negative-normalised) indices for *every*
    indexer class: derived from indexer.py -- a method normalises on class C when the implementation C
    resolves to calls self.shaped_instance() or another normalising method on self."""
    m = repo.module(INDEXER)
    if 'Indexer' not in m.classes:
        raise AnalysisError('indexer.py: class Indexer vanished')
    hier = [q for q in m.classes if '.' not in q and (INDEXER, 'Indexer') in repo.mro(INDEXER, q)]
    unshaped = [q for q in hier if q != 'Indexer' and f'{q}.shaped_instance' in m.funcs]
    if not unshaped:
        raise AnalysisError('indexer.py: no class overrides shaped_instance')
    names = set()
    for q in hier:
        for fq in m.funcs:
            if fq.startswith(q + '.') and fq.count('.') == 1:
                names.add(fq.split('.')[1])

    def norm_on(cls, meth, depth=0):
        if meth == 'shaped_instance':
            return True
        if depth > 4:
            return False
        f = repo.lookup(INDEXER, cls, meth)
        if f is None:
            return False
        for c in astx.calls(f.node):
            if astx.path(astx.receiver(c)) == 'self' and astx.callee_attr(c) != meth and \
                    norm_on(cls, astx.callee_attr(c), depth + 1):
                return True
        return False
    return {n for n in names if all(norm_on(q, n) for q in unshaped)}, unshaped


@rule('C01.index-norm', floor=4)
def index_norm(repo, out):
    """Index arrays taken from an Indexer and used as positions (compared, offset, concatenated, returned
    as an index array) come from a shape-resolved producer (shaped_array / shaped_instance()...): raw
    as_array()/flat()/() keep negative entries, which only numpy subscripting interprets correctly."""
    norm, unshaped = _normalising_methods(repo)
    if 'shaped_array' not in norm:
        raise AnalysisError('indexer.py: shaped_array no longer resolves through shaped_instance')
    out.count('normalising_methods', len(norm))
    for rel, qn in INDEX_SITES:
        fn = repo.func(rel, qn)
        cx = Ctx(fn)

        def recv_normalised(e, at, depth=0):
            """Is receiver expression e already a shaped instance?"""
            if depth > 4 or e is None:
                return False
            if isinstance(e, ast.Call) and astx.callee_attr(e) in norm:
                return True
            if isinstance(e, ast.Name):
                v, d = cx.alias(e.id, at)
                return recv_normalised(v, d, depth + 1) if v is not None else False
            return False

        def use_kind(e, st, depth=0):
            """'subscript' | 'length' | 'position' | 'return' | None for expression e evaluated in st."""
            par = getattr(e, '_parent', None)
            if depth > 6 or par is None:
                return None
            if isinstance(par, ast.Subscript):
                if par.slice is e:
                    return 'subscript'
                if par.value is e:
                    return use_kind(par, st, depth + 1)      # raw[sel] is still raw
            if isinstance(par, ast.Tuple) and isinstance(getattr(par, '_parent', None), ast.Subscript) and \
                    par._parent.slice is par:
                return 'subscript'
            if isinstance(par, ast.Call) and e in par.args:
                nm = astx.callee_attr(par)
                if nm == 'len':
                    return 'length'
                if nm in ('indexed_val', 'take'):
                    return 'subscript'
                if nm in ('append', 'extend', 'hstack', 'concatenate', 'logical_and', 'nonzero', 'array', 'asarray'):
                    return 'position'
                return None
            if isinstance(par, ast.Attribute) and par.value is e:
                if par.attr in ('size', 'shape', 'ndim', 'dtype'):
                    return 'length'
                if par.attr in ('ravel', 'copy', 'flatten', 'astype'):
                    gp = getattr(par, '_parent', None)
                    return use_kind(gp, st, depth + 1) if isinstance(gp, ast.Call) else None
                return None
            if isinstance(par, (ast.BinOp, ast.Compare, ast.UnaryOp)):
                return 'position'
            if isinstance(par, ast.AugAssign):
                return 'position'
            if isinstance(par, (ast.Return, ast.Yield)):
                return 'return'
            if isinstance(par, ast.Assign) and par.value is e and len(par.targets) == 1 and \
                    isinstance(par.targets[0], ast.Name):
                v = par.targets[0].id
                dnode = cx.node(par)
                kinds = set()
                for n in cx.g.nodes:
                    if n.kind in ('entry', 'exit', 'raise', 'join') or dnode not in cx.rd.defs(n, v):
                        if not (n.kind == 'stmt' and isinstance(n.ast, ast.AugAssign) and
                                isinstance(n.ast.target, ast.Name) and n.ast.target.id == v and
                                dnode in cx.rd.defs(n, v)):
                            continue
                    if n.kind == 'stmt' and isinstance(n.ast, ast.AugAssign) and \
                            isinstance(n.ast.target, ast.Name) and n.ast.target.id == v:
                        kinds.add('position')
                        continue
                    for ex in n.exprs():
                        for x in astx.walk(ex):
                            if isinstance(x, ast.Name) and x.id == v and isinstance(x.ctx, ast.Load):
                                kinds.add(use_kind(x, n.ast, depth + 1))
                for k in ('position', 'return'):
                    if k in kinds:
                        return k
                if None in kinds:
                    return None
                return 'subscript' if 'subscript' in kinds else 'length' if kinds else None
            return None

        found = 0
        for st in astx.walk_stmts(fn.node.body):
            for c in own_calls(st):
                meth = astx.callee_attr(c)
                if meth not in _INDEX_PRODUCERS or not isinstance(c.func, ast.Attribute):
                    continue
                recv = astx.receiver(c)
                if isinstance(recv, ast.Attribute) and recv.attr == 'flat' and meth != 'flat':
                    continue
                if astx.path(recv) in ('np', 'numpy') or astx.path(recv) is None and \
                        not isinstance(recv, (ast.Call, ast.Subscript)):
                    continue
                found += 1
                at = cx.node(st)
                if meth in norm or recv_normalised(recv, at):
                    out.ok(fn, st, f'{astx.src(c)[:60]}: shape-resolved (negative-normalised) indices')
                    continue
                k = use_kind(c, st)
                if k in ('subscript', 'length'):
                    out.ok(fn, st, f'raw {meth}() is only used as a numpy subscript / for its length (negative '
                           'entries are interpreted by the subscripted array)')
                elif k == 'position':
                    out.bad(fn, st, f'`{astx.src(c)}` returns the indices as the user wrote them (negative entries '
                            f'kept; only {sorted(norm & set(_INDEX_PRODUCERS))} / shaped_instance() resolve them '
                            'against the source shape), but the result is compared / offset / concatenated as '
                            'absolute positions: a negative index falls outside every local range and the entry '
                            'silently gets no seed / lands on the wrong row or column',
                            key=f'index-norm:{fn.qualname.split(".")[-1]}:{meth}:position')
                elif k == 'return':
                    sib = [r for r in astx.walk_stmts(fn.node.body) if isinstance(r, ast.Return) and r is not st
                           and r.value is not None and not (isinstance(r.value, ast.Constant))]
                    arange_based = False
                    for r in sib:
                        v = r.value
                        if isinstance(v, ast.Name):
                            ds = cx.rd.defs(cx.node(r), v.id)
                            arange_based = bool(ds) and all(
                                d.kind == 'stmt' and isinstance(d.ast, ast.Assign) and
                                any(astx.callee_attr(cc) in ('arange', 'indexed_val') for cc in astx.calls(d.ast.value))
                                for d in ds)
                    if arange_based:
                        out.bad(fn, st, f'this branch returns `{astx.src(c)}` (indices as written, negative entries '
                                'kept) while the sibling branch returns positions taken from np.arange(size) (never '
                                'negative): callers use the result as absolute source positions (columns of an '
                                'assembled jacobian, transfer indices), so a negative src_index of a single-indexer '
                                f'connection addresses the wrong column; use one of {sorted(norm & set(_INDEX_PRODUCERS))}',
                                key=f'index-norm:{fn.qualname.split(".")[-1]}:{meth}:return')
                    else:
                        out.unsure(fn, st, f'raw {meth}() escapes through the return value')
                else:
                    out.unsure(fn, st, f'cannot classify how the raw result of {meth}() is used')
        if not found:
            out.unsure(fn, fn.node, 'no index-array producer call found')


# =========================================================================== C01.driver-order
_ORDERED_DRIVER_LISTS = ('_get_ordered_nl_responses', '_get_nl_dvs', '_get_lin_dvs')
_UNORDERING = ('sorted', 'set', 'frozenset', 'Counter')
TOTALS_META_FUNCS = ('_get_totals_metadata', '_get_totals_of_metadata', '_get_totals_wrt_metadata')


@rule('C01.driver-order', floor=8)
def driver_order(repo, out):
    """A requested of/wrt list counts as "the driver's own variables" (has_custom_derivs stays False, so the
    driver's colouring and unit/scaling tables are applied) only when it equals, as an ordered sequence, a
    reference list that is itself in the driver's order: no sorted()/set() comparison, and reference lists
    of source names are mapped from the driver-ordered name list, not enumerated from another container."""
    for name in TOTALS_META_FUNCS:
        fn = repo.func(GROUP, f'Group.{name}')
        cx = Ctx(fn)
        ps = set(params(fn))

        def origin(e, at, depth=0):
            """Follow local aliases and list()/tuple() wrappers."""
            while depth < 8:
                depth += 1
                if isinstance(e, ast.Name):
                    if e.id in ps and cx.rd.defs(at, e.id) <= {cx.g.entry}:
                        return e
                    v, d = cx.alias(e.id, at)
                    if v is None:
                        return e
                    e, at = v, d
                    continue
                if isinstance(e, ast.Call) and astx.call_name(e) in ('list', 'tuple') and len(e.args) == 1:
                    e = e.args[0]
                    continue
                if isinstance(e, ast.IfExp):
                    # `list(wrt) if wrt is not None else []`
                    e = e.body
                    continue
                return e
            return e

        def classify(e, at, depth=0):
            """'request' | 'ordered' | ('container', text) | ('unordering', text) | None"""
            if depth > 4:
                return None
            if isinstance(e, ast.Call) and astx.call_name(e) in _UNORDERING:
                return ('unordering', astx.call_name(e))
            if isinstance(e, ast.Name) and e.id not in ps:
                ds = cx.rd.defs(at, e.id)
                kinds = set()
                for d in ds:
                    v = assigned_value(d.ast, e.id) if d.kind == 'stmt' else None
                    kinds.add(classify(v, d, depth + 1) if v is not None else None)
                return kinds.pop() if len(kinds) == 1 else None
            o = origin(e, at)
            if isinstance(o, ast.Name) and o.id in ps:
                return 'request'
            if isinstance(o, ast.Call) and astx.call_name(o) in _UNORDERING:
                return ('unordering', astx.call_name(o))
            if isinstance(o, ast.Call) and astx.callee_attr(o) in _ORDERED_DRIVER_LISTS and \
                    astx.path(astx.receiver(o)) == 'driver':
                return 'ordered'
            if isinstance(o, ast.ListComp) and len(o.generators) == 1:
                it = o.generators[0].iter
                k = classify(it, at, depth + 1)
                if k == 'ordered':
                    return 'ordered'
                base = it
                if isinstance(base, ast.Call) and astx.callee_attr(base) in ('items', 'keys', 'values'):
                    base = astx.receiver(base)
                if astx.path(base) and astx.path(base).startswith('driver.'):
                    return ('container', astx.path(base))
                return None
            return None

        flags = [st for st in astx.walk_stmts(fn.node.body) if isinstance(st, ast.Assign) and
                 any(isinstance(t, ast.Name) and t.id == 'has_custom_derivs' for t in st.targets) and
                 isinstance(st.value, ast.Constant) and st.value.value is True]
        if not flags:
            out.bad(fn, fn.node, 'has_custom_derivs is never set: any requested of/wrt list is treated as the '
                    "driver's own, so the driver colouring is applied to arbitrary jacobians",
                    key=f'driver-order:{name}:never-custom')
            continue
        seen = set()
        for st in flags:
            for a in astx.ancestors(st):
                if isinstance(a, (ast.FunctionDef, ast.AsyncFunctionDef)):
                    break
                if not isinstance(a, ast.If):
                    continue
                for cmp_ in [x for x in astx.walk(a.test) if isinstance(x, ast.Compare)]:
                    if id(cmp_) in seen or len(cmp_.ops) != 1 or not isinstance(cmp_.ops[0], (ast.NotEq, ast.Eq)):
                        continue
                    at = cx.node(a)
                    sides = [classify(cmp_.left, at), classify(cmp_.comparators[0], at)]
                    if 'request' not in sides and not any(isinstance(k, tuple) and k[0] == 'unordering'
                                                          for k in sides):
                        continue        # not a comparison of the request with a reference list
                    seen.add(id(cmp_))
                    side = 'of' if any(n in ('of', 'list_of') for n in astx.names(cmp_)) else 'wrt'
                    un = [k for k in sides if isinstance(k, tuple) and k[0] == 'unordering']
                    cont = [k for k in sides if isinstance(k, tuple) and k[0] == 'container']
                    if un:
                        out.bad(fn, a, f'`{astx.src(cmp_)}` compares the requested list with the driver\'s list '
                                f'through {un[0][1]}(): a permutation of the driver\'s variables is taken for the '
                                'driver\'s own list, and the driver colouring (built for the driver\'s row/column '
                                'order) is applied to a differently ordered jacobian',
                                key=f'driver-order:{name}:{side}:unordered-compare')
                    elif cont:
                        out.bad(fn, a, f'`{astx.src(cmp_)}`: the reference list of source names is enumerated in '
                                f'the order of {cont[0][1]} (insertion order), not mapped from the driver-ordered '
                                'name list (objectives first): a request listing the sources in that other order '
                                'is taken for the driver\'s own list and the driver colouring is applied to a '
                                'jacobian with permuted rows', key=f'driver-order:{name}:{side}:reference-order')
                    elif set(sides) == {'request', 'ordered'}:
                        out.ok(fn, a, f'`{astx.src(cmp_)}`: ordered comparison with a driver-ordered list')
                    else:
                        out.unsure(fn, a, f'cannot classify the lists compared in `{astx.src(cmp_)}`')


# =========================================================================== clauses shared with C02 / C11
def _reuse(mod, func):
    try:
        m = __import__(f'omstatic.rules.{mod}', fromlist=[func])
        return getattr(m, func)
    except Exception as e:   # pragma: no cover
        raise AnalysisError(f'{mod}.{func} not importable: {type(e).__name__}: {e}')


@rule('C01.rhs-cache', floor=4)
def rhs_cache(repo, out):
    """Reverse-mode solution cache of the linear solvers (LinearRHSChecker) is linear: a hit for c * rhs
    returns c * cached solution, sign included -- otherwise a reused adjoint solve yields a wrong row of J
    (same clause as C02.rhscache; C01.loop pins the invalidation through ncompute_totals)."""
    _reuse('C02', 'rhscache')(repo, out)


@rule('C01.unit-factor', floor=4)
def unit_factor(repo, out):
    """Assembled jacobians: a connection's unit-conversion factor multiplies the values of its own
    sub-jacobian exactly once, before they are accumulated into the matrix (never the accumulated entries,
    which may hold contributions of another input of the same source) -- same clause as C11.factor-once."""
    _reuse('C11', 'factor_once')(repo, out)


_SCALE_CALLS = ('_apply_unit_scaling', 'apply_jac_scaling')
_SUB_CALLS = ('_apply_subtractions',)


def _order_summary(repo, fn, depth=0, seen=()):
    """(cx, sub nodes, scale nodes, problems) of a _TotalJacInfo method; a call of another method of the class
    that (transitively) subtracts or scales counts as such an event at its call site, and the callee's own
    internal order is checked recursively."""
    cx = Ctx(fn)
    subs, scales, problems = [], [], []
    for n in cx.g.nodes:
        for c in n.calls():
            attr = astx.callee_attr(c)
            if attr in _SUB_CALLS:
                subs.append(n)
            elif attr in _SCALE_CALLS:
                scales.append(n)
            elif astx.path(astx.receiver(c)) == 'self' and depth < 3 and attr not in seen and \
                    attr not in ('compute_totals',):
                callee = repo.try_func(TJ, f'{CLS}.{attr}')
                if callee is None or callee is fn:
                    continue
                _, csubs, cscales, cprob = _order_summary(repo, callee, depth + 1, seen + (fn.name,))
                problems.extend(cprob)
                if csubs:
                    subs.append(n)
                if cscales:
                    scales.append(n)
    g = cx.g
    for sc in scales:
        after = g.reach(g.normal_succ(sc), labels=cfgm.noexc)
        late = [x for x in subs if x in after and x is not sc]
        if late:
            problems.append((fn, sc, late[0]))
    return cx, subs, scales, problems


@rule('C01.order', floor=3)
def order_(repo, out):
    """compute_totals (following helper methods of the class): no substitution-colouring subtraction, which
    combines entries of different rows / columns, can run after an in-place unit or driver scaling of J."""
    fn = tj(repo, 'compute_totals')
    cx, subs, scales, problems = _order_summary(repo, fn)
    if not scales:
        raise AnalysisError(f'{fn.ident}: no unit / driver scaling of J found (directly or through a helper)')
    if not subs:
        raise AnalysisError(f'{fn.ident}: no _apply_subtractions call found (directly or through a helper)')
    for f2, sc, sub in problems:
        out.bad(f2, sc.ast, f'`{astx.src(sc.ast)[:70]}` rescales entries of J in place and `{astx.src(sub.ast)[:70]}` '
                'can still run afterwards: the subtraction combines entries of different rows / columns, which '
                'is only valid while they share one scale (substitution colouring with non-uniform '
                'ref / units gives wrong entries)', key=f'order:{f2.name}:scale-before-subtraction')
    if problems:
        return
    # the approximation path scales too but has no subtractions; the main path: subtraction dominates scaling
    direct_sub = [n for n in subs]
    for sc in scales:
        out.ok(fn, sc.ast, 'no colouring subtraction can follow this scaling')
    out.ok(fn, direct_sub[0].ast, 'subtractions are completed before J is scaled')
    # mutual exclusivity with the approx branch is irrelevant: it returns before the loop


@rule('C01.transfer-scaling', floor=10)
def transfer_scaling(repo, out):
    """scale_to_norm / scale_to_phys are only called from the two scaling contexts and Group._transfer, and
    every call is undone by its inverse with the same `mode` in the same branch: a reverse transfer that
    restores the input vector with the forward convention leaves a squared unit / ref factor in d_inputs
    (same clause as C08.who)."""
    _reuse('C08', 'who')(repo, out)


@rule('C01.hook-state', floor=30)
def hook_state(repo, out):
    """Every user hook of a component (compute_partials, linearize, apply_linear, compute_jacvec_product,
    solve_linear, ...) runs with every vector it reads or writes in the physical state -- including the
    nonlinear outputs the linearization point is taken from (same clause as C08.enclose)."""
    _reuse('C08', 'enclose')(repo, out)


# =========================================================================== self-test
_SOLVE_LOOP_TAIL = (
    "                            jac_setter(inds, mode, imeta)\n\n"
    "                            # reset any Problem level data for the current iteration\n")

selftest(
    'C01',
    # ---- zero-seeds
    Mutant('zero-missing-single', TJ,
           "        self._zero_vecs(mode)\n\n        loc_idx = self.in_loc_idxs[mode][idx]",
           "        loc_idx = self.in_loc_idxs[mode][idx]", 'C01.zero-seeds'),
    Mutant('zero-after-seed-directional', TJ,
           "        self._zero_vecs(mode)\n\n        loc_idxs = self.in_loc_idxs[mode][inds]\n"
           "        loc_idxs = loc_idxs[loc_idxs >= 0]\n        if loc_idxs.size > 0:\n"
           "            self.input_vec[mode].set_val(self.seeds[mode][inds], loc_idxs)\n",
           "        loc_idxs = self.in_loc_idxs[mode][inds]\n"
           "        loc_idxs = loc_idxs[loc_idxs >= 0]\n        if loc_idxs.size > 0:\n"
           "            self.input_vec[mode].set_val(self.seeds[mode][inds], loc_idxs)\n"
           "        self._zero_vecs(mode)\n", 'C01.zero-seeds'),
    Mutant('zero-conditional-simul', TJ,
           "        self._zero_vecs(mode)\n\n        self.input_vec[mode].set_val(itermeta['seeds'], itermeta['local_in_idxs'])",
           "        if itermeta['cache_lin_solve']:\n            self._zero_vecs(mode)\n\n"
           "        self.input_vec[mode].set_val(itermeta['seeds'], itermeta['local_in_idxs'])", 'C01.zero-seeds'),
    Mutant('zero-rev-flipped', TJ, "        if mode == 'rev':\n            self.model._dinputs.set_val(0.0)",
           "        if mode == 'fwd':\n            self.model._dinputs.set_val(0.0)", 'C01.zero-seeds'),
    Mutant('zero-dresiduals-dropped', TJ,
           "        self.model._dresiduals.set_val(0.0)\n        if mode == 'rev':", "        if mode == 'rev':",
           'C01.zero-seeds'),
    Mutant('zero-fixed-direction', TJ,
           "        self._zero_vecs(mode)\n\n        loc_idxs = self.in_loc_idxs[mode][inds]",
           "        self._zero_vecs('fwd')\n\n        loc_idxs = self.in_loc_idxs[mode][inds]", 'C01.zero-seeds'),
    Mutant('seed-into-problem-mode-vector', TJ,
           "            self.input_vec[mode].set_val(self.seeds[mode][idx], loc_idx)",
           "            self.input_vec[self.mode].set_val(self.seeds[mode][idx], loc_idx)", 'C01.zero-seeds'),
    # ---- state
    Mutant('ctx-no-finally', TJ,
           "        try:\n            yield\n        finally:\n"
           "            self.model._problem_meta['relevance'] = old_relevance\n"
           "            self.model._problem_meta['mode'] = old_mode",
           "        yield\n"
           "        self.model._problem_meta['relevance'] = old_relevance\n"
           "        self.model._problem_meta['mode'] = old_mode", 'C01.state'),
    Mutant('ctx-mode-orig', TJ, "        self.model._problem_meta['mode'] = self.mode",
           "        self.model._problem_meta['mode'] = self._orig_mode", 'C01.state'),
    Mutant('ctx-restore-swapped', TJ, "            self.model._problem_meta['mode'] = old_mode",
           "            self.model._problem_meta['mode'] = old_relevance", 'C01.state'),
    Mutant('ctx-save-after-set', TJ,
           "        old_mode = self.model._problem_meta['mode']\n"
           "        self.model._problem_meta['relevance'] = self.relevance\n"
           "        self.model._problem_meta['mode'] = self.mode\n",
           "        self.model._problem_meta['relevance'] = self.relevance\n"
           "        self.model._problem_meta['mode'] = self.mode\n"
           "        old_mode = self.model._problem_meta['mode']\n", 'C01.state'),
    Mutant('ctx-relevance-not-installed', TJ,
           "        self.model._problem_meta['relevance'] = self.relevance\n", "", 'C01.state'),
    Mutant('approx-totjac-not-set', TJ,
           "            model._tot_jac = self\n            try:\n                if self.initialize:",
           "            try:\n                if self.initialize:", 'C01.state'),
    Mutant('approx-totjac-not-reset', TJ,
           "            finally:\n                model._tot_jac = None\n\n            totals = self.J_dict",
           "            finally:\n                pass\n\n            totals = self.J_dict", 'C01.state'),
    # ---- loop
    Mutant('solve-with-problem-mode', TJ,
           "                                    else:\n                                        model._solve_linear(mode)",
           "                                    else:\n                                        model._solve_linear(self.mode)",
           'C01.loop'),
    Mutant('input-setter-with-problem-mode', TJ, "_, cache_key = input_setter(inds, itermeta, mode)",
           "_, cache_key = input_setter(inds, itermeta, self.mode)", 'C01.loop'),
    Mutant('jac-setter-with-problem-mode', TJ, "                            jac_setter(inds, mode, imeta)",
           "                            jac_setter(inds, self.mode, imeta)", 'C01.loop'),
    Mutant('idx-iter-dict-problem-mode', TJ, "self.idx_iter_dict[mode].items()", "self.idx_iter_dict[self.mode].items()",
           'C01.loop'),
    Mutant('iterator-problem-mode', TJ, "in idx_iter(imeta, mode):", "in idx_iter(imeta, self.mode):", 'C01.loop'),
    Mutant('scatter-before-solve', TJ, _SOLVE_LOOP_TAIL,
           "                            # reset any Problem level data for the current iteration\n", 'C01.loop',
           also=[(TJ, "                            with relevance.seeds_active(fwd_seeds=fwd_seeds, rev_seeds=rev_seeds):",
                  "                            jac_setter(inds, mode, imeta)\n"
                  "                            with relevance.seeds_active(fwd_seeds=fwd_seeds, rev_seeds=rev_seeds):")]),
    Mutant('scatter-only-when-printing', TJ,
           "                            jac_setter(inds, mode, imeta)\n",
           "                            if debug_print:\n                                jac_setter(inds, mode, imeta)\n",
           'C01.loop'),
    Mutant('seeds-direction-swapped', TJ,
           "                                fwd_seeds = itermeta['seed_vars']\n                                rev_seeds = None\n"
           "                            else:\n                                fwd_seeds = None\n"
           "                                rev_seeds = itermeta['seed_vars']",
           "                                fwd_seeds = None\n                                rev_seeds = itermeta['seed_vars']\n"
           "                            else:\n                                fwd_seeds = itermeta['seed_vars']\n"
           "                                rev_seeds = None", 'C01.loop'),
    Mutant('seeds-both-directions', TJ,
           "                                fwd_seeds = None\n                                rev_seeds = itermeta['seed_vars']",
           "                                fwd_seeds = itermeta['seed_vars']\n"
           "                                rev_seeds = itermeta['seed_vars']", 'C01.loop'),
    Mutant('seed-vars-not-set', TJ, "                            model._problem_meta['seed_vars'] = itermeta['seed_vars']\n", "",
           'C01.loop'),
    Mutant('par-deriv-color-not-reset', TJ,
           "                            self.model._problem_meta['parallel_deriv_color'] = None\n", "", 'C01.loop'),
    Mutant('ncompute-totals-dropped', TJ, "        self.model._problem_meta['ncompute_totals'] += 1\n", "", 'C01.loop'),
    # ---- linearize
    Mutant('solver-linearize-first', TJ,
           "                            with model._scaled_context_all():\n"
           "                                model._linearize(sub_do_ln=ln_solver._linearize_children())\n"
           "                            ln_solver._linearize()\n",
           "                            ln_solver._linearize()\n"
           "                            with model._scaled_context_all():\n"
           "                                model._linearize(sub_do_ln=ln_solver._linearize_children())\n",
           'C01.linearize'),
    Mutant('solver-linearize-dropped', TJ, "                            ln_solver._linearize()\n", "", 'C01.linearize'),
    Mutant('linearize-in-physical-state', TJ,
           "                            with model._scaled_context_all():\n"
           "                                model._linearize(sub_do_ln=ln_solver._linearize_children())\n",
           "                            model._linearize(sub_do_ln=ln_solver._linearize_children())\n", 'C01.linearize'),
    Mutant('sub-do-ln-false', TJ, "model._linearize(sub_do_ln=ln_solver._linearize_children())",
           "model._linearize(sub_do_ln=False)", 'C01.linearize'),
    Mutant('scatter-in-scaled-state', TJ, _SOLVE_LOOP_TAIL,
           "                            # reset any Problem level data for the current iteration\n", 'C01.linearize',
           also=[(TJ, "                                    else:\n                                        model._solve_linear(mode)\n",
                  "                                    else:\n                                        model._solve_linear(mode)\n"
                  "                                    jac_setter(inds, mode, imeta)\n")]),
    Mutant('solve-without-seeds-active', TJ,
           "                            with relevance.seeds_active(fwd_seeds=fwd_seeds, rev_seeds=rev_seeds):",
           "                            with relevance.all_seeds_active():", ['C01.linearize', 'C01.loop']),
    Mutant('group-solver-before-subsystem', GROUP,
           "                        subsys._linearize(sub_do_ln=do_ln)\n"
           "                        if sub_do_ln and subsys._linear_solver is not None:\n"
           "                            subsys._linear_solver._linearize()\n",
           "                        if sub_do_ln and subsys._linear_solver is not None:\n"
           "                            subsys._linear_solver._linearize()\n"
           "                        subsys._linearize(sub_do_ln=do_ln)\n", 'C01.linearize'),
    Mutant('linearize-without-all-seeds', TJ,
           "                    with relevance.all_seeds_active():\n                        try:\n"
           "                            ln_solver = model._linear_solver",
           "                    if True:\n                        try:\n"
           "                            ln_solver = model._linear_solver", 'C01.linearize'),
    Mutant('approx-without-all-seeds', TJ,
           "                with self.relevance.all_seeds_active():\n"
           "                    return self._compute_totals_approx(progress_out_stream=progress_out_stream)",
           "                if True:\n"
           "                    return self._compute_totals_approx(progress_out_stream=progress_out_stream)",
           'C01.linearize'),
    # ---- views
    Mutant('dict-blocks-copied', TJ,
           "                        outer[inp] = J[out_slice, wrtmeta['jac_slice']]",
           "                        outer[inp] = J[out_slice, wrtmeta['jac_slice']].copy()", 'C01.views'),
    Mutant('flat-blocks-transposed', TJ,
           "                        J_dict[out, inp] = J[out_slice, wrtmeta['jac_slice']]",
           "                        J_dict[out, inp] = J[wrtmeta['jac_slice'], out_slice]", 'C01.views'),
    Mutant('dict-j-call-order', TJ, "self.J_dict = self._get_dict_J(J, wrt_metadata, of_metadata, 'dict')",
           "self.J_dict = self._get_dict_J(J, of_metadata, wrt_metadata, 'dict')", 'C01.views'),
    Mutant('record-derivs-rev-tables', TJ,
           "totals = self._get_dict_J(self.J, self.input_meta['fwd'], self.output_meta['fwd'],",
           "totals = self._get_dict_J(self.J, self.input_meta['rev'], self.output_meta['rev'],", 'C01.views'),
    Mutant('set-col-writes-row', TJ, "        self.J[:, icol] = column", "        self.J[icol, :] = column", 'C01.views'),
    # ---- index-norm
    Mutant('seed-indices-raw', TJ, "                irange = in_idxs.shaped_array(copy=True)",
           "                irange = in_idxs.as_array(copy=True)", 'C01.index-norm'),
    Mutant('seed-indices-raw-flat', TJ, "                irange = in_idxs.shaped_array(copy=True)",
           "                irange = in_idxs.flat(copy=True)", 'C01.index-norm'),
    Mutant('sol-indices-offset-arithmetic', TJ,
           "                        sol_inds = np.arange(start, stop, dtype=INT_DTYPE)\n"
           "                        sol_inds = sol_inds[indices.flat()]",
           "                        sol_inds = indices.flat() + start", 'C01.index-norm'),
    # ---- driver-order / reused clauses (round-2 seeds)
    Mutant('wrt-compared-sorted', GROUP,
           "            if list_wrt != driver_wrt:\n"
           "                wrt_src_names = [driver._designvars[n]['source'] for n in driver_wrt]\n"
           "                if list_wrt != wrt_src_names:\n                    has_custom_derivs = True\n\n"
           "        driver_ordered_nl_resp_names",
           "            if sorted(list_wrt) != sorted(driver_wrt):\n"
           "                wrt_src_names = [driver._designvars[n]['source'] for n in driver_wrt]\n"
           "                if sorted(list_wrt) != sorted(wrt_src_names):\n                    has_custom_derivs = True\n\n"
           "        driver_ordered_nl_resp_names", 'C01.driver-order'),
    Mutant('wrt-compared-as-sets', GROUP, "            if list_wrt != driver_wrt:", "            if set(list_wrt) != set(driver_wrt):",
           'C01.driver-order'),
    Mutant('wrt-sources-from-designvars-order', GROUP,
           "wrt_src_names = [driver._designvars[n]['source'] for n in driver_wrt]",
           "wrt_src_names = [m['source'] for n, m in driver._designvars.items() if n in driver_wrt]",
           'C01.driver-order'),
    Mutant('of-sources-in-insertion-order', GROUP,
           "            of_src_names = [driver._responses[n]['source'] for n in driver_ordered_nl_resp_names]",
           "            of_src_names = [m['source'] for n, m in driver._responses.items()\n"
           "                            if n in driver_ordered_nl_resp_names]", 'C01.driver-order', nth=1),
    Mutant('of-sources-in-insertion-order-of-only', GROUP,
           "            of_src_names = [driver._responses[n]['source'] for n in driver_ordered_nl_resp_names]",
           "            of_src_names = [m['source'] for n, m in driver._responses.items()\n"
           "                            if n in driver_ordered_nl_resp_names]", 'C01.driver-order', nth=0),
    Mutant('subtractions-after-scaling', TJ,
           "                if self.simul_coloring is not None and self.simul_coloring._subtractions:\n                    self.simul_coloring._apply_subtractions(self.J)\n\n                self._apply_unit_scaling(self.J_dict)\n\n                # Driver scaling.\n                if self.has_scaling:\n                    self._driver._autoscaler.apply_jac_scaling(self.J_dict)\n\n", "                self._apply_unit_scaling(self.J_dict)\n\n                # Driver scaling.\n                if self.has_scaling:\n                    self._driver._autoscaler.apply_jac_scaling(self.J_dict)\n\n                if self.simul_coloring is not None and self.simul_coloring._subtractions:\n                    self.simul_coloring._apply_subtractions(self.J)\n\n", 'C01.order'),
    Mutant('helper-scales-before-subtraction', TJ, "                # substitution-method coloring: recover the remaining entries before any scaling,\n                # since the subtractions combine entries from different rows/columns.\n                if self.simul_coloring is not None and self.simul_coloring._subtractions:\n                    self.simul_coloring._apply_subtractions(self.J)\n\n                self._apply_unit_scaling(self.J_dict)\n\n                # Driver scaling.\n                if self.has_scaling:\n                    self._driver._autoscaler.apply_jac_scaling(self.J_dict)\n", "                self._finish_jac()\n", 'C01.order',
           also=[(TJ, "    def compute_totals(self, progress_out_stream=None):\n", "    def _finish_jac(self):\n        coloring = self.simul_coloring\n        jac_dict = self.J_dict\n        self._apply_unit_scaling(jac_dict)\n        if coloring is not None:\n            if coloring._subtractions:\n                coloring._apply_subtractions(self.J)\n        if self.has_scaling:\n            self._driver._autoscaler.apply_jac_scaling(jac_dict)\n\n    def compute_totals(self, progress_out_stream=None):\n")]),
    Mutant('seeds-conditional-tuple-swapped', TJ, "                            if fwd:\n                                fwd_seeds = itermeta['seed_vars']\n                                rev_seeds = None\n                            else:\n                                fwd_seeds = None\n                                rev_seeds = itermeta['seed_vars']",
           "                            sv = itermeta['seed_vars']\n"
           "                            fwd_seeds, rev_seeds = (None, sv) if fwd else (sv, None)", 'C01.loop'),
    Mutant('unit-early-return-flat-multiplies-desvar', TJ,
           "        if is_flat:\n            for (out_name, in_name), block in jac_dict.items():",
           "        if is_flat:\n            for key, block in jac_dict.items():\n                out_name, in_name = key\n"
           "                block *= self._desvar_unit_scalers.get(in_name) or 1.0\n            return\n"
           "        if is_flat:\n            for (out_name, in_name), block in jac_dict.items():", 'C01.scaling'),
    Mutant('sol2jac-indexed-slots-swapped', TJ, "        deriv_idxs, jac_idxs, _ = self.sol2jac_map[mode]\n\n        deriv_val = self.output_vec[mode].asarray()\n        if self.jac_scratch is None:\n            reduced_derivs = deriv_val[deriv_idxs]",
           "        s2j = self.sol2jac_map[mode]\n        deriv_idxs = s2j[1]\n        jac_idxs = s2j[0]\n\n"
           "        deriv_val = self.output_vec[mode].asarray()\n        if self.jac_scratch is None:\n"
           "            reduced_derivs = deriv_val[deriv_idxs]", 'C01.slots'),
    Mutant('rev-transfer-restored-fwd', GROUP, "                    vec_inputs.scale_to_phys(mode='rev')",
           "                    vec_inputs.scale_to_phys()", 'C01.transfer-scaling'),
    Mutant('apply-linear-outputs-left-scaled', 'openmdao/core/implicitcomponent.py',
           "            with self._unscaled_context(\n"
           "                    outputs=[self._outputs, d_outputs], residuals=[d_residuals]):",
           "            with self._unscaled_context(outputs=[d_outputs], residuals=[d_residuals]):", 'C01.hook-state'),
    Mutant('rhs-cache-norm-ratio', 'openmdao/solvers/linear/linear_rhs_checker.py',
           "scaler = dot_product / rhs_cache_norm**2", "scaler = rhs_norm / rhs_cache_norm", 'C01.rhs-cache'),
    Mutant('csc-factor-after-accumulate', 'openmdao/matrices/csc_matrix.py',
           "        if subjac.factor is not None:\n            data = data * subjac.factor\n", "", 'C01.unit-factor',
           also=[('openmdao/matrices/csc_matrix.py',
                  "            self._matrix.data[csc_indices] += data\n",
                  "            self._matrix.data[csc_indices] += data\n"
                  "        if subjac.factor is not None:\n"
                  "            self._matrix.data[csc_indices] *= subjac.factor\n")]),
    # ---- mode tables
    Mutant('input-vec-swapped', TJ, "self.input_vec = {'fwd': model._dresiduals, 'rev': model._doutputs}",
           "self.input_vec = {'fwd': model._doutputs, 'rev': model._dresiduals}", 'C01.mode-tables'),
    Mutant('output-vec-reads-inputs', TJ, "self.output_vec = {'fwd': model._doutputs, 'rev': model._dresiduals}",
           "self.output_vec = {'fwd': model._doutputs, 'rev': model._dinputs}", 'C01.mode-tables'),
    Mutant('output-meta-swapped', TJ, "self.output_meta = {'fwd': of_metadata, 'rev': wrt_metadata}",
           "self.output_meta = {'fwd': wrt_metadata, 'rev': of_metadata}", 'C01.mode-tables'),
    Mutant('sol2jac-from-input-meta', TJ, "self._get_sol2jac_map(self.output_meta[mode],",
           "self._get_sol2jac_map(self.input_meta[mode],", 'C01.mode-tables'),
    Mutant('in-idx-map-fixed-direction', TJ, "        for name, meta in self.input_meta[mode].items():",
           "        for name, meta in self.input_meta['fwd'].items():", 'C01.mode-tables'),
    # ---- slots
    Mutant('sol2jac-return-swapped', TJ, "        return sol_idxs, jac_idxs, name2jinds",
           "        return jac_idxs, sol_idxs, name2jinds", 'C01.slots'),
    Mutant('sol2jac-append-swapped', TJ,
           "                    inds.append(sol_inds)\n"
           "                    jac_inds.append(np.arange(jstart, jstart + sz, dtype=INT_DTYPE))",
           "                    jac_inds.append(sol_inds)\n"
           "                    inds.append(np.arange(jstart, jstart + sz, dtype=INT_DTYPE))", 'C01.slots'),
    Mutant('scatter-transposed', TJ,
           "            self.J[jac_idxs, i] = deriv_val[deriv_idxs]\n        else:  # rev\n"
           "            self.J[i, jac_idxs] = deriv_val[deriv_idxs]",
           "            self.J[i, jac_idxs] = deriv_val[deriv_idxs]\n        else:  # rev\n"
           "            self.J[jac_idxs, i] = deriv_val[deriv_idxs]", 'C01.slots'),
    Mutant('scatter-unpack-swapped', TJ,
           "        deriv_idxs, jac_idxs, _ = self.sol2jac_map[mode]\n        deriv_val = self.output_vec[mode].asarray()\n\n"
           "        if not self.get_remote:",
           "        jac_idxs, deriv_idxs, _ = self.sol2jac_map[mode]\n        deriv_val = self.output_vec[mode].asarray()\n\n"
           "        if not self.get_remote:", 'C01.slots'),
    Mutant('iterator-family-mismatch', TJ, "yield i, self.single_input_setter, self.single_jac_setter, imeta",
           "yield i, self.single_input_setter, self.directional_jac_setter, imeta", 'C01.slots'),
    Mutant('idx-map-slots-reordered', TJ, "            tup = (cache_lin_sol, name, source)",
           "            tup = (cache_lin_sol, source, name)", 'C01.slots'),
    Mutant('cache-flag-slot', TJ, "        cache_lin_sol, _, _ = self.in_idx_map[mode][idx]",
           "        _, cache_lin_sol, _ = self.in_idx_map[mode][idx]", 'C01.slots'),
    # ---- offsets
    Mutant('tuple-map-slice-before-advance', TJ,
           "            end += size\n\n            meta['jac_slice'] = slice(start, end)\n\n            start = end",
           "            meta['jac_slice'] = slice(start, end)\n\n            end += size\n\n            start = end",
           'C01.offsets'),
    Mutant('tuple-map-base-moved-early', TJ,
           "            end += size\n\n            meta['jac_slice'] = slice(start, end)\n\n            start = end",
           "            end += size\n\n            start = end\n\n            meta['jac_slice'] = slice(start, end)",
           'C01.offsets'),
    Mutant('tuple-map-base-not-advanced', TJ,
           "            meta['jac_slice'] = slice(start, end)\n\n            start = end",
           "            meta['jac_slice'] = slice(start, end)", 'C01.offsets'),
    Mutant('sol2jac-advance-guard', TJ,
           "            if self.get_remote or not vmeta['remote']:\n                jend += sz",
           "            if self.get_remote and not vmeta['remote']:\n                jend += sz", 'C01.offsets'),
    Mutant('sol2jac-off-by-one', TJ, "jac_inds.append(np.arange(jstart, jstart + sz, dtype=INT_DTYPE))",
           "jac_inds.append(np.arange(jstart, jstart + sz + 1, dtype=INT_DTYPE))", 'C01.offsets'),
    Mutant('sol2jac-advance-by-local-size', TJ, "                jend += sz\n                jstart = jend",
           "                jend += vmeta['size']\n                jstart = jend", 'C01.offsets'),
    Mutant('in-idx-map-base-not-advanced', TJ,
           "            idx_map.extend([tup] * (end - start))\n            start = end",
           "            idx_map.extend([tup] * (end - start))", 'C01.offsets'),
    Mutant('in-idx-map-advance-after-use', TJ,
           "            end += len(irange)\n\n            cache_lin_sol = meta['cache_linear_solution']",
           "            cache_lin_sol = meta['cache_linear_solution']", 'C01.offsets',
           also=[(TJ, "            tup = (cache_lin_sol, name, source)\n",
                  "            tup = (cache_lin_sol, name, source)\n            end += len(irange)\n")]),
    # ---- scaling
    Mutant('unit-flat-multiplies-desvar', TJ,
           "                if in_scaler:\n                    block *= (1.0 / in_scaler)\n        else:",
           "                if in_scaler:\n                    block *= in_scaler\n        else:", 'C01.scaling'),
    Mutant('unit-nested-skips-response', TJ,
           "                    if out_scaler:\n                        block *= out_scaler\n\n", "", 'C01.scaling'),
    Mutant('unit-both-divide-response', TJ, "block *= out_scaler", "block /= out_scaler", 'C01.scaling', nth='all'),
    Mutant('driver-flat-scales-columns', AUTOSCALER,
           "                jac_block[...] = (out_scaler * jac_block.T).T", "                jac_block *= out_scaler",
           'C01.scaling'),
    Mutant('driver-both-scale-columns', AUTOSCALER,
           "                jac_block[...] = (out_scaler * jac_block.T).T", "                jac_block *= out_scaler",
           'C01.scaling',
           also=[(AUTOSCALER, "                        block[...] = (out_scaler * block.T).T",
                  "                        block *= out_scaler")]),
    Mutant('driver-nested-multiplies-desvar', AUTOSCALER,
           "                        block *= 1.0 / in_scaler", "                        block *= in_scaler", 'C01.scaling'),
    Mutant('driver-flat-guard-coupled', AUTOSCALER,
           "            if in_scaler is not None:\n                jac_block *= 1.0 / in_scaler",
           "            if in_scaler is not None and out_scaler is not None:\n                jac_block *= 1.0 / in_scaler",
           'C01.scaling'),
    # ---- units
    Mutant('constraint-units-to-desvar-table', TJ, "                self._resp_unit_scalers[name] = scaler",
           "                self._desvar_unit_scalers[name] = scaler", 'C01.units'),
    Mutant('conversion-direction-reversed', TJ, "unit_conversion(native_units, requested_units)",
           "unit_conversion(requested_units, native_units)", 'C01.units'),
    Mutant('wrt-factor-in-response-table', TJ, "                    self._desvar_unit_scalers[vname] = scaler",
           "                    self._resp_unit_scalers[vname] = scaler", 'C01.units'),
    Mutant('functional-stores-offset', TJ, "                scaler, _ = unit_conversion(native_units, requested_units)",
           "                _, scaler = unit_conversion(native_units, requested_units)", 'C01.units'),
    # ---- cache
    Mutant('restore-overwrites-seed', TJ, "            doutputs = self.output_vec[mode]\n",
           "            doutputs = self.input_vec[mode]\n", 'C01.cache'),
    Mutant('save-reads-seed', TJ, "self.lin_sol_cache[key][:] = self.output_vec[mode].asarray()",
           "self.lin_sol_cache[key][:] = self.input_vec[mode].asarray()", 'C01.cache'),
    Mutant('save-before-solve', TJ,
           "                                        model._solve_linear(mode)\n"
           "                                        self._save_linear_solution(cache_key, mode)\n",
           "                                        self._save_linear_solution(cache_key, mode)\n"
           "                                        model._solve_linear(mode)\n", 'C01.cache'),
    Mutant('restore-with-problem-mode', TJ, "self._restore_linear_solution(cache_key, mode)",
           "self._restore_linear_solution(cache_key, self.mode)", 'C01.cache'),
    # ---- transpose
    Mutant('assembled-solve-residuals-left-scaled', DIRECT,
           "            with system._unscaled_context(outputs=[d_outputs], residuals=[d_residuals]):\n"
           "                if isinstance(system._assembled_jac._dr_do_mtx, DenseMatrix):",
           "            with system._unscaled_context(outputs=[d_outputs]):\n"
           "                if isinstance(system._assembled_jac._dr_do_mtx, DenseMatrix):", 'C01.transpose'),
    Mutant('assembled-solve-outside-context', PETSC_DIRECT,
           "            with system._unscaled_context(outputs=[d_outputs], residuals=[d_residuals]):\n"
           "                if isinstance(self._assembled_jac._dr_do_mtx, DenseMatrix):",
           "            if True:\n"
           "                if isinstance(self._assembled_jac._dr_do_mtx, DenseMatrix):", 'C01.transpose'),

    # ---- twins (behaviour preserving)
    Twin('twin-rename-ln-solver', TJ, "ln_solver", "lsolver", nth='all'),
    Twin('twin-flip-seed-branches', TJ,
         "                            if fwd:\n                                fwd_seeds = itermeta['seed_vars']\n"
         "                                rev_seeds = None\n                            else:\n"
         "                                fwd_seeds = None\n                                rev_seeds = itermeta['seed_vars']",
         "                            if not fwd:\n                                fwd_seeds = None\n"
         "                                rev_seeds = itermeta['seed_vars']\n                            else:\n"
         "                                fwd_seeds = itermeta['seed_vars']\n                                rev_seeds = None"),
    Twin('twin-zero-vecs-test-reversed', TJ, "        if mode == 'rev':\n            self.model._dinputs.set_val(0.0)",
         "        if 'fwd' != mode:\n            self.model._dinputs.set_val(0.0)"),
    Twin('twin-zero-vecs-dinputs-always', TJ, "        if mode == 'rev':\n            self.model._dinputs.set_val(0.0)",
         "        self.model._dinputs.set_val(0.0)"),
    Twin('twin-sol2jac-advance-base-first', TJ, "                jend += sz\n                jstart = jend",
         "                jstart += sz\n                jend = jstart"),
    Twin('twin-tuple-map-slice-by-difference', TJ, "            meta['jac_slice'] = slice(start, end)",
         "            meta['jac_slice'] = slice(end - size, end)"),
    Twin('twin-driver-guard-rewritten', AUTOSCALER,
         "            if out_scaler is not None:\n                jac_block[...] = (out_scaler * jac_block.T).T",
         "            if not (out_scaler is None):\n                jac_block[...] = (jac_block.T * out_scaler).T"),
    Twin('twin-unit-division', TJ, "                    block *= (1.0 / in_scaler)\n        else:",
         "                    block /= in_scaler\n        else:",
         also=[(TJ, "                        block *= (1.0 / in_scaler)", "                        block /= in_scaler")]),
    Twin('twin-scatter-branches-flipped', TJ,
         "        if mode == 'fwd':\n            self.J[jac_idxs, i] = deriv_val[deriv_idxs]\n        else:  # rev\n"
         "            self.J[i, jac_idxs] = deriv_val[deriv_idxs]",
         "        if mode != 'fwd':\n            self.J[i, jac_idxs] = deriv_val[deriv_idxs]\n        else:\n"
         "            self.J[jac_idxs, i] = deriv_val[deriv_idxs]"),
    Twin('twin-seed-vector-temporary', TJ,
         "            self.input_vec[mode].set_val(self.seeds[mode][idx], loc_idx)",
         "            seedvec = self.input_vec[mode]\n            seedvec.set_val(self.seeds[mode][idx], loc_idx)"),
    Twin('twin-context-statements-reordered', TJ,
         "        old_relevance = self.model._problem_meta['relevance']\n"
         "        old_mode = self.model._problem_meta['mode']\n",
         "        old_mode = self.model._problem_meta['mode']\n"
         "        old_relevance = self.model._problem_meta['relevance']\n",
         also=[(TJ, "            self.model._problem_meta['relevance'] = old_relevance\n"
                "            self.model._problem_meta['mode'] = old_mode",
                "            self.model._problem_meta['mode'] = old_mode\n"
                "            self.model._problem_meta['relevance'] = old_relevance")]),
    Twin('twin-conversion-keywords', TJ, "unit_conversion(native_units, requested_units)",
         "unit_conversion(new_units=requested_units, old_units=native_units)", nth='all'),
    Twin('twin-loop-resets-reordered', TJ,
         "                            self.model._problem_meta['parallel_deriv_color'] = None\n"
         "                            self.model._problem_meta['seed_vars'] = None",
         "                            self.model._problem_meta['seed_vars'] = None\n"
         "                            self.model._problem_meta['parallel_deriv_color'] = None"),
    Twin('twin-mode-alias-in-loop', TJ,
         "                            _, cache_key = input_setter(inds, itermeta, mode)",
         "                            direction = mode\n"
         "                            _, cache_key = input_setter(inds, itermeta, direction)"),
    Twin('twin-seed-vars-temporary', TJ,
         "                            model._problem_meta['seed_vars'] = itermeta['seed_vars']\n",
         "                            cur_seeds = itermeta['seed_vars']\n"
         "                            model._problem_meta['seed_vars'] = cur_seeds\n"),
    Twin('twin-unit-nested-local-renamed', TJ,
         "                out_scaler = self._resp_unit_scalers.get(out_name)\n\n"
         "                for in_name, block in in_dict.items():\n                    if out_scaler:\n"
         "                        block *= out_scaler\n",
         "                row_scaler = self._resp_unit_scalers.get(out_name)\n\n"
         "                for in_name, block in in_dict.items():\n                    if row_scaler:\n"
         "                        block *= row_scaler\n"),
    Twin('twin-combined-with', TJ,
         "                            with relevance.seeds_active(fwd_seeds=fwd_seeds, rev_seeds=rev_seeds):\n"
         "                                # restore old linear solution if cache_linear_solution was set by\n"
         "                                # the user for any input variables involved in this linear solution.\n"
         "                                with model._scaled_context_all():\n",
         "                            with relevance.seeds_active(fwd_seeds=fwd_seeds, rev_seeds=rev_seeds), \\\n"
         "                                    model._scaled_context_all():\n"
         "                                if True:\n"),
    Twin('twin-size-temporary', TJ, "            end += len(irange)\n",
         "            n_idx = len(irange)\n            end += n_idx\n"),
    Twin('twin-restore-direct', TJ,
         "            doutputs = self.output_vec[mode]\n            doutputs.set_val(lin_sol_cache[key])",
         "            self.output_vec[mode].set_val(lin_sol_cache[key])"),
    Twin('twin-rename-deriv-idxs', TJ, "deriv_idxs", "solution_idxs", nth='all'),
    Twin('twin-table-key-order', TJ, "self.input_vec = {'fwd': model._dresiduals, 'rev': model._doutputs}",
         "self.input_vec = {'rev': model._doutputs, 'fwd': model._dresiduals}"),
    Twin('twin-driver-nested-restructured', AUTOSCALER,
         "                    if out_scaler is not None:\n                        block[...] = (out_scaler * block.T).T\n"
         "                    if in_scaler is not None:\n                        block *= 1.0 / in_scaler\n",
         "                    if in_scaler is not None:\n                        block *= 1.0 / in_scaler\n"
         "                    if out_scaler is None:\n                        pass\n                    else:\n"
         "                        block[...] = (out_scaler * block.T).T\n"),
    Twin('twin-dict-j-inline-slice', TJ,
         "                out_slice = ofmeta['jac_slice']\n                for inp, wrtmeta in wrt_metadata.items():\n"
         "                    if get_remote or not wrtmeta['remote']:\n"
         "                        J_dict[out, inp] = J[out_slice, wrtmeta['jac_slice']]",
         "                for inp, wrtmeta in wrt_metadata.items():\n"
         "                    if get_remote or not wrtmeta['remote']:\n"
         "                        cols = wrtmeta['jac_slice']\n"
         "                        J_dict[out, inp] = J[ofmeta['jac_slice'], cols]"),
    Twin('twin-dict-j-keywords', TJ, "self.J_dict = self._get_dict_J(J, wrt_metadata, of_metadata, 'dict')",
         "self.J_dict = self._get_dict_J(J, of_metadata=of_metadata, wrt_metadata=wrt_metadata, return_format='dict')"),
    Twin('twin-seed-indices-via-shaped-instance', TJ, "                irange = in_idxs.shaped_array(copy=True)",
         "                irange = in_idxs.shaped_instance().as_array(copy=True)"),
    Twin('twin-seed-indices-shaped-temporary', TJ, "                irange = in_idxs.shaped_array(copy=True)",
         "                resolved = in_idxs.shaped_instance()\n"
         "                irange = resolved.as_array(copy=True)"),
    Twin('twin-sol-indices-as-array-subscript', TJ, "                        sol_inds = sol_inds[indices.flat()]",
         "                        sel = indices.as_array()\n                        sol_inds = sol_inds[sel]"),
    Twin('twin-seeds-tuple-assignment', TJ,
         "                                fwd_seeds = itermeta['seed_vars']\n                                rev_seeds = None\n"
         "                            else:\n                                fwd_seeds = None\n"
         "                                rev_seeds = itermeta['seed_vars']",
         "                                fwd_seeds, rev_seeds = itermeta['seed_vars'], None\n"
         "                            else:\n"
         "                                fwd_seeds, rev_seeds = None, itermeta['seed_vars']"),
    Twin('twin-loop-header-unpack-and-inverted-cache-guard', TJ,
         "                    for key, idx_info in self.idx_iter_dict[mode].items():\n"
         "                        imeta, idx_iter = idx_info\n",
         "                    for key, (imeta, idx_iter) in self.idx_iter_dict[mode].items():\n",
         also=[(TJ, "                                    if (cache_key is not None and not has_lin_cons and\n"
                "                                            self.mode == mode):\n"
                "                                        self._restore_linear_solution(cache_key, mode)\n"
                "                                        model._solve_linear(mode)\n"
                "                                        self._save_linear_solution(cache_key, mode)\n"
                "                                    else:\n"
                "                                        model._solve_linear(mode)\n",
                "                                    if cache_key is None or has_lin_cons or self.mode != mode:\n"
                "                                        model._solve_linear(mode)\n"
                "                                    else:\n"
                "                                        self._restore_linear_solution(cache_key, mode)\n"
                "                                        model._solve_linear(mode)\n"
                "                                        self._save_linear_solution(cache_key, mode)\n")]),
    Twin('twin-driver-order-single-test', GROUP,
         "            if list_wrt != driver_wrt:\n"
         "                wrt_src_names = [driver._designvars[n]['source'] for n in driver_wrt]\n"
         "                if list_wrt != wrt_src_names:\n                    has_custom_derivs = True\n\n"
         "        driver_ordered_nl_resp_names",
         "            src_names = [driver._designvars[dv]['source'] for dv in driver_wrt]\n"
         "            if not (list_wrt == driver_wrt or list_wrt == src_names):\n"
         "                has_custom_derivs = True\n\n"
         "        driver_ordered_nl_resp_names"),
    Twin('twin-of-sources-renamed-loop-var', GROUP,
         "            of_src_names = [driver._responses[n]['source'] for n in driver_ordered_nl_resp_names]",
         "            of_src_names = [driver._responses[rn]['source'] for rn in list(driver_ordered_nl_resp_names)]",
         nth='all'),
    Twin('twin-finish-jac-helper', TJ, "                # substitution-method coloring: recover the remaining entries before any scaling,\n                # since the subtractions combine entries from different rows/columns.\n                if self.simul_coloring is not None and self.simul_coloring._subtractions:\n                    self.simul_coloring._apply_subtractions(self.J)\n\n                self._apply_unit_scaling(self.J_dict)\n\n                # Driver scaling.\n                if self.has_scaling:\n                    self._driver._autoscaler.apply_jac_scaling(self.J_dict)\n", "                self._finish_jac()\n",
         also=[(TJ, "    def compute_totals(self, progress_out_stream=None):\n", "    def _finish_jac(self):\n        coloring = self.simul_coloring\n        if coloring is not None:\n            if coloring._subtractions:\n                coloring._apply_subtractions(self.J)\n        jac_dict = self.J_dict\n        self._apply_unit_scaling(jac_dict)\n        if self.has_scaling:\n            self._driver._autoscaler.apply_jac_scaling(jac_dict)\n\n    def compute_totals(self, progress_out_stream=None):\n")]),
    Twin('twin-seeds-conditional-tuple', TJ, "                            if fwd:\n                                fwd_seeds = itermeta['seed_vars']\n                                rev_seeds = None\n                            else:\n                                fwd_seeds = None\n                                rev_seeds = itermeta['seed_vars']",
         "                            sv = itermeta['seed_vars']\n"
         "                            fwd_seeds, rev_seeds = (sv, None) if fwd else (None, sv)"),
    Twin('twin-unit-scaling-early-return', TJ,
         "        if is_flat:\n            for (out_name, in_name), block in jac_dict.items():\n"
         "                # Apply row scaling if the output has unit scaling\n"
         "                out_scaler = self._resp_unit_scalers.get(out_name)\n"
         "                if out_scaler:\n                    block *= out_scaler\n\n"
         "                # Apply column scaling if the input has unit scaling\n"
         "                in_scaler = self._desvar_unit_scalers.get(in_name)\n"
         "                if in_scaler:\n                    block *= (1.0 / in_scaler)\n        else:\n",
         "        if is_flat:\n            for key, block in jac_dict.items():\n                out_name, in_name = key\n"
         "                out_scaler = self._resp_unit_scalers.get(out_name)\n"
         "                if out_scaler:\n                    block *= out_scaler\n"
         "                in_scaler = self._desvar_unit_scalers.get(in_name)\n"
         "                if in_scaler:\n                    block *= (1.0 / in_scaler)\n            return\n        if True:\n"),
    Twin('twin-sol2jac-indexed', TJ, "        deriv_idxs, jac_idxs, _ = self.sol2jac_map[mode]\n\n        deriv_val = self.output_vec[mode].asarray()\n        if self.jac_scratch is None:\n            reduced_derivs = deriv_val[deriv_idxs]",
         "        s2j = self.sol2jac_map[mode]\n        deriv_idxs = s2j[0]\n        jac_idxs = s2j[1]\n\n"
         "        deriv_val = self.output_vec[mode].asarray()\n        if self.jac_scratch is None:\n"
         "            reduced_derivs = deriv_val[deriv_idxs]"),
    Twin('twin-scalings-commuted', TJ, "                self._apply_unit_scaling(self.J_dict)\n\n                # Driver scaling.\n                if self.has_scaling:\n                    self._driver._autoscaler.apply_jac_scaling(self.J_dict)\n\n",
         "                # Driver scaling.\n                if self.has_scaling:\n"
         "                    self._driver._autoscaler.apply_jac_scaling(self.J_dict)\n\n"
         "                self._apply_unit_scaling(self.J_dict)\n\n"),
    Twin('twin-transfer-mode-positional', GROUP, "                    vec_inputs.scale_to_phys(mode='rev')",
         "                    vec_inputs.scale_to_phys('rev')",
         also=[(GROUP, "                    vec_inputs.scale_to_norm(mode='rev')",
                "                    vec_inputs.scale_to_norm('rev')")]),
    Twin('twin-apply-linear-context-reordered', 'openmdao/core/implicitcomponent.py',
         "            with self._unscaled_context(\n"
         "                    outputs=[self._outputs, d_outputs], residuals=[d_residuals]):",
         "            with self._unscaled_context(residuals=[d_residuals],\n"
         "                                        outputs=[d_outputs, self._outputs]):"),
    Twin('twin-rhs-cache-scale-rewritten', 'openmdao/solvers/linear/linear_rhs_checker.py',
         "scaler = dot_product / rhs_cache_norm**2", "scaler = dot_product / (rhs_cache_norm * rhs_cache_norm)"),
    Twin('twin-solve-in-physical-vector-names', DIRECT,
         "            with system._unscaled_context(outputs=[d_outputs], residuals=[d_residuals]):\n"
         "                if isinstance(system._assembled_jac._dr_do_mtx, DenseMatrix):",
         "            with system._unscaled_context(residuals=[system._dresiduals], outputs=[system._doutputs]):\n"
         "                if isinstance(system._assembled_jac._dr_do_mtx, DenseMatrix):"),
)
