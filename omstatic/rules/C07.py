"""C07 -- set_val / get_val round trip through promotion, indices and units.

The round trip is carried by a handful of small, mirrored pieces of code in core/conn_graph.py
(convert_set/convert_get, set_subarray/get_subarray, set_val/get_val_from_src), the two index
primitives Indexer.indexed_val/indexed_val_set, the argument hand-over Problem -> System ->
AllConnGraph, and the phase switch (node metadata before final_setup, root vectors afterwards, copied
once by Group.set_initial_values).  Each rule below decides one necessary structural clause of the
round trip from the AST; nothing is imported or run.
"""
import ast
import itertools

from .. import astx, cfg as cfgm
from ..core import AnalysisError
from ..engine import rule, describe, selftest, Mutant, Twin

CG = 'openmdao/core/conn_graph.py'
SYS = 'openmdao/core/system.py'
PROB = 'openmdao/core/problem.py'
GRP = 'openmdao/core/group.py'
IDX = 'openmdao/utils/indexer.py'

describe('C07',
         'Decides structural necessary conditions of set_val -> get_val == v: (units) convert_get and '
         'convert_set are evaluated exhaustively over {None,A,B,C}^3 for (units, node units, source units) '
         'and must be mirror images (conv(a->b) vs conv(b->a), identity vs identity) using (val+offset)*factor '
         'with the (factor, offset) protocol of unit_conversion; (slots) every hand-over of name/val/units/'
         'indices from Problem through System to AllConnGraph and into convert_get/convert_set lands in the '
         'parameter of the same role (source units <- root node, target units <- addressed node); (value) what '
         'set_val stores is the converted value; (order) src_indices are applied before user indices on both '
         'sides and sub-arrays are composed left to right; (writeback) set_subarray builds the view/copy chain, '
         'writes the innermost element and propagates copies back from the innermost to the outermost level '
         'with matching (index, parent, child) triples; (store) Indexer.indexed_val_set writes exactly the '
         'positions Indexer.indexed_val reads, through a real view of the array; (phase) get and set select '
         'the same store (vector iff has_vectors, node metadata otherwise, same source key) and '
         'Group.set_initial_values carries node values into the output vector.  Does not decide numerical '
         'index arithmetic, MPI/distributed branches, discrete variables or error messages.',
         ['unit_conversion returns (factor, offset) and a value converts as (val + offset) * factor (C06.proto)',
          'Indexer objects are always truthy (no __bool__/__len__)',
          'AllConnGraph.find_node/get_root are opaque and deterministic'])

UNK = '?'


# --------------------------------------------------------------------------- symbolic tags
class Tagger:
    """Resolve expressions of one function to small symbolic tags through reaching definitions."""

    # call name -> index of the argument the call passes through unchanged (for our purposes)
    IDENT = {'indexer': 0, 'list': 0, 'tuple': 0, 'inds_into_local_distrib': 3}

    def __init__(self, fn, subst=None):
        self.fn = fn
        self.g = cfgm.build(fn)
        self.rd = cfgm.ReachingDefs(self.g)
        a = fn.node.args
        self.params = [x.arg for x in a.posonlyargs + a.args + a.kwonlyargs]
        # parameter name -> tags of the caller's argument (an extracted helper followed from its call site)
        self.subst = dict(subst or {})

    def at(self, expr):
        """CFG node at which *expr* is evaluated."""
        st = astx.stmt_of(expr)
        while st is not None:
            ns = self.g.nodes_of(st)
            if ns:
                return ns[0]
            st = astx.stmt_of(getattr(st, '_parent', None))
        raise AnalysisError(f'{self.fn.ident}: no CFG node for `{astx.src(expr)}`')

    def tags(self, e, at=None, depth=0):
        if at is None:
            at = self.at(e)
        if depth > 14:
            return {UNK}
        if isinstance(e, ast.Constant):
            return {'None'} if e.value is None else {f'const:{e.value!r}'}
        if isinstance(e, (ast.Tuple, ast.List)):
            if not e.elts:
                return {'empty'}
            if any(isinstance(x, ast.Starred) for x in e.elts):
                # [*a, b]  ==  list(a) + [b]
                out = None
                for x in e.elts:
                    part = self.tags(x.value, at, depth + 1) if isinstance(x, ast.Starred) else \
                        {f'list({t})' for t in self.tags(x, at, depth + 1)}
                    out = part if out is None else {f'cat({l},{r})' for l in out for r in part}
                return out
            parts = [self.tags(x, at, depth + 1) for x in e.elts]
            return {'list(' + ','.join(c) + ')' for c in itertools.islice(itertools.product(*parts), 64)}
        if isinstance(e, ast.Name):
            ds = self.rd.defs(at, e.id)
            if not ds:
                return {f'global:{e.id}'}
            out = set()
            for d in ds:
                if d is self.g.entry:
                    if e.id in self.subst:
                        out |= set(self.subst[e.id])
                    else:
                        out.add(f'param:{e.id}')
                elif d.kind == 'stmt' and isinstance(d.ast, ast.Assign) and len(d.ast.targets) == 1 and \
                        isinstance(d.ast.targets[0], ast.Name) and d.ast.targets[0].id == e.id:
                    out |= self.tags(d.ast.value, d, depth + 1)
                elif d.kind == 'iter' and isinstance(d.ast.target, ast.Name) and d.ast.target.id == e.id:
                    out |= {f'elem({t})' for t in self.tags(d.ast.iter, d, depth + 1)}
                else:
                    out.add(UNK)
            return out
        if isinstance(e, ast.Attribute):
            out = set()
            for t in self.tags(e.value, at, depth + 1):
                if e.attr == 'nodes' and t in ('param:self', 'get_conn_graph()'):
                    out.add('nodes')
                else:
                    out.add(f'{t}.{e.attr}')
            return out
        if isinstance(e, ast.Subscript):
            base = self.tags(e.value, at, depth + 1)
            if isinstance(e.slice, ast.Constant):
                c = e.slice.value
                out = set()
                for t in base:
                    if c == 'attrs' and t.startswith('nodes[') and t.endswith(']'):
                        out.add(f'meta({t[6:-1]})')
                    else:
                        out.add(f'{t}[{c!r}]')
                return out
            if isinstance(e.slice, ast.Slice):
                s = e.slice
                if s.lower is None and s.upper is None and s.step is None:
                    return {f'{t}[:]' for t in base}
                return {f'{t}[{astx.dump(s)}]' for t in base}
            keys = self.tags(e.slice, at, depth + 1)
            return {f'{t}[{k}]' for t in base for k in keys}
        if isinstance(e, ast.Call):
            if any(isinstance(a, ast.Starred) for a in e.args) or any(k.arg is None for k in e.keywords):
                return {UNK}
            nm = astx.callee_attr(e)
            if nm in self.IDENT and len(e.args) > self.IDENT[nm]:
                return self.tags(e.args[self.IDENT[nm]], at, depth + 1)
            args = [self.tags(a, at, depth + 1) for a in e.args]
            kws = [(k.arg, self.tags(k.value, at, depth + 1)) for k in e.keywords]
            if nm is None:
                heads = {f'{t}' for t in self.tags(e.func, at, depth + 1)}
            else:
                recv = astx.receiver(e)
                if recv is None or astx.path(recv) == 'self':
                    heads = {nm}
                else:
                    heads = {f'{t}.{nm}' for t in self.tags(recv, at, depth + 1)}
            out = set()
            for h in heads:
                for combo in itertools.islice(itertools.product(*args, *[v for _, v in kws]), 64):
                    pos = list(combo[:len(args)])
                    kw = [f'{k}={v}' for (k, _), v in zip(kws, combo[len(args):])]
                    out.add(f'{h}(' + ','.join(pos + kw) + ')')
            return out
        if isinstance(e, ast.BinOp) and isinstance(e.op, ast.Add):
            return {f'cat({l},{r})' for l in self.tags(e.left, at, depth + 1)
                    for r in self.tags(e.right, at, depth + 1)}
        if isinstance(e, ast.UnaryOp) and isinstance(e.op, ast.Not):
            return {f'not({t})' for t in self.tags(e.operand, at, depth + 1)}
        if isinstance(e, ast.IfExp):
            return self.tags(e.body, at, depth + 1) | self.tags(e.orelse, at, depth + 1)
        return {UNK}


NODE = 'find_node(param:system.pathname,param:name)'
ROOT = f'get_root({NODE})'
MODEL = "param:system._problem_meta['model_ref']()"


def meta(x):
    return f'meta({x})'


def polarity(test, atom):
    """True if test is the atom, False if it is `not atom`, None if neither (atom: expr -> bool)."""
    if atom(test):
        return True
    if isinstance(test, ast.UnaryOp) and isinstance(test.op, ast.Not):
        p = polarity(test.operand, atom)
        return None if p is None else not p
    return None


def bind(call, callee):
    """Map parameter names of *callee* (a Func; self dropped) to the argument expressions of *call*."""
    a = callee.node.args
    params = [x.arg for x in a.posonlyargs + a.args]
    if params and params[0] in ('self', 'cls'):
        params = params[1:]
    kwonly = [x.arg for x in a.kwonlyargs]
    if any(isinstance(x, ast.Starred) for x in call.args) or any(k.arg is None for k in call.keywords):
        return None
    m = {}
    for i, x in enumerate(call.args):
        if i >= len(params):
            return None
        m[params[i]] = x
    for k in call.keywords:
        if k.arg in m or (k.arg not in params and k.arg not in kwonly and a.kwarg is None):
            return None
        m[k.arg] = k.value
    return m


def calls_named(fn, name):
    out = [c for st in astx.walk_stmts(fn.node.body) for c in _stmt_calls(st) if astx.callee_attr(c) == name]
    seen, uniq = set(), []
    for c in out:
        if id(c) not in seen:
            seen.add(id(c))
            uniq.append(c)
    return sorted(uniq, key=lambda c: (c.lineno, c.col_offset))


def _stmt_calls(st):
    """Calls evaluated by the statement itself (headers of compound statements, not their bodies)."""
    if isinstance(st, (ast.If, ast.While)):
        return astx.calls(st.test)
    if isinstance(st, (ast.For, ast.AsyncFor)):
        return astx.calls(st.iter)
    if isinstance(st, (ast.With, ast.AsyncWith)):
        return [c for it in st.items for c in astx.calls(it.context_expr)]
    if isinstance(st, (ast.Try, ast.FunctionDef, ast.AsyncFunctionDef, ast.ClassDef, ast.Match)):
        return []
    return astx.calls(st)


# --------------------------------------------------------------------------- C07.units
class _Unknown(Exception):
    def __init__(self, node, why):
        Exception.__init__(self, why)
        self.node, self.why = node, why


DOM = (None, 'A', 'B', 'C')
_UNITVARS = ('units', 'tgt_units', 'src_units')
_ARITH = (ast.Add, ast.Sub, ast.Mult, ast.Div)


def _formula(expr, factor, offset):
    """'conv' for (x + offset) * factor (commuted forms included), 'badformula' for another arithmetic
    arrangement of one factor and one offset, else raise _Unknown."""
    def mentions(n, nm):
        return any(isinstance(w, ast.Name) and w.id == nm for w in ast.walk(n))

    def is_name(n, nm):
        return isinstance(n, ast.Name) and n.id == nm

    if isinstance(expr, ast.BinOp) and isinstance(expr.op, ast.Mult):
        for f, other in ((expr.left, expr.right), (expr.right, expr.left)):
            if is_name(f, factor) and isinstance(other, ast.BinOp) and isinstance(other.op, ast.Add):
                for o, x in ((other.left, other.right), (other.right, other.left)):
                    if is_name(o, offset) and not mentions(x, factor) and not mentions(x, offset):
                        return 'conv'
    # recognised-but-wrong: pure arithmetic tree using both names
    nf = sum(1 for w in ast.walk(expr) if is_name(w, factor))
    no = sum(1 for w in ast.walk(expr) if is_name(w, offset))

    def arith(n):
        if isinstance(n, ast.BinOp):
            return isinstance(n.op, _ARITH) and arith(n.left) and arith(n.right)
        return isinstance(n, (ast.Name, ast.Constant, ast.Attribute))
    if arith(expr) and (nf, no) in ((1, 1), (1, 0), (0, 1)):
        return 'badformula'
    raise _Unknown(expr, f'unrecognised use of the conversion tuple: {astx.src(expr)}')


class _UnitInterp:
    """Concrete interpretation of the unit logic of convert_get/convert_set for one (u, t, s) state."""

    def __init__(self, fn):
        self.fn = fn
        a = fn.node.args
        names = [x.arg for x in a.args]
        for p in _UNITVARS + ('val',):
            if p not in names:
                raise AnalysisError(f'{fn.ident}: parameter {p!r} not found')

    def outcomes(self, state):
        env = dict(state)
        res = self._run(astx.strip_doc(self.fn.node.body), env)
        outs = set()
        for o, _ in res:
            outs.add(('none',) if o is None else o)
        return outs

    # env keys: unit var names -> value; '#f', '#o' names of factor/offset; '#conv' (from, to);
    # '#applied' dict name -> 'conv'/'badformula'
    @staticmethod
    def _uvars(env):
        """Names currently holding a unit string (the three parameters and locals derived from them)."""
        return {k for k in env if not k.startswith('#')}

    def _uval(self, e, env):
        """(True, value) if e is a unit-valued expression over unit variables / None, else (False, None)."""
        if isinstance(e, ast.Name) and e.id in self._uvars(env):
            return True, env[e.id]
        if isinstance(e, ast.Constant) and e.value is None:
            return True, None
        if isinstance(e, ast.IfExp):
            c = self._evalb(e.test, env)
            if c == 'free':
                return False, None
            return self._uval(e.body if c else e.orelse, env)
        if isinstance(e, ast.BoolOp) and isinstance(e.op, ast.Or) and len(e.values) == 2:
            # `a or b` on unit strings: a if a is truthy (not None) else b
            k1, v1 = self._uval(e.values[0], env)
            k2, v2 = self._uval(e.values[1], env)
            if k1 and k2:
                return True, (v1 if v1 is not None else v2)
        return False, None

    def _tracked(self, env):
        t = self._uvars(env)
        for k in ('#f', '#o'):
            if env.get(k):
                t.add(env[k])
        return t

    def _run(self, stmts, env):
        states = [env]
        results = []
        for st in stmts:
            nxt = []
            for e in states:
                for o, e2 in self._step(st, e):
                    if o is None:
                        nxt.append(e2)
                    else:
                        results.append((o, e2))
            # dedupe
            seen, states = set(), []
            for e in nxt:
                k = repr(sorted((a, repr(b)) for a, b in e.items()))
                if k not in seen:
                    seen.add(k)
                    states.append(e)
            if not states:
                break
        return results + [(None, e) for e in states]

    def _evalb(self, t, env):
        tracked = self._tracked(env)
        if isinstance(t, ast.UnaryOp) and isinstance(t.op, ast.Not):
            v = self._evalb(t.operand, env)
            return v if v == 'free' else (not v)
        if isinstance(t, ast.BoolOp):
            vals = [self._evalb(v, env) for v in t.values]
            if 'free' in vals:
                if astx.names(t) & tracked:
                    raise _Unknown(t, f'mixed unit/non-unit condition: {astx.src(t)}')
                return 'free'
            return all(vals) if isinstance(t.op, ast.And) else any(vals)
        if isinstance(t, ast.Name) and t.id in self._uvars(env):
            return env[t.id] is not None
        if isinstance(t, ast.Compare) and len(t.ops) == 1:
            l, r, op = t.left, t.comparators[0], t.ops[0]

            def val(n):
                return self._uval(n, env)
            fo = env.get('#fo')
            if fo is not None and isinstance(op, (ast.Eq, ast.NotEq)):
                for a_, b_ in ((l, r), (r, l)):
                    if isinstance(a_, ast.Name) and isinstance(b_, ast.Constant) and \
                            isinstance(b_.value, (int, float)) and not isinstance(b_.value, bool):
                        if a_.id == env.get('#f') and b_.value == 1:
                            return fo[0] if isinstance(op, ast.Eq) else not fo[0]
                        if a_.id == env.get('#o') and b_.value == 0:
                            return fo[1] if isinstance(op, ast.Eq) else not fo[1]
            (kl, vl), (kr, vr) = val(l), val(r)
            if kl and kr:
                if isinstance(op, (ast.Is, ast.Eq)):
                    return vl == vr
                if isinstance(op, (ast.IsNot, ast.NotEq)):
                    return vl != vr
        if astx.names(t) & tracked:
            raise _Unknown(t, f'unrecognised unit condition: {astx.src(t)}')
        return 'free'

    def _step(self, st, env):
        tracked = self._tracked(env)
        if isinstance(st, ast.If):
            v = self._evalb(st.test, env)
            if v == 'free':
                return self._run(st.body, dict(env)) + self._run(st.orelse, dict(env))
            return self._run(st.body if v else st.orelse, dict(env))
        if isinstance(st, ast.Try):
            for h in st.handlers:
                if not h.body or not isinstance(h.body[-1], ast.Raise):
                    if any(astx.names(x) & tracked or astx.mentions(x, 'unit_conversion') for x in st.body):
                        raise _Unknown(st, 'exception handler around the unit logic does not re-raise')
            out = []
            for o, e in self._run(st.body, dict(env)):
                if o is not None:
                    out.append((o, e))
                    continue
                for o2, e2 in self._run(st.orelse, e):
                    if o2 is not None:
                        out.append((o2, e2))
                    else:
                        out.extend(self._run(st.finalbody, e2))
            return out
        if isinstance(st, ast.Raise):
            return [(('raise',), env)]
        if isinstance(st, ast.Return):
            v = st.value
            if v is None:
                return [(('none',), env)]
            applied = env.get('#applied', {})
            if isinstance(v, ast.Name) and v.id in applied:
                return [(self._conv(env, applied[v.id]), env)]
            f, o = env.get('#f'), env.get('#o')
            if f and (astx.names(v) & {f, o}):
                return [(self._conv(env, _formula(v, f, o)), env)]
            if astx.names(v) & self._uvars(env):
                raise _Unknown(v, f'return value depends on a unit string: {astx.src(v)}')
            return [(self._plain(env), env)]
        if isinstance(st, ast.Assign):
            env = dict(env)
            tg = st.targets[0] if len(st.targets) == 1 else None
            if isinstance(st.value, ast.Call) and astx.callee_attr(st.value) == 'unit_conversion':
                c = st.value
                if not (isinstance(tg, ast.Tuple) and len(tg.elts) == 2 and
                        all(isinstance(x, ast.Name) for x in tg.elts) and len(c.args) == 2 and not c.keywords
                        and all(self._uval(x, env)[0] for x in c.args)):
                    raise _Unknown(st, f'unrecognised unit_conversion call: {astx.src(st)}')
                env['#f'], env['#o'] = tg.elts[0].id, tg.elts[1].id
                env['#conv'] = (self._uval(c.args[0], env)[1], self._uval(c.args[1], env)[1])
                a_, b_ = env['#conv']
                if a_ is None or b_ is None:
                    return [(('raise',), env)]
                if a_ == b_:
                    env['#fo'] = (True, True)
                    return [(None, env)]
                res = []
                for fo in ((True, True), (True, False), (False, True), (False, False)):
                    e2 = dict(env)
                    e2['#fo'] = fo      # (factor == 1, offset == 0)
                    res.append((None, e2))
                return res
            if astx.mentions(st.value, 'unit_conversion'):
                raise _Unknown(st, f'unrecognised unit_conversion use: {astx.src(st)}')
            if isinstance(tg, ast.Name) and not isinstance(st.value, ast.Constant):
                ku, vu = self._uval(st.value, env)
                if ku:                      # a (new or old) local holding a unit string
                    env[tg.id] = vu
                    return [(None, env)]
            if isinstance(tg, ast.Name) and tg.id in self._uvars(env):
                ku, vu = self._uval(st.value, env)
                if not ku:
                    raise _Unknown(st, f'unrecognised assignment to a unit variable: {astx.src(st)}')
                env[tg.id] = vu
                return [(None, env)]
            f, o = env.get('#f'), env.get('#o')
            if f and (astx.names(st.value) & {f, o}):
                if not isinstance(tg, ast.Name):
                    raise _Unknown(st, f'unrecognised use of the conversion tuple: {astx.src(st)}')
                ap = dict(env.get('#applied', {}))
                ap[tg.id] = _formula(st.value, f, o)
                env['#applied'] = ap
                return [(None, env)]
            for t in astx.assigned_targets(st):
                p = astx.path(t)
                if p in tracked:
                    raise _Unknown(st, f'unrecognised assignment: {astx.src(st)}')
                if isinstance(t, ast.Name) and t.id in env.get('#applied', {}):
                    # value derived from the converted one keeps the mark only for plain copies
                    ap = dict(env['#applied'])
                    if not (isinstance(st.value, ast.Name) and st.value.id in ap):
                        del ap[t.id]
                    env['#applied'] = ap
            if isinstance(tg, ast.Name) and isinstance(st.value, ast.Name) and \
                    st.value.id in env.get('#applied', {}):
                ap = dict(env['#applied'])
                ap[tg.id] = ap[st.value.id]
                env['#applied'] = ap
            return [(None, env)]
        if isinstance(st, (ast.For, ast.While, ast.With, ast.AugAssign, ast.Match, ast.AsyncFor, ast.AsyncWith)):
            inner = list(astx.walk(st))
            if any(isinstance(n, ast.Return) for n in inner) or (astx.names(st) & tracked) or \
                    astx.mentions(st, 'unit_conversion'):
                raise _Unknown(st, f'unsupported statement in the unit logic: {astx.src(st)}')
            return [(None, env)]
        return [(None, env)]

    @staticmethod
    def _plain(env):
        """Outcome of returning the unconverted value."""
        if '#conv' in env:
            a, b = env['#conv']
            if a != b:
                if env.get('#fo') == (True, True):
                    return ('conv', a, b)       # factor 1 and offset 0: nothing to apply
                return ('skipconv', a, b, env.get('#fo'))
        return ('id',)

    @staticmethod
    def _conv(env, verdict):
        if verdict == 'badformula':
            return ('badformula',)
        a, b = env['#conv']
        if a is None or b is None:
            return ('raise',)
        if a == b:
            return ('id',)
        return ('conv', a, b)


def _fmt_state(s):
    return f"units={s['units']!r}, node units={s['tgt_units']!r}, source units={s['src_units']!r}"


@rule('C07.units', floor=2)
def units(repo, out):
    """convert_get/convert_set: mirror-image unit conversion on all 64 (units, node, source) states."""
    fg = repo.func(CG, 'AllConnGraph.convert_get')
    fs = repo.func(CG, 'AllConnGraph.convert_set')
    ig, is_ = _UnitInterp(fg), _UnitInterp(fs)
    bad = {}      # fn ident -> (fn, why, key)
    both = 0
    n = 0
    try:
        for u, t, s in itertools.product(DOM, DOM, DOM):
            state = dict(units=u, tgt_units=t, src_units=s)
            n += 1
            og, os_ = ig.outcomes(state), is_.outcomes(state)
            for fn, o in ((fg, og), (fs, os_)):
                sk = [x for x in o if x[0] == 'skipconv']
                if sk and fn.ident not in bad:
                    what = 'factor == 1' if sk[0][3][0] else 'offset == 0'
                    bad[fn.ident] = (fn, f'the conversion {sk[0][1]} -> {sk[0][2]} is skipped (value returned '
                                     f'unconverted) on a path where only {what} is known: a conversion may be '
                                     'skipped only when factor == 1 AND offset == 0 (degK <-> degC differ by an '
                                     f'offset only); state {_fmt_state(state)}', 'unit-skip')
                for x in sk:
                    o.discard(x)
                if sk and not o:
                    o.add(('badformula',))
                if ('badformula',) in o and fn.ident not in bad:
                    bad[fn.ident] = (fn, 'the conversion tuple is not applied as (val + offset) * factor with '
                                     '(factor, offset) = unit_conversion(...): set and get are no longer '
                                     f'inverse for units with an offset (state {_fmt_state(state)})', 'unit-formula')
            if len(og) != 1 or len(os_) != 1 or ('none',) in og | os_:
                raise _Unknown(fg.node, f'outcome not unique in state {_fmt_state(state)}: get={og} set={os_}')
            g1, s1 = next(iter(og)), next(iter(os_))
            if 'badformula' in (g1[0], s1[0]) or g1 == ('raise',) or s1 == ('raise',):
                continue
            ueff = u if u is not None else t
            ok = (g1 == ('id',) and s1 == ('id',)) or \
                 (g1[0] == 'conv' and s1[0] == 'conv' and g1[1:] == s1[1:][::-1])
            if g1[0] == 'conv' and s1[0] == 'conv' and ok:
                both += 1
            if not ok:
                # blame the side that deviates from source -> requested (get) / requested -> source (set)
                ref_g = ('conv', s, ueff) if (s is not None and ueff is not None and s != ueff) else None
                ref_s = ('conv', ueff, s) if ref_g else None
                blamed = []
                if ref_g is None or g1 != ref_g:
                    blamed.append(fg)
                if ref_s is None or s1 != ref_s:
                    blamed.append(fs)
                if ref_g is None:
                    blamed = [fs] if s1 != ('id',) else [fg]
                for fn in blamed or [fg, fs]:
                    if fn.ident not in bad:
                        bad[fn.ident] = (fn, f'in state {_fmt_state(state)} get_val applies {g1} but set_val '
                                         f'applies {s1}: the two are not inverse, set_val(v) followed by '
                                         'get_val returns a different number', 'unit-mirror')
    except _Unknown as u_:
        out.unsure(fg, u_.node, u_.why)
        return
    out.count('unit_states', n)
    out.count('states_converting_both_ways', both)
    if both == 0 and not bad:
        out.unsure(fg, fg.node, 'no state in which both directions convert: unit logic not recognised')
        return
    for fn in (fg, fs):
        if fn.ident in bad:
            _, why, key = bad[fn.ident]
            out.bad(fn, fn.node, why, key=key)
        else:
            out.ok(fn, fn.node, f'mirror image of its counterpart on {n} states ({both} converting both ways)')


# --------------------------------------------------------------------------- C07.slots
_P = lambda n: {f'param:{n}'}   # noqa: E731

# (caller file, caller, callee attr, occurrence, callee file, callee, {callee param: allowed tags})
SLOTS = [
    (PROB, 'Problem.set_val', 'set_val', 0, SYS, 'System.set_val',
     dict(name=_P('name'), val=_P('val'), units=_P('units'), indices=_P('indices'))),
    (SYS, 'System.set_val', 'set_val', 0, CG, 'AllConnGraph.set_val',
     dict(system=_P('self'), name=_P('name'), val=_P('val'), units=_P('units'), indices=_P('indices'))),
    (PROB, 'Problem.get_val', 'get_val', 0, SYS, 'System.get_val',
     dict(name=_P('name'), units=_P('units'), indices=_P('indices'))),
    (SYS, 'System.get_val', 'get_val', 0, CG, 'AllConnGraph.get_val',
     dict(system=_P('self'), name=_P('name'), units=_P('units'), indices=_P('indices'),
          get_remote=_P('get_remote'), rank=_P('rank'), vec_name=_P('vec_name'), kind=_P('kind'),
          flat=_P('flat'), from_src=_P('from_src'))),
    (CG, 'AllConnGraph.get_val', 'get_val_from_src', 0, CG, 'AllConnGraph.get_val_from_src',
     dict(system=_P('system'), name=_P('name'), units=_P('units'), indices=_P('indices'), flat=_P('flat'))),
    (CG, 'AllConnGraph.get_val_from_src', 'convert_get', 0, CG, 'AllConnGraph.convert_get',
     dict(node={NODE},
          src_units={meta(ROOT) + '.units', meta('param:src_node') + '.units'},
          tgt_units={meta(NODE) + '.units'},
          src_inds_list={meta(NODE) + '.src_inds_list'},
          units=_P('units'), indices=_P('indices'))),
    (CG, 'AllConnGraph.set_val', 'convert_set', 0, CG, 'AllConnGraph.convert_set',
     dict(val=_P('val'), src_units={meta(ROOT) + '.units'},
          tgt_units={'None', meta(NODE) + '.units'}, src_inds_list={'empty'}, units=_P('units'))),
]


def _self_calls_only(fn, calls, caller_qn, attr):
    """Drop recursive `self.<same method>` look-alikes: keep calls on another receiver."""
    if caller_qn.split('.')[-1] != attr:
        return calls
    return [c for c in calls if astx.path(astx.receiver(c)) != 'self']


@rule('C07.slots', floor=7)
def slots(repo, out):
    """name/val/units/indices (and unit/index roles) reach the same-role parameter at every hand-over."""
    for rel, qn, attr, occ, crel, cqn, want in SLOTS:
        fn = repo.func(rel, qn)
        callee = repo.func(crel, cqn)
        cs = _self_calls_only(fn, calls_named(fn, attr), qn, attr)
        if len(cs) <= occ:
            raise AnalysisError(f'{fn.ident}: call of {attr} #{occ} not found')
        call = cs[occ]
        b = bind(call, callee)
        if b is None:
            out.unsure(fn, call, f'cannot bind the arguments of this call to {cqn}')
            continue
        tg = Tagger(fn)
        at = tg.at(call)
        wrong, unk = [], []
        for p, allowed in want.items():
            if p not in b:
                # not passed: the callee default is used, the caller's value is dropped
                d = _default_of(callee, p)
                if d is not None and any(f'param:{p}' == a for a in allowed) and p in tg.params:
                    wrong.append(f'{p} is not passed on (callee default {d} is used)')
                elif p == 'src_inds_list' and allowed == {'empty'}:
                    continue
                else:
                    unk.append(f'{p} not passed')
                continue
            got = tg.tags(b[p], at)
            if UNK in got or any(UNK in g for g in got):
                unk.append(f'{p} <- {astx.src(b[p])} not resolved ({sorted(got)})')
            elif not got <= allowed:
                wrong.append(f'{p} receives {astx.src(b[p])} [{", ".join(sorted(got - allowed))}], '
                             f'expected {", ".join(sorted(allowed))}')
        if wrong:
            out.bad(fn, call, f'hand-over to {cqn}: ' + '; '.join(wrong), key=f'slot-{attr}')
        elif unk:
            out.unsure(fn, call, f'hand-over to {cqn}: ' + '; '.join(unk))
        else:
            out.ok(fn, call, f'{len(want)} roles reach {cqn} unchanged')
            out.count('slots', len(want))


def _default_of(callee, p):
    a = callee.node.args
    pos = a.posonlyargs + a.args
    names = [x.arg for x in pos]
    if p in names:
        i = names.index(p) - (len(pos) - len(a.defaults))
        return astx.src(a.defaults[i]) if i >= 0 else None
    for x, d in zip(a.kwonlyargs, a.kw_defaults):
        if x.arg == p and d is not None:
            return astx.src(d)
    return None


# --------------------------------------------------------------------------- C07.value
def _origins(tg, e, at, depth=0):
    """Terminal defining expressions [(expr or 'param:x', node)] of e, following plain local copies."""
    if depth > 10:
        return [(None, at)]
    if isinstance(e, ast.Name):
        out = []
        ds = tg.rd.defs(at, e.id)
        if not ds:
            return [(None, at)]
        for d in ds:
            if d is tg.g.entry:
                out.append((f'param:{e.id}', d))
            elif d.kind == 'stmt' and isinstance(d.ast, ast.Assign) and len(d.ast.targets) == 1 and \
                    isinstance(d.ast.targets[0], ast.Name):
                out.extend(_origins(tg, d.ast.value, d, depth + 1))
            else:
                out.append((None, d))
        return out
    if isinstance(e, ast.Subscript) and isinstance(e.slice, ast.Constant) and e.slice.value == 0:
        return _origins(tg, e.value, at, depth + 1)
    return [(e, at)]


def _classify_value(repo, tg, e, at):
    """Kinds of the value expression: conv-src / conv-tgt / raw / store / unknown."""
    cset = repo.func(CG, 'AllConnGraph.convert_set')
    kinds = set()
    for o, n in _origins(tg, e, at):
        if isinstance(o, str) and o.startswith('param:'):
            res = tg.subst.get(o[6:], {o})
            kinds.add('raw' if set(res) == {'param:val'} else 'unknown')
        elif isinstance(o, ast.Call) and astx.callee_attr(o) == 'convert_set':
            b = bind(o, cset)
            if b is None or not {'val', 'src_units'} <= set(b):
                kinds.add('unknown')
                continue
            v = tg.tags(b['val'], n)
            s = tg.tags(b['src_units'], n)
            u = tg.tags(b['units'], n) if 'units' in b else {'None'}
            if v != {'param:val'} or u != {'param:units'}:
                kinds.add('unknown')
            elif s == {meta(ROOT) + '.units'}:
                kinds.add('conv-src')
            elif s <= {'None', meta(NODE) + '.units'}:
                kinds.add('conv-tgt')
            else:
                kinds.add('unknown')
        elif isinstance(o, ast.Call) and astx.callee_attr(o) == '_abs_get_val':
            kinds.add('store' if o.args and tg.tags(o.args[0], n) == {ROOT + '[1]'} else 'unknown')
        elif isinstance(o, ast.Attribute) and tg.tags(o, n) == {meta(ROOT) + '.val'}:
            kinds.add('store')
        else:
            kinds.add('unknown')
    return kinds


def _in_discrete_branch(tg, node_ast):
    for a in astx.ancestors(node_ast):
        if isinstance(a, ast.If) and astx.in_body(node_ast, a, 'body'):
            try:
                t = tg.tags(a.test, tg.at(a.test))
            except AnalysisError:
                continue
            if any(x.endswith('.discrete') for x in t):
                return True
    return False


_WHY_RAW = {'raw': 'the user value is stored without unit conversion (units= is ignored, or a value given in the '
                   "input's units lands unconverted in a source with other units)",
            'conv-tgt': "the value converted to the *addressed input's* units is stored in the source, whose "
                        'units may differ',
            'conv-src': "the value converted to the *source's* units is mirrored into the input vector, which holds "
                        "the input's own units: get_val(abs_input, from_src=False) and the component see a value "
                        'off by the unit factor (the sibling branch without indices writes the input-units value)'}


@rule('C07.value', floor=7)
def value(repo, out):
    """set_val stores convert_set(val -> source units), never the raw or the input-units value."""
    sub = repo.func(CG, 'AllConnGraph.set_subarray')
    KNOWN = {'set_subarray', 'convert_set', 'convert_get', 'set_tree_val', 'find_node', 'get_root',
             'inds_into_local_distrib', 'leaf_input_iter', 'absnames', 'msgname', '_collect_error', 'get_subarray'}
    sinks = []   # (fn, tagger, call/stmt, value expr, allowed kinds, label)

    def collect(fn, tg, depth):
        for c in calls_named(fn, 'set_subarray'):
            b = bind(c, sub)
            if b is None or 'val' not in b:
                out.unsure(fn, c, 'cannot bind set_subarray arguments')
                continue
            sinks.append((fn, tg, c, b['val'], {'conv-src'}, 'set_subarray value'))
        for c in calls_named(fn, '_abs_set_val'):
            r = astx.receiver(c)
            rt = tg.tags(r, tg.at(c)) if r is not None else set()
            if len(c.args) < 2:
                continue
            if rt == {MODEL + '._outputs'}:
                sinks.append((fn, tg, c, c.args[1], {'conv-src', 'store'}, 'output vector write'))
            elif rt == {MODEL + '._inputs'}:
                if tg.tags(c.args[0], tg.at(c)) != {NODE + '[1]'}:
                    out.unsure(fn, c, 'input vector write does not address the named input itself')
                    continue
                sinks.append((fn, tg, c, c.args[1], {'conv-tgt'}, 'input vector write'))
        for c in calls_named(fn, 'set_tree_val'):
            if _in_discrete_branch(tg, astx.stmt_of(c)):
                continue
            if len(c.args) >= 3:
                sinks.append((fn, tg, c, c.args[2], {'conv-src', 'store'}, 'metadata tree write'))
        for st in astx.walk_stmts(fn.node.body):
            if isinstance(st, ast.Assign) and len(st.targets) == 1 and isinstance(st.targets[0], ast.Attribute) \
                    and st.targets[0].attr == 'val':
                if tg.tags(st.targets[0].value, tg.at(st)) == {meta(ROOT)}:
                    sinks.append((fn, tg, st, st.value, {'conv-src'}, 'source metadata write'))
        # extracted helpers: follow `self.<method>(...)` into methods of the same class that store something
        if depth >= 2:
            return
        for st in astx.walk_stmts(fn.node.body):
            for c in _stmt_calls(st):
                nm = astx.callee_attr(c)
                if astx.path(astx.receiver(c)) != 'self' or nm in KNOWN or nm is None:
                    continue
                h = repo.try_func(CG, f'AllConnGraph.{nm}')
                if h is None or h.node is fn.node:
                    continue
                if not any(astx.callee_attr(x) in ('_abs_set_val', 'set_subarray', 'set_tree_val')
                           for x in astx.calls(h.node)):
                    continue
                if _in_discrete_branch(tg, astx.stmt_of(c)):
                    continue
                b = bind(c, h)
                if b is None:
                    out.unsure(fn, c, f'cannot bind the arguments of helper {nm}')
                    continue
                at = tg.at(c)
                collect(h, Tagger(h, {p_: tg.tags(e_, at) for p_, e_ in b.items()}), depth + 1)

    root = repo.func(CG, 'AllConnGraph.set_val')
    collect(root, Tagger(root), 0)
    for fn, tg, where, v, allowed, label in sinks:
        kinds = _classify_value(repo, tg, v, tg.at(where))
        wrong = kinds & ({'raw', 'conv-src'} if 'conv-tgt' in allowed else {'raw', 'conv-tgt'})
        if wrong:
            k = sorted(wrong)[0]
            out.bad(fn, where, f'{label} `{astx.src(v)}`: {_WHY_RAW[k]}', key=f'unconverted-{label.split()[0]}')
        elif 'unknown' in kinds or not kinds <= allowed:
            out.unsure(fn, where, f'{label} `{astx.src(v)}` not resolved to convert_set/store ({sorted(kinds)})')
        else:
            out.ok(fn, where, f'{label} is {sorted(kinds)}')


# --------------------------------------------------------------------------- C07.order
def _indices_polarity(test):
    """True if `test` holds exactly when the user passed indices, False for the opposite, else None."""
    def atom(t):
        if isinstance(t, ast.Name) and t.id == 'indices':
            return True
        return isinstance(t, ast.Compare) and len(t.ops) == 1 and isinstance(t.ops[0], ast.IsNot) and \
            isinstance(t.left, ast.Name) and t.left.id == 'indices' and \
            isinstance(t.comparators[0], ast.Constant) and t.comparators[0].value is None

    def natom(t):
        return isinstance(t, ast.Compare) and len(t.ops) == 1 and isinstance(t.ops[0], ast.Is) and \
            isinstance(t.left, ast.Name) and t.left.id == 'indices' and \
            isinstance(t.comparators[0], ast.Constant) and t.comparators[0].value is None
    p = polarity(test, atom)
    if p is not None:
        return p
    p = polarity(test, natom)
    return None if p is None else not p


def _check_compose_loop(fn, out, tg, param, what):
    """`for idx in <param>: acc = idx.indexed_val(acc)` style left-to-right composition. Returns loop."""
    loops = [st for st in astx.walk_stmts(fn.node.body) if isinstance(st, ast.For) and
             any(astx.callee_attr(c) == 'indexed_val' for s in st.body for c in astx.calls(s))]
    if len(loops) != 1:
        raise AnalysisError(f'{fn.ident}: expected one composition loop calling indexed_val, found {len(loops)}')
    lp = loops[0]
    it = tg.tags(lp.iter, tg.at(lp.iter))
    if it != {f'param:{param}'}:
        if any(t.startswith('reversed(') or '[Slice(' in t for t in it):
            out.bad(fn, lp, f'{what}: the index list is traversed in reverse: nested src_indices/indices are '
                    'applied innermost first', key='compose-direction')
        else:
            out.unsure(fn, lp, f'{what}: loop does not iterate the index list parameter ({sorted(it)})')
        return None
    return lp


@rule('C07.order', floor=5)
def order(repo, out):
    """src_indices first, user indices last, composed left to right -- in get and in set alike."""
    # (a) convert_get
    fn = repo.func(CG, 'AllConnGraph.convert_get')
    tg = Tagger(fn)
    g = tg.g
    a_nodes, b_nodes = [], []
    for c in calls_named(fn, 'get_subarray'):
        if len(c.args) < 2:
            out.unsure(fn, c, 'get_subarray call shape not recognised')
            continue
        t = tg.tags(c.args[1], tg.at(c))
        n = tg.at(c)
        st = astx.stmt_of(c)
        acc_ok = isinstance(st, ast.Assign) and len(st.targets) == 1 and isinstance(st.targets[0], ast.Name) \
            and isinstance(c.args[0], ast.Name) and c.args[0].id == st.targets[0].id
        if not acc_ok:
            out.unsure(fn, c, 'sub-array result is not accumulated into the same local')
            continue
        if t == {'param:src_inds_list'}:
            a_nodes.append(n)
        elif t == {'list(param:indices)'}:
            b_nodes.append(n)
        else:
            out.unsure(fn, c, f'index argument not recognised ({sorted(t)})')
    if not a_nodes or not b_nodes:
        raise AnalysisError(f'{fn.ident}: src_indices / indices sub-array steps not found')
    w = g.path([m for b in b_nodes for m in g.normal_succ(b)], a_nodes, labels=cfgm.noexc)
    if w is not None:
        out.bad(fn, b_nodes[0].ast, 'user indices are applied before the src_indices of the promoted input: '
                'get_val(name, indices=i) addresses different entries than set_val(name, v, indices=i): '
                + g.fmt_path(w), key='get-index-order')
    else:
        out.ok(fn, b_nodes[0].ast, 'src_inds_list is applied before [indices]')

    # (a2) the value is brought to the addressed variable's shape before user indices are applied
    node_shapes = {meta('param:node') + '.shape', meta('param:node') + '.global_shape'}

    def is_reshape(n):
        if n.kind != 'stmt' or not isinstance(n.ast, ast.Assign) or len(n.ast.targets) != 1:
            return False
        t, v = n.ast.targets[0], n.ast.value
        if not (isinstance(t, ast.Name) and isinstance(v, ast.Call) and astx.callee_attr(v) == 'reshape'):
            return False
        shp = v.args[-1] if v.args else None
        src_ok = (isinstance(astx.receiver(v), ast.Name) and astx.receiver(v).id == t.id) or \
            (len(v.args) == 2 and isinstance(v.args[0], ast.Name) and v.args[0].id == t.id)
        return shp is not None and src_ok and tg.tags(shp, n) <= node_shapes
    R = g.where(is_reshape)

    def is_discrete(t):
        return isinstance(t, ast.Attribute) and t.attr == 'discrete' and \
            tg.tags(t.value, tg.at(t)) == {meta('param:node')}
    dtests = [n for n in g.where(lambda n: n.kind == 'test') if polarity(n.ast.test, is_discrete) is not None]

    def shapes_equal_label(test, at):
        """Edge label on which `value shape == node shape` is known, or None."""
        neg = False
        while isinstance(test, ast.UnaryOp) and isinstance(test.op, ast.Not):
            neg, test = not neg, test.operand
        if not (isinstance(test, ast.Compare) and len(test.ops) == 1 and
                isinstance(test.ops[0], (ast.Eq, ast.NotEq))):
            return None
        sides = [test.left, test.comparators[0]]
        hit = False
        for a_, b_ in (sides, sides[::-1]):
            inner = a_.args[0] if isinstance(a_, ast.Call) and astx.callee_attr(a_) == 'tuple' and \
                len(a_.args) == 1 else a_
            is_val = (isinstance(b_, ast.Attribute) and b_.attr == 'shape' and isinstance(b_.value, ast.Name)) \
                or (isinstance(b_, ast.Call) and astx.callee_attr(b_) == 'shape' and len(b_.args) == 1)
            if is_val and isinstance(inner, ast.Attribute) and tg.tags(inner, at) <= node_shapes:
                hit = True
        if not hit:
            return None
        eq_when_true = isinstance(test.ops[0], ast.Eq) != neg
        return 'true' if eq_when_true else 'false'

    def edge_ok(n, m, lab):
        if n.kind == 'test' and lab in ('true', 'false'):
            return shapes_equal_label(n.ast.test, n) != lab
        return True
    if len(dtests) != 1:
        out.unsure(fn, fn.node, 'branch on node_meta.discrete not found')
    else:
        dt = dtests[0]
        lab = 'false' if polarity(dt.ast.test, is_discrete) else 'true'
        starts = [m for m, l in g.succ[dt] if l == lab]
        w = g.path(starts, b_nodes + [g.exit], avoid=R, labels=cfgm.noexc, edge_ok=edge_ok)
        if not R:
            out.bad(fn, dt.ast, 'the source value is never reshaped to the shape of the addressed variable: '
                    'get_val returns the source layout and user indices address other entries than in set_val',
                    key='get-reshape')
        elif w is None:
            out.ok(fn, R[0].ast, 'value has the shape of the addressed variable before user indices are applied')
        else:
            vocab = {'get_remote', 'src_inds_list', 'val', 'node_meta', 'len', 'np', 'tuple', 'indices'}
            tests = [n for n in w if n.kind == 'test' and n is not dt]
            if all(astx.names(n.ast.test) <= vocab for n in tests):
                guards = [n for n in tests if any(astx.in_body(r.ast, n.ast, 'body') or
                                                  astx.in_body(r.ast, n.ast, 'orelse') for r in R)]
                out.bad(fn, ((guards or tests)[-1].ast if tests else dt.ast),
                        'a continuous value can reach the user-index step / the return without being reshaped to '
                        'the shape of the addressed variable (equal rank or size does not imply equal shape: a '
                        '(1,3) source feeding a (3,1) input): get_val returns another shape than set_val accepted '
                        'and indices address other entries: ' + g.fmt_path(w), key='get-reshape')
            else:
                out.unsure(fn, tests[-1].ast, 'guard around the reshape not recognised: ' + g.fmt_path(w))

    # (b) set_val: index list handed to set_subarray
    fn = repo.func(CG, 'AllConnGraph.set_val')
    sub = repo.func(CG, 'AllConnGraph.set_subarray')
    tg = Tagger(fn)
    T = {'empty', meta(NODE) + '.src_inds_list'}
    plain = set(T)
    cat = {f'cat({t},list(param:indices))' for t in T}
    rev = {f'cat(list(param:indices),{t})' for t in T}
    for c in calls_named(fn, 'set_subarray'):
        b = bind(c, sub)
        if b is None or 'indices_list' not in b:
            out.unsure(fn, c, 'cannot bind set_subarray arguments')
            continue
        e = b['indices_list']
        got = tg.tags(e, tg.at(c))
        if got & rev:
            out.bad(fn, c, f'index list `{astx.src(e)}` puts the user indices before the src_indices of the '
                    'addressed input (get_val applies src_indices first)', key='set-index-order')
            continue
        if not got <= plain | cat or not (got & cat):
            out.unsure(fn, c, f'index list not recognised ({sorted(got)})')
            continue
        # gating: the list with [indices] is used exactly when indices were given
        verdict = 'ok'
        if isinstance(e, ast.Name):
            for d in tg.rd.defs(tg.at(c), e.id):
                if d.kind != 'stmt' or not isinstance(d.ast, ast.Assign):
                    verdict = 'unsure'
                    continue
                dv = d.ast.value
                if isinstance(dv, ast.Call) and astx.callee_attr(dv) in Tagger.IDENT and \
                        len(dv.args) > Tagger.IDENT[astx.callee_attr(dv)] and \
                        isinstance(dv.args[Tagger.IDENT[astx.callee_attr(dv)]], ast.Name) and \
                        dv.args[Tagger.IDENT[astx.callee_attr(dv)]].id == e.id:
                    continue        # pass-through rewrite of the same list (distributed offsets)
                has_idx = any('list(param:indices)' in t for t in tg.tags(d.ast.value, d))
                gate = None
                for anc in astx.ancestors(d.ast):
                    if isinstance(anc, ast.If):
                        p = _indices_polarity(anc.test)
                        if p is not None:
                            gate = p if astx.in_body(d.ast, anc, 'body') else not p
                            break
                if gate is None:
                    verdict = 'unsure' if verdict == 'ok' else verdict
                elif gate != has_idx:
                    verdict = 'bad'
        if verdict == 'bad':
            out.bad(fn, c, 'the index list that ends with the user indices is selected when no indices were '
                    'given (and vice versa)', key='set-index-gate')
        elif verdict == 'unsure':
            out.unsure(fn, c, 'guard selecting the index list not recognised')
        else:
            out.ok(fn, c, 'index list is src_inds_list (+ [indices] iff indices given)')

    # (c) get_subarray composes left to right
    fn = repo.func(CG, 'AllConnGraph.get_subarray')
    tg = Tagger(fn)
    lp = _check_compose_loop(fn, out, tg, 'indices_list', 'get_subarray')
    if lp is not None:
        ok = False
        for st in lp.body:
            if isinstance(st, ast.Assign) and len(st.targets) == 1 and isinstance(st.targets[0], ast.Name) and \
                    isinstance(st.value, ast.Call) and astx.callee_attr(st.value) == 'indexed_val' and \
                    len(st.value.args) == 1:
                acc = st.targets[0].id
                arg = st.value.args[0]
                recv = tg.tags(astx.receiver(st.value), tg.at(st))
                if recv != {'elem(param:indices_list)'}:
                    out.unsure(fn, st, f'receiver of indexed_val is not the loop element ({sorted(recv)})')
                    ok = None
                elif isinstance(arg, ast.Name) and arg.id == acc:
                    rets = [r for r in astx.walk_stmts(fn.node.body) if isinstance(r, ast.Return)]
                    if all(isinstance(r.value, ast.Name) and r.value.id == acc for r in rets) and rets:
                        ok = True
                    else:
                        out.unsure(fn, st, 'accumulated sub-array is not what is returned')
                        ok = None
                else:
                    out.bad(fn, st, f'every index is applied to `{astx.src(arg)}` instead of the result of the '
                            'previous one: only the last index of a src_indices chain takes effect',
                            key='compose-accumulate')
                    ok = None
        if ok:
            out.ok(fn, lp, 'indices composed left to right on the accumulated sub-array')
        elif ok is False:
            out.unsure(fn, lp, 'composition statement not recognised')


# --------------------------------------------------------------------------- C07.writeback
def _int_expr(e, env):
    """Evaluate a small integer expression (constants, len(x) via env, + and -). None if unknown."""
    if isinstance(e, ast.Constant) and isinstance(e.value, int) and not isinstance(e.value, bool):
        return e.value
    if isinstance(e, ast.UnaryOp) and isinstance(e.op, ast.USub):
        v = _int_expr(e.operand, env)
        return None if v is None else -v
    if isinstance(e, ast.BinOp) and isinstance(e.op, (ast.Add, ast.Sub)):
        l, r = _int_expr(e.left, env), _int_expr(e.right, env)
        if l is None or r is None:
            return None
        return l + r if isinstance(e.op, ast.Add) else l - r
    if isinstance(e, ast.Call) and astx.callee_attr(e) == 'len' and len(e.args) == 1 and \
            isinstance(e.args[0], ast.Name):
        return env.get(('len', e.args[0].id))
    if isinstance(e, ast.Name):
        return env.get(e.id)
    return None


def _iter_values(e, env):
    """Concrete list of values of range(...)/reversed(range(...)) under env, or None."""
    if isinstance(e, ast.Call) and astx.callee_attr(e) == 'reversed' and len(e.args) == 1:
        v = _iter_values(e.args[0], env)
        return None if v is None else v[::-1]
    if isinstance(e, ast.Call) and astx.callee_attr(e) == 'range' and 1 <= len(e.args) <= 3 and not e.keywords:
        vals = [_int_expr(a, env) for a in e.args]
        if any(v is None for v in vals) or (len(vals) == 3 and vals[2] == 0):
            return None
        return list(range(*vals))
    return None


def _elem_of(tg, e, at, loopvar, depth=0):
    """(container param/local name, offset) if e denotes <container>[loopvar + offset]; resolves locals."""
    if depth > 4:
        return None
    if isinstance(e, ast.Name):
        ds = tg.rd.defs(at, e.id)
        if len(ds) != 1:
            return None
        d = next(iter(ds))
        v = tg.rd.value(at, e.id)
        if v is None and d.kind == 'stmt' and isinstance(d.ast, ast.Assign) and len(d.ast.targets) == 1 and \
                isinstance(d.ast.targets[0], (ast.Tuple, ast.List)) and \
                isinstance(d.ast.value, (ast.Tuple, ast.List)) and \
                len(d.ast.targets[0].elts) == len(d.ast.value.elts) and \
                not any(isinstance(x, ast.Starred) for x in d.ast.targets[0].elts + d.ast.value.elts):
            # a, b = x, y   (parallel assignment: position-wise)
            for t_, v_ in zip(d.ast.targets[0].elts, d.ast.value.elts):
                if isinstance(t_, ast.Name) and t_.id == e.id:
                    v = v_
        if v is None:
            return None
        return _elem_of(tg, v, d, loopvar, depth + 1)
    if isinstance(e, ast.Subscript) and isinstance(e.value, ast.Name):
        off = _int_expr(e.slice, {loopvar: 0})
        if off is None or loopvar not in astx.names(e.slice):
            return None
        return e.value.id, off
    return None


@rule('C07.writeback', floor=5)
def writeback(repo, out):
    """set_subarray: chain of sub-arrays, innermost write, copies propagated back innermost -> outermost."""
    fn = repo.func(CG, 'AllConnGraph.set_subarray')
    a = [x.arg for x in fn.node.args.args]
    if a[:1] == ['self']:
        a = a[1:]
    if len(a) < 3:
        raise AnalysisError(f'{fn.ident}: signature changed')
    p_arr, p_inds, p_val = a[0], a[1], a[2]
    tg = Tagger(fn)
    g = tg.g
    stmts = list(astx.walk_stmts(fn.node.body))

    # 1. chain = [arr]
    chains = [st for st in stmts if isinstance(st, ast.Assign) and len(st.targets) == 1 and
              isinstance(st.targets[0], ast.Name) and isinstance(st.value, ast.List) and
              len(st.value.elts) == 1 and isinstance(st.value.elts[0], ast.Name) and
              st.value.elts[0].id == p_arr]
    if len(chains) != 1:
        raise AnalysisError(f'{fn.ident}: chain initialisation `[{p_arr}]` not found')
    chain = chains[0].targets[0].id

    # 2. forward loop
    lp = _check_compose_loop(fn, out, tg, p_inds, 'set_subarray')
    if lp is not None:
        apps = [c for s in lp.body for c in astx.calls(s) if astx.callee_attr(c) == 'append'
                and astx.path(astx.receiver(c)) == chain]
        good = None
        for c in apps:
            if len(c.args) == 1 and isinstance(c.args[0], ast.Call) and \
                    astx.callee_attr(c.args[0]) == 'indexed_val' and len(c.args[0].args) == 1:
                inner = c.args[0]
                recv = tg.tags(astx.receiver(inner), tg.at(c))
                arg = inner.args[0]
                last = isinstance(arg, ast.Subscript) and astx.path(arg.value) == chain and \
                    _int_expr(arg.slice, {}) == -1
                if recv != {f'elem(param:{p_inds})'}:
                    out.unsure(fn, c, 'receiver of indexed_val is not the loop element')
                    good = False
                elif last:
                    good = True
                else:
                    out.bad(fn, c, f'each index is applied to `{astx.src(arg)}` instead of the previous link '
                            f'`{chain}[-1]`: for an input with src_indices the user indices address the source '
                            'array directly', key='chain-accumulate')
                    good = False
        if good:
            out.ok(fn, lp, f'{chain} = [arr, arr[i0], arr[i0][i1], ...]')
        elif good is None:
            out.unsure(fn, lp, 'chain construction not recognised')

    # 3. write-back loop
    wloops = [st for st in stmts if isinstance(st, ast.For) and
              any(astx.callee_attr(c) == 'indexed_val_set' for s in astx.walk_stmts(st.body) for c in _stmt_calls(s))]
    if len(wloops) != 1 or not isinstance(wloops[0].target, ast.Name):
        raise AnalysisError(f'{fn.ident}: write-back loop calling indexed_val_set not found')
    wl = wloops[0]
    i = wl.target.id
    verdict = 'ok'
    for k in (1, 2, 3, 4):          # k = number of indices, len(chain) = k + 1
        vals = _iter_values(wl.iter, {('len', chain): k + 1, ('len', p_inds): k})
        if vals is None:
            verdict = 'unsure'
            break
        if vals != list(range(k - 1, -1, -1)):
            verdict = (k, vals)
            break
    if verdict == 'unsure':
        out.unsure(fn, wl, f'iteration space `{astx.src(wl.iter)}` not recognised')
    elif verdict != 'ok':
        k, vals = verdict
        out.bad(fn, wl, f'with {k} index level(s) the write-back visits levels {vals}, expected '
                f'{list(range(k - 1, -1, -1))} (innermost first, down to level 0 = the stored array): values '
                'written into a copy made by fancy indexing never reach the variable', key='writeback-range')
    else:
        out.ok(fn, wl, 'write-back visits levels len(chain)-2 .. 0, innermost first')

    # 4. operands and guard of the write-back call
    wcalls = [c for s in astx.walk_stmts(wl.body) for c in _stmt_calls(s) if astx.callee_attr(c) == 'indexed_val_set']
    for c in wcalls:
        at = tg.at(c)
        if len(c.args) != 2 or c.keywords:
            out.unsure(fn, c, 'indexed_val_set call shape not recognised')
            continue
        r = _elem_of(tg, astx.receiver(c), at, i)
        p = _elem_of(tg, c.args[0], at, i)
        s = _elem_of(tg, c.args[1], at, i)
        if None in (r, p, s):
            out.unsure(fn, c, 'operands of the write-back are not chain/index elements of the loop variable')
            continue
        want = ((p_inds, 0), (chain, 0), (chain, 1))
        if (r, p, s) != want:
            out.bad(fn, c, f'write-back uses index {r[0]}[{i}{r[1]:+d}], parent {p[0]}[{i}{p[1]:+d}], child '
                    f'{s[0]}[{i}{s[1]:+d}]; level {i} must write child {chain}[{i}+1] into parent {chain}[{i}] '
                    f'with {p_inds}[{i}]', key='writeback-operands')
            continue
        # guard: the call must execute whenever the child is not a view of its parent.  The guard is
        # evaluated over the three possible values of child.base: the parent (view), None (owning copy),
        # another array (copy whose base is a temporary, e.g. arr[:, [1, 3]]).
        def geval(t, base):
            if isinstance(t, ast.UnaryOp) and isinstance(t.op, ast.Not):
                return not geval(t.operand, base)
            if isinstance(t, ast.BoolOp):
                vs = [geval(v, base) for v in t.values]
                return all(vs) if isinstance(t.op, ast.And) else any(vs)
            if isinstance(t, ast.Compare) and len(t.ops) == 1 and isinstance(t.ops[0], (ast.Is, ast.IsNot)):
                l, rr = t.left, t.comparators[0]
                if isinstance(rr, ast.Attribute) and rr.attr == 'base':
                    l, rr = rr, l
                if isinstance(l, ast.Attribute) and l.attr == 'base' and \
                        _elem_of(tg, l.value, tg.at(t), i) == (chain, 1):
                    if isinstance(rr, ast.Constant) and rr.value is None:
                        other = 'none'
                    elif _elem_of(tg, rr, tg.at(t), i) == (chain, 0):
                        other = 'parent'
                    else:
                        raise _Unknown(t, 'base compared with an unrecognised operand')
                    eq = (base == other)
                    return eq if isinstance(t.ops[0], ast.Is) else not eq
            raise _Unknown(t, f'unrecognised guard `{astx.src(t)}`')

        conds = []       # (test, required truth value) for the call to execute
        cst = astx.stmt_of(c)
        for anc in astx.ancestors(cst):
            if anc is wl:
                break
            if isinstance(anc, ast.If):
                conds.append((anc.test, astx.in_body(cst, anc, 'body')))
            elif not isinstance(anc, (ast.If,)):
                conds.append((None, None))
        top = cst
        while getattr(top, '_parent', None) is not wl and getattr(top, '_parent', None) is not None:
            top = top._parent
        if top in wl.body:
            for prev_st in wl.body[:wl.body.index(top)]:
                if isinstance(prev_st, ast.If) and not prev_st.orelse and prev_st.body and \
                        isinstance(prev_st.body[-1], ast.Continue):
                    conds.append((prev_st.test, False))
                elif any(isinstance(x, (ast.Continue, ast.Break, ast.Return)) for x in astx.walk(prev_st)):
                    conds.append((None, None))
        gverdict = 'ok'
        skipped = None
        try:
            if any(t is None for t, _ in conds):
                raise _Unknown(cst, 'control flow around the write-back not recognised')
            for base in ('parent', 'none', 'other'):
                runs = all(geval(t, base) == want for t, want in conds)
                if not runs and base != 'parent':
                    gverdict = 'bad'
                    skipped = base
                    break
        except _Unknown:
            gverdict = 'unsure'
        if gverdict == 'bad' and skipped == 'other':
            out.bad(fn, c, 'the write-back is skipped for a child that is a copy whose .base is another temporary '
                    '(numpy returns such arrays for `a[:, [1, 3]]`): only `child.base is parent` proves a view; '
                    'values set through [slice, index-array] indices or src_indices are lost',
                    key='writeback-guard')
            continue
        if gverdict == 'bad':
            out.bad(fn, c, 'the write-back is performed only when the child is a *view* of its parent and skipped '
                    'when it is a copy: values set through index arrays are lost', key='writeback-guard')
        elif gverdict == 'unsure':
            out.unsure(fn, c, 'guard of the write-back not recognised')
        else:
            out.ok(fn, c, 'child copies are written into their parent with the index that produced them')
    if not wcalls:
        raise AnalysisError(f'{fn.ident}: no indexed_val_set call')

    # 5. innermost write happens on every path to the write-back loop
    def is_inner_write(n):
        if n.kind != 'stmt' or not isinstance(n.ast, ast.Assign) or len(n.ast.targets) != 1:
            return False
        t, v = n.ast.targets[0], n.ast.value
        if not (isinstance(v, ast.Name) and v.id == p_val):
            return False
        if isinstance(t, ast.Subscript) and astx.path(t.value) == chain and _int_expr(t.slice, {}) == -1:
            return True                                   # chain[-1] = val
        if isinstance(t, ast.Subscript) and isinstance(t.slice, ast.Slice) and t.slice.lower is None and \
                t.slice.upper is None and t.slice.step is None:
            tv = t.value
            if isinstance(tv, ast.Name):
                tv = tg.rd.value(n, tv.id)
            return isinstance(tv, ast.Subscript) and astx.path(tv.value) == chain and \
                _int_expr(tv.slice, {}) == -1
        return False
    inner = g.where(is_inner_write)
    hdr = g.nodes_of(wl)
    if not hdr:
        raise AnalysisError(f'{fn.ident}: no CFG node for the write-back loop')
    w = g.dominated_by(hdr[0], inner, labels=cfgm.noexc)
    if not inner or w is not None:
        out.bad(fn, wl, f'the write-back loop can be reached without writing `{p_val}` into the innermost '
                f'sub-array `{chain}[-1]`: ' + g.fmt_path(w), key='inner-write')
    else:
        out.ok(fn, inner[0].ast, f'{p_val} is written into {chain}[-1] on every path to the write-back')

    # 6. no-indices path writes the whole array
    def is_full_write(n):
        if n.kind != 'stmt' or not isinstance(n.ast, ast.Assign) or len(n.ast.targets) != 1:
            return False
        t = n.ast.targets[0]
        return isinstance(t, ast.Subscript) and isinstance(t.value, ast.Name) and t.value.id == p_arr and \
            isinstance(t.slice, ast.Slice) and t.slice.lower is None and t.slice.upper is None and \
            t.slice.step is None and p_val in astx.names(n.ast.value)
    full = g.where(is_full_write)
    tests = [n for n in g.where(lambda n: n.kind == 'test') if
             polarity(n.ast.test, lambda t: isinstance(t, ast.Name) and t.id == p_inds) is not None]
    if not tests:
        out.unsure(fn, fn.node, f'branch on `{p_inds}` not found')
    else:
        t0 = tests[0]
        pol = polarity(t0.ast.test, lambda t: isinstance(t, ast.Name) and t.id == p_inds)
        lab = 'false' if pol else 'true'
        starts = [m for m, l in g.succ[t0] if l == lab]
        w = g.path(starts, [g.exit], avoid=full, labels=cfgm.noexc)
        if w is not None or not full:
            out.bad(fn, t0.ast, f'without indices the function can return without `{p_arr}[:] = {p_val}`: '
                    + g.fmt_path(w), key='full-write')
        else:
            out.ok(fn, full[0].ast, 'without indices the whole array is overwritten in place')


# --------------------------------------------------------------------------- C07.store
_COPYING = {'ravel': 'ndarray.ravel() returns a copy whenever the array is not contiguous',
            'flatten': 'ndarray.flatten() always returns a copy',
            'copy': 'a copy is written, not the array',
            'reshape': 'reshape() returns a copy whenever the array is not contiguous',
            'asarray': None, 'atleast_1d': None}


def _access(expr, arr):
    """Describe `<container>[<index>]`: (container kind, copy-reason or None, index expr)."""
    if not isinstance(expr, ast.Subscript):
        return None
    c, idx = expr.value, expr.slice
    if isinstance(c, ast.Name) and c.id == arr:
        return 'plain', None, idx
    if isinstance(c, ast.Attribute) and c.attr == 'flat' and isinstance(c.value, ast.Name) and c.value.id == arr:
        return 'flat', None, idx
    if isinstance(c, ast.Call):
        nm = astx.callee_attr(c)
        recv = astx.receiver(c)
        on_arr = (isinstance(recv, ast.Name) and recv.id == arr) or \
            (c.args and isinstance(c.args[0], ast.Name) and c.args[0].id == arr)
        if on_arr and nm in ('ravel', 'flatten'):
            return 'flat', (nm, _COPYING[nm]), idx
        if on_arr and nm == 'reshape' and len(c.args) >= 1 and _int_expr(c.args[-1], {}) == -1:
            return 'flat', (nm, _COPYING[nm]), idx
        if on_arr and nm == 'copy':
            return 'plain', (nm, _COPYING[nm]), idx
    return None


def _flat_branches(fn, out):
    """{True: stmts of the flat-source branch, False: stmts of the other} of an Indexer accessor."""
    body = astx.strip_doc(fn.node.body)
    ifs = [st for st in body if isinstance(st, ast.If)]
    if len(ifs) != 1 or len(body) != 1:
        out.unsure(fn, fn.node, 'expected a single `if self._flat_src: ... else: ...`')
        return None
    pol = polarity(ifs[0].test, lambda t: astx.path(t) == 'self._flat_src')
    if pol is None:
        out.unsure(fn, ifs[0], 'branch condition is not self._flat_src')
        return None
    return {pol: ifs[0].body, (not pol): ifs[0].orelse}


@rule('C07.store', floor=4)
def store(repo, out):
    """Indexer.indexed_val_set writes the positions indexed_val reads, through a view (not a copy)."""
    fg = repo.func(IDX, 'Indexer.indexed_val')
    fs = repo.func(IDX, 'Indexer.indexed_val_set')
    m = repo.module(IDX)
    others = [q for q in m.funcs if q.endswith('.indexed_val_set') or q.endswith('.indexed_val')]
    if sorted(others) != ['Indexer.indexed_val', 'Indexer.indexed_val_set']:
        out.unsure(fg, fg.node, f'indexed_val/indexed_val_set are overridden: {sorted(others)}')
        return
    pg = [x.arg for x in fg.node.args.args]
    ps = [x.arg for x in fs.node.args.args]
    if len(pg) != 2 or len(ps) != 3:
        raise AnalysisError('Indexer.indexed_val/indexed_val_set: signature changed')
    bg, bs = _flat_branches(fg, out), _flat_branches(fs, out)
    if bg is None or bs is None:
        return
    for flat in (True, False):
        name = 'flat-source' if flat else 'shaped-source'
        rg = [st for st in bg[flat] if isinstance(st, ast.Return)]
        ws = [st for st in bs[flat] if isinstance(st, ast.Assign)]
        if len(bg[flat]) != 1 or len(rg) != 1 or len(bs[flat]) != 1 or len(ws) != 1 or len(ws[0].targets) != 1:
            out.unsure(fs, fs.node, f'{name} branch: expected one return / one assignment')
            continue
        ag = _access(rg[0].value, pg[1])
        as_ = _access(ws[0].targets[0], ps[1])
        if ag is None or as_ is None:
            out.unsure(fs, ws[0], f'{name} branch: access form not recognised')
            continue
        # (i) same positions
        if ag[0] != as_[0] or not astx.same(ag[2], as_[2]):
            out.bad(fs, ws[0], f'{name} branch writes `{astx.src(ws[0].targets[0])}` but indexed_val reads '
                    f'`{astx.src(rg[0].value)}`: set and get address different entries', key=f'sibling-{name}')
        elif not (isinstance(ws[0].value, ast.Name) and ws[0].value.id == ps[2]):
            out.unsure(fs, ws[0], f'{name} branch: stored value is not the `{ps[2]}` parameter')
        else:
            out.ok(fs, ws[0], f'{name} branch writes the entries indexed_val reads')
        # (ii) the write goes through to the caller's array
        if as_[1] is not None:
            out.bad(fs, ws[0], f'`{astx.src(ws[0].targets[0])} = ...`: {as_[1][1]}; set_subarray passes strided '
                    'views here (the .real view of a complex-allocated vector, a `[::2]` slice of a parent '
                    'group\'s src_indices), so the assignment goes into a temporary and the value set by '
                    'set_val is silently dropped (use `.flat[...]`)', key=f'write-through-{as_[1][0]}-{name}')
        else:
            out.ok(fs, ws[0], f'{name} branch assigns through a view of the array')


# --------------------------------------------------------------------------- C07.phase
def _is_has_vectors(tg, allowed):
    def atom(t):
        if not (isinstance(t, ast.Call) and astx.callee_attr(t) == 'has_vectors' and not t.args and not t.keywords):
            return False
        r = astx.receiver(t)
        return r is not None and tg.tags(r, tg.at(t)) <= allowed
    return atom


def _branch_starts(g, test_node, want_true):
    lab = 'true' if want_true else 'false'
    return [m for m, l in g.succ[test_node] if l == lab]


@rule('C07.phase', floor=7)
def phase(repo, out):
    """get and set use the same store in every phase; final_setup carries node values into the vector."""
    # (1) AllConnGraph.get_val -> use_vec = <system>.has_vectors()
    fn = repo.func(CG, 'AllConnGraph.get_val')
    tg = Tagger(fn)
    callee = repo.func(CG, 'AllConnGraph.get_val_from_src')
    cs = calls_named(fn, 'get_val_from_src')
    if not cs:
        raise AnalysisError(f'{fn.ident}: get_val_from_src call vanished')
    b = bind(cs[0], callee)
    hv = _is_has_vectors(tg, {'param:system', MODEL})
    if b is None:
        out.unsure(fn, cs[0], 'cannot bind get_val_from_src arguments')
    elif 'use_vec' not in b:
        out.bad(fn, cs[0], 'use_vec is not passed: after final_setup get_val keeps reading the node metadata '
                'while set_val writes the output vector', key='get-use-vec')
    else:
        p = polarity(b['use_vec'], hv)
        if p is True:
            out.ok(fn, cs[0], 'use_vec = system.has_vectors()')
        elif p is False or isinstance(b['use_vec'], ast.Constant):
            out.bad(fn, cs[0], f'use_vec={astx.src(b["use_vec"])}: get_val does not read the store that set_val '
                    'writes in one of the phases (vectors exist iff has_vectors())', key='get-use-vec')
        else:
            out.unsure(fn, cs[0], f'use_vec={astx.src(b["use_vec"])} not recognised')

    # (2) get_val_from_src: use_vec -> vector read of the source, else source metadata
    fn = repo.func(CG, 'AllConnGraph.get_val_from_src')
    tg = Tagger(fn)
    ifs = [st for st in astx.walk_stmts(fn.node.body) if isinstance(st, ast.If) and
           polarity(st.test, lambda t: isinstance(t, ast.Name) and t.id == 'use_vec') is not None]
    if len(ifs) != 1:
        raise AnalysisError(f'{fn.ident}: branch on use_vec not found')
    pol = polarity(ifs[0].test, lambda t: isinstance(t, ast.Name) and t.id == 'use_vec')
    vec_b, meta_b = (ifs[0].body, ifs[0].orelse) if pol else (ifs[0].orelse, ifs[0].body)
    KEYS = {ROOT + '[1]', 'param:src_node[1]'}
    METAS = {meta(ROOT) + '.val', meta('param:src_node') + '.val'}

    def reads(stmts):
        kinds = []
        for st in astx.walk_stmts(stmts):
            if isinstance(st, ast.Assign) and len(st.targets) == 1 and isinstance(st.targets[0], ast.Name):
                v = st.value
                if isinstance(v, ast.Call) and astx.callee_attr(v) == '_abs_get_val' and v.args:
                    k = tg.tags(v.args[0], tg.at(st))
                    kinds.append(('vec', k <= KEYS, st, k))
                elif isinstance(v, ast.Attribute) and v.attr == 'val':
                    k = tg.tags(v, tg.at(st))
                    kinds.append(('meta', k <= METAS, st, k))
        return kinds
    rv, rm = reads(vec_b), reads(meta_b)
    if [k for k, *_ in rv] == ['vec'] and [k for k, *_ in rm] == ['meta']:
        wrong = [x for x in rv + rm if not x[1]]
        if wrong:
            _, _, st, k = wrong[0]
            out.bad(fn, st, f'the value is read under key {sorted(k)}, but set_val stores it under the *source* '
                    'of the addressed variable (root of its connection tree)', key='get-store-key')
        else:
            out.ok(fn, ifs[0], 'use_vec: vector value of the source; else: metadata value of the source')
    elif [k for k, *_ in rv] == ['meta'] and [k for k, *_ in rm] == ['vec']:
        out.bad(fn, ifs[0], 'the vector is read when use_vec is False and the node metadata when it is True: '
                'after final_setup get_val returns the stale pre-setup value', key='get-store-gate')
    else:
        out.unsure(fn, ifs[0], 'reads in the use_vec branches not recognised')

    # (3) set_val: has_vectors -> output vector of the source, else metadata tree of the source
    fn = repo.func(CG, 'AllConnGraph.set_val')
    tg = Tagger(fn)
    g = tg.g
    hv = _is_has_vectors(tg, {'param:system', MODEL})
    cands = [st for st in astx.walk_stmts(fn.node.body) if isinstance(st, ast.If) and
             polarity(st.test, hv) is not None and not _in_discrete_branch(tg, st)]
    if len(cands) != 1:
        raise AnalysisError(f'{fn.ident}: expected one has_vectors() branch outside the discrete case')
    iff = cands[0]
    pol = polarity(iff.test, hv)
    vec_b, meta_b = (iff.body, iff.orelse) if pol else (iff.orelse, iff.body)

    def out_writes(stmts):
        res = []
        for st in astx.walk_stmts(stmts):
            for c in _stmt_calls(st):
                if astx.callee_attr(c) == '_abs_set_val' and astx.receiver(c) is not None and \
                        tg.tags(astx.receiver(c), tg.at(c)) == {MODEL + '._outputs'}:
                    res.append(c)
        return res

    def tree_writes(stmts):
        return [c for st in astx.walk_stmts(stmts) for c in _stmt_calls(st) if astx.callee_attr(c) == 'set_tree_val']
    vw, vt = out_writes(vec_b), tree_writes(vec_b)
    mw, mt = out_writes(meta_b), tree_writes(meta_b)
    tnode = g.nodes_of(iff)[0]
    if mw or vt:
        out.bad(fn, iff, 'the output vector is written when has_vectors() is False or the metadata tree when it '
                'is True: get_val reads the other store', key='set-store-gate')
    elif not vw:
        out.bad(fn, iff, 'with vectors allocated set_val never writes model._outputs (scalar variables are '
                'not views of the vector, their new value is dropped)', key='vector-store-missing')
    elif not mt:
        out.bad(fn, iff, 'before final_setup set_val never calls set_tree_val: the first value of a variable '
                'whose shape is not known yet is dropped', key='meta-store-missing')
    else:
        key_ok = all(c.args and tg.tags(c.args[0], tg.at(c)) == {ROOT + '[1]'} for c in vw) and \
            all(len(c.args) >= 2 and tg.tags(c.args[1], tg.at(c)) == {ROOT} for c in mt)
        reads_ok = True
        for st in astx.walk_stmts(vec_b):
            if isinstance(st, ast.Assign) and isinstance(st.value, ast.Call) and \
                    astx.callee_attr(st.value) == '_abs_get_val' and st.value.args:
                if tg.tags(st.value.args[0], tg.at(st)) != {ROOT + '[1]'}:
                    reads_ok = False
        if not key_ok or not reads_ok:
            out.bad(fn, iff, 'set_val does not address the *source* of the variable in the store '
                    '(get_val reads the root of the connection tree)', key='set-store-key')
        else:
            out.ok(fn, iff, 'has_vectors: output vector of the source; else: metadata tree of the source')
            # every normal path through either branch stores (or reports an error)
            errs = g.calling('_collect_error')
            vnodes = [tg.at(c) for c in vw]
            w = g.path(_branch_starts(g, tnode, pol), [g.exit], avoid=vnodes, labels=cfgm.noexc)
            if w is not None:
                out.bad(fn, iff, 'with vectors allocated set_val can return without writing the output '
                        'vector (scalar variables are not views): ' + g.fmt_path(w), key='vector-store-missing')
            else:
                out.ok(fn, vw[0], 'every path of the vector branch writes model._outputs')
            mnodes = [tg.at(c) for c in mt]
            w = g.path(_branch_starts(g, tnode, not pol), [g.exit], avoid=mnodes + errs, labels=cfgm.noexc)
            if w is not None:
                out.bad(fn, iff, 'before final_setup set_val can return without storing the value in the '
                        'connection tree (first value of a variable whose shape is not known yet): '
                        + g.fmt_path(w), key='meta-store-missing')
            else:
                out.ok(fn, mt[0], 'every non-error path of the metadata branch calls set_tree_val')

    # (4) set_tree_val stores the value on the source node
    fn = repo.func(CG, 'AllConnGraph.set_tree_val')
    tg = Tagger(fn)
    g = tg.g

    def is_store(n):
        if n.kind != 'stmt' or not isinstance(n.ast, ast.Assign) or len(n.ast.targets) != 1:
            return False
        t = n.ast.targets[0]
        return isinstance(t, ast.Attribute) and t.attr == 'val' and \
            tg.tags(t.value, n) == {meta('param:src_node')} and tg.tags(n.ast.value, n) == {'param:srcval'}
    st_nodes = g.where(is_store)
    w = g.path([g.entry], [g.exit], avoid=st_nodes, labels=cfgm.noexc)
    if not st_nodes or w is not None:
        out.bad(fn, fn.node, 'set_tree_val can return without `nodes[src_node].val = srcval`: a value set before '
                'final_setup is not kept on the source node that get_val and set_initial_values read',
                key='tree-store')
    else:
        out.ok(fn, st_nodes[0].ast, 'source node value is stored on every path')

    # (5) Group.set_initial_values carries output node values into the output vector
    fn = repo.func(GRP, 'Group.set_initial_values')
    tg = Tagger(fn)
    found = False
    for c in calls_named(fn, 'set_var'):
        if astx.path(astx.receiver(c)) != 'self._outputs' or len(c.args) < 2:
            continue
        found = True
        at = tg.at(c)
        k = tg.tags(c.args[0], at)
        v = tg.tags(c.args[1], at)
        if len(k) != 1 or not next(iter(k)).startswith('elem('):
            out.unsure(fn, c, 'variable name is not the loop element')
            continue
        kk = next(iter(k))
        if "_var_abs2meta['output']" not in kk:
            out.unsure(fn, c, f'loop does not run over self._var_abs2meta[\'output\'] ({kk})')
            continue
        if v != {meta(f"list(const:'o',{kk})") + '.val'}:
            if v == {meta(f"list(const:'i',{kk})") + '.val'} or (len(v) == 1 and next(iter(v)).startswith('meta(')
                                                                 and next(iter(v)).endswith('.val')):
                out.bad(fn, c, f'the output vector entry is initialised from {sorted(v)}, not from the value of '
                        "the output's own node ('o', name) that set_val wrote before final_setup",
                        key='carry-source')
            else:
                out.unsure(fn, c, f'value not recognised ({sorted(v)})')
            continue
        verdict = 'ok'
        lp = astx.enclosing(astx.stmt_of(c), (ast.For,))
        for anc in astx.ancestors(astx.stmt_of(c)):
            if anc is lp:
                break
            if isinstance(anc, ast.If):
                inb = astx.in_body(astx.stmt_of(c), anc, 'body')

                def notnone(t):
                    return isinstance(t, ast.Compare) and len(t.ops) == 1 and isinstance(t.ops[0], ast.IsNot) and \
                        isinstance(t.comparators[0], ast.Constant) and t.comparators[0].value is None and \
                        tg.tags(t.left, tg.at(t)) == v

                def isnone(t):
                    return isinstance(t, ast.Compare) and len(t.ops) == 1 and isinstance(t.ops[0], ast.Is) and \
                        isinstance(t.comparators[0], ast.Constant) and t.comparators[0].value is None and \
                        tg.tags(t.left, tg.at(t)) == v

                def discrete(t):
                    return isinstance(t, ast.Attribute) and t.attr == 'discrete' and \
                        {x + '.val' for x in tg.tags(t.value, tg.at(t))} == v
                p1, p2, p3 = polarity(anc.test, notnone), polarity(anc.test, isnone), polarity(anc.test, discrete)
                if p1 is not None:
                    good = (p1 == inb)
                elif p2 is not None:
                    good = (p2 != inb)
                elif p3 is not None:
                    good = (p3 != inb)
                else:
                    verdict = 'unsure'
                    break
                if not good:
                    verdict = 'bad'
                    break
        if verdict == 'bad':
            out.bad(fn, c, 'the copy into the output vector is skipped exactly for continuous outputs that have '
                    'a value: what set_val stored before final_setup is lost at final_setup', key='carry-guard')
        elif verdict == 'unsure':
            out.unsure(fn, c, 'guard around the copy not recognised')
        else:
            out.ok(fn, c, "outputs[name] <- nodes[('o', name)].val for every continuous output with a value")
    if not found:
        out.bad(fn, fn.node, 'no `self._outputs.set_var(name, <node value>)`: values set before final_setup do '
                'not reach the output vector', key='carry-missing')


# --------------------------------------------------------------------------- C07.names
@rule('C07.names', floor=2)
def names(repo, out):
    """find_node: a name is taken as absolute only if it starts with `<pathname>.` (component boundary)."""
    fn = repo.func(CG, 'AllConnGraph.find_node')
    tg = Tagger(fn)
    PREFIX = "cat(param:pathname,const:'.')"
    JOIN = f'cat({PREFIX},param:varname)'
    tests = []
    for st in astx.walk_stmts(fn.node.body):
        if isinstance(st, ast.If):
            def atom(t):
                return isinstance(t, ast.Call) and astx.callee_attr(t) == 'startswith' and len(t.args) == 1 and \
                    astx.receiver(t) is not None and tg.tags(astx.receiver(t), tg.at(t)) == {'param:varname'}
            pol = polarity(st.test, atom)
            if pol is not None:
                tests.append((st, pol))
    if len(tests) != 1:
        raise AnalysisError(f'{fn.ident}: expected one `varname.startswith(...)` branch, found {len(tests)}')
    st, pol = tests[0]
    call = st.test
    while isinstance(call, ast.UnaryOp):
        call = call.operand
    a = tg.tags(call.args[0], tg.at(call))
    if a == {PREFIX}:
        out.ok(fn, st, "absolute-name test uses pathname + '.'")
    elif a == {'param:pathname'}:
        out.bad(fn, st, "a relative name is taken as absolute whenever it merely starts with the letters of the "
                "system's pathname (group 'g', child 'gc': g.set_val('gc.x') addresses top-level 'gc.x' or "
                "fails): the prefix test needs the '.' separator", key='prefix-boundary')
    else:
        out.unsure(fn, st, f'prefix argument not recognised ({sorted(a)})')
    g = tg.g
    tnode = g.nodes_of(st)[0]
    # the variable that carries the resolved name: the one assigned inside this if (or, failing that, before it)
    cands = {s2.targets[0].id for s2 in astx.walk_stmts(st.body + st.orelse)
             if isinstance(s2, ast.Assign) and len(s2.targets) == 1 and isinstance(s2.targets[0], ast.Name)}
    if len(cands) != 1:
        out.unsure(fn, st, f'resolved-name variable not identified ({sorted(cands)})')
        return
    var = next(iter(cands))

    def value_on(label):
        """Tags of `var` at its first uses on paths leaving the prefix test through `label`."""
        state = {}
        work = []
        for m, lab in g.succ[tnode]:
            if lab == label:
                state[m] = set(tg.rd.defs(tnode, var))
                work.append(m)
        res = set()
        while work:
            n = work.pop()
            cur = state[n]
            is_def = n.kind == 'stmt' and isinstance(n.ast, ast.Assign) and \
                any(isinstance(t_, ast.Name) and t_.id == var for t_ in astx.assigned_targets(n.ast))
            uses = any(isinstance(w, ast.Name) and w.id == var and isinstance(w.ctx, ast.Load)
                       for e_ in n.exprs() for w in astx.walk(e_))
            if uses:
                for d in cur:
                    if d.kind == 'stmt' and isinstance(d.ast, ast.Assign) and len(d.ast.targets) == 1 and \
                            isinstance(d.ast.targets[0], ast.Name):
                        res |= tg.tags(d.ast.value, d)
                    else:
                        res.add(UNK)
                if not cur:
                    res.add(UNK)
                continue
            nxt = {n} if is_def else cur
            for m, lab in g.succ[n]:
                if lab == 'exc' or m in (g.exit, g.raise_exit):
                    continue
                if m not in state or not nxt <= state[m]:
                    state[m] = state.get(m, set()) | nxt
                    work.append(m)
        return res
    ta, tr = value_on('true' if pol else 'false'), value_on('false' if pol else 'true')
    if ta == {'param:varname'} and tr == {JOIN}:
        out.ok(fn, st, "absolute: name itself; relative: pathname + '.' + name")
    elif ta == {JOIN} and tr == {'param:varname'}:
        out.bad(fn, st, 'the system pathname is prepended to names that already carry it and omitted for relative '
                'names', key='prefix-branches')
    elif tr == {'cat(param:pathname,param:varname)'}:
        out.bad(fn, st, "relative names are joined to the pathname without the '.' separator", key='prefix-join')
    else:
        out.unsure(fn, st, f'name construction not recognised (absolute {sorted(ta)}, relative {sorted(tr)})')


# --------------------------------------------------------------------------- self-test
_DEF_UNITS = "        if units is None:\n            units = tgt_units\n"
_WB = ("            sub = chain[i + 1]\n            prev = chain[i]\n            idx = indices_list[i]\n"
       "            if sub.base is not prev:\n                idx.indexed_val_set(prev, sub)")
_GETCONV = ("            val = self.convert_get(node, val, src_meta.units, node_meta.units,\n"
            "                                   src_inds_list, units, indices,")
_SYSGET = ("            val = conn_graph.get_val(self, name, units, indices, get_remote, rank,\n"
           "                                vec_name, kind, flat, from_src)")
_USEVEC = ("        if use_vec:\n            val = system._abs_get_val(src_node[1], get_remote, rank, vec_name, kind, flat,\n"
           "                                      from_root=True)\n        else:\n            val = src_meta.val\n")
_INDS = ("        if indices is None:\n            inds = tgt_inds_list\n        else:\n"
         "            if not isinstance(indices, Indexer):\n                indices = indexer(indices)\n"
         "            inds = list(tgt_inds_list) + [indices]\n")
_FULLW = ("                try:\n                    arr[:] = val\n                except ValueError:\n"
          "                    arr[:] = val.reshape(arr.shape)\n                return")
_CARRY = ("                if node_meta.discrete:\n                    self._discrete_outputs[name] = node_meta.val\n"
          "                else:\n                    self._outputs.set_var(name, node_meta.val)\n")
_IVS_IF = "        if self._flat_src:\n            # arr.flat writes through"

_ABSIN = ("                try:\n                    tval = self.convert_set(val, tgt_units, tgt_units, (),  units)\n"
          "                except Exception as err:\n"
          "                    self._collect_error(f\"{system.msginfo}: Can't set value of \"\n"
          "                                        f\"'{self.msgname(node)}': {str(err)}\")\n"
          "                    return\n                if indices is None:\n"
          "                    model._inputs._abs_set_val(node[1], tval)\n                else:\n"
          "                    model._inputs._abs_set_val(node[1], tval, idx=indices())\n")
_ABSIN_CALL = "                self._set_abs_input_val(system, model, node, val, tgt_units, units, indices)\n"
_TREEDEF = "    def set_tree_val(self, model, src_node, srcval):\n"


def _helper(v_plain, v_idx, src_slot='tgt_units'):
    return ("    def _set_abs_input_val(self, system, model, node, val, tgt_units, units, indices):\n"
            "        abs_in = node[1]\n        try:\n"
            f"            tval = self.convert_set(val, {src_slot}, tgt_units, (), units)\n"
            "        except Exception as err:\n            self._collect_error(str(err))\n            return\n"
            f"        if indices is None:\n            model._inputs._abs_set_val(abs_in, {v_plain})\n"
            f"        else:\n            model._inputs._abs_set_val(abs_in, {v_idx}, idx=indices())\n\n" + _TREEDEF)


_FINDNODE = ("        if pathname:\n            prefix = pathname + '.'\n            if varname.startswith(prefix):\n"
             "                name = varname\n            else:\n                name = pathname + '.' + varname\n"
             "        else:\n            name = varname\n")
_GETUNITS = ("            if src_units is None:\n                src_units = tgt_units\n\n"
             "            if src_units != units:\n                try:\n"
             "                    scale, offset = unit_conversion(src_units, units)\n")
_SETUNITS = ("        if units is None:\n            units = tgt_units\n\n        if units is not None:\n"
             "            if src_units is None:\n"
             "                raise TypeError(f\"Can't express value with units of '{src_units}' in units of \"\n"
             "                                f\"'{units}'.\")\n"
             "            elif src_units != units:\n                try:\n"
             "                    scale, offset = unit_conversion(units, src_units)\n"
             "                except Exception:\n"
             "                    raise TypeError(f\"Can't express value with units of '{src_units}' in units of \"\n"
             "                                    f\"'{units}'.\")\n\n"
             "                return (val + offset) * scale\n\n        return val\n")

selftest(
    'C07',
    # ---- units
    Mutant('units-get-swapped-args', CG, 'scale, offset = unit_conversion(src_units, units)',
           'scale, offset = unit_conversion(units, src_units)', 'C07.units'),
    Mutant('units-set-swapped-args', CG, 'scale, offset = unit_conversion(units, src_units)',
           'scale, offset = unit_conversion(src_units, units)', 'C07.units'),
    Mutant('units-set-formula', CG, 'return (val + offset) * scale', 'return val * scale + offset', 'C07.units', nth=1),
    Mutant('units-get-formula-paren', CG, 'return (val + offset) * scale', 'return val + offset * scale', 'C07.units'),
    Mutant('units-get-unpack-swapped', CG, 'scale, offset = unit_conversion(src_units, units)',
           'offset, scale = unit_conversion(src_units, units)', 'C07.units'),
    Mutant('units-set-no-default', CG, _DEF_UNITS, '', 'C07.units', nth=1),
    Mutant('units-get-default-src', CG, _DEF_UNITS, "        if units is None:\n            units = src_units\n",
           'C07.units'),
    Mutant('units-set-compares-node-units', CG, "            elif src_units != units:", "            elif src_units != tgt_units:",
           'C07.units'),
    Mutant('units-get-ne-to-eq', CG, '            if src_units != units:\n                try:\n                    scale, offset = unit_conversion(src_units',
           '            if src_units == units:\n                try:\n                    scale, offset = unit_conversion(src_units', 'C07.units'),
    # ---- slots
    Mutant('slots-system-get-swapped', SYS, 'conn_graph.get_val(self, name, units, indices, get_remote, rank,',
           'conn_graph.get_val(self, name, indices, units, get_remote, rank,', 'C07.slots'),
    Mutant('slots-problem-set-drops-indices', PROB, 'self.model.set_val(name, val, units=units, indices=indices)',
           'self.model.set_val(name, val, units=units)', 'C07.slots'),
    Mutant('slots-problem-get-units-as-indices', PROB, 'self.model.get_val(name, units=units, indices=indices,',
           'self.model.get_val(name, units=indices, indices=units,', 'C07.slots'),
    Mutant('slots-get-units-roles-swapped', CG, _GETCONV,
           "            val = self.convert_get(node, val, node_meta.units, src_meta.units,\n"
           "                                   src_inds_list, units, indices,", 'C07.slots'),
    Mutant('slots-set-units-roles-swapped', CG, 'sval = self.convert_set(val, src_units, tgt_units, (),  units)',
           'sval = self.convert_set(val, tgt_units, src_units, (),  units)', ['C07.slots', 'C07.value']),
    Mutant('slots-system-set-drops-units', SYS, 'conn_graph.set_val(self, name, val, units=units, indices=indices)',
           'conn_graph.set_val(self, name, val, indices=indices)', 'C07.slots'),
    Mutant('slots-from-src-drops-indices', CG, 'return self.get_val_from_src(system, name, units=units, indices=indices,',
           'return self.get_val_from_src(system, name, units=units,', 'C07.slots'),
    # ---- value
    Mutant('value-raw-into-subarray', CG, 'self.set_subarray(srcval, inds, sval, node)',
           'self.set_subarray(srcval, inds, val, node)', 'C07.value'),
    Mutant('value-raw-into-subarray-meta', CG, 'self.set_subarray(srcval, inds, sval, node)',
           'self.set_subarray(srcval, inds, val, node)', 'C07.value', nth=1),
    Mutant('value-raw-scalar', CG, '                srcval = sval\n\n            model._outputs',
           '                srcval = val\n\n            model._outputs', 'C07.value'),
    Mutant('value-raw-number', CG, 'src_meta.val = sval', 'src_meta.val = val', 'C07.value'),
    Mutant('value-input-units-into-source', CG, 'sval = self.convert_set(val, src_units, tgt_units, (),  units)',
           'sval = self.convert_set(val, tgt_units, tgt_units, (),  units)', 'C07.value'),
    # ---- order
    Mutant('order-set-indices-first', CG, 'inds = list(tgt_inds_list) + [indices]',
           'inds = [indices] + list(tgt_inds_list)', 'C07.order'),
    Mutant('order-set-gate-flipped', CG, '        if indices is None:\n            inds = tgt_inds_list',
           '        if indices is not None:\n            inds = tgt_inds_list', 'C07.order'),
    Mutant('order-get-indices-first', CG,
           "        if not node_meta.discrete:\n            val = np.asarray(val)\n            if src_inds_list:",
           "        if indices:\n            val = self.get_subarray(val, [indices])\n\n"
           "        if not node_meta.discrete:\n            val = np.asarray(val)\n            if src_inds_list:",
           'C07.order'),
    Mutant('order-subarray-not-accumulated', CG, 'current = idx.indexed_val(current)',
           'current = idx.indexed_val(np.atleast_1d(arr))', 'C07.order'),
    Mutant('order-subarray-reversed', CG, '            for idx in indices_list:\n                current',
           '            for idx in reversed(indices_list):\n                current', 'C07.order'),
    # ---- writeback
    Mutant('wb-range-stops-at-1', CG, 'for i in range(len(chain) - 2, -1, -1):',
           'for i in range(len(chain) - 2, 0, -1):', 'C07.writeback'),
    Mutant('wb-range-starts-late', CG, 'for i in range(len(chain) - 2, -1, -1):',
           'for i in range(len(chain) - 3, -1, -1):', 'C07.writeback'),
    Mutant('wb-range-ascending', CG, 'for i in range(len(chain) - 2, -1, -1):',
           'for i in range(len(chain) - 1):', 'C07.writeback'),
    Mutant('wb-index-off-by-one', CG, 'idx = indices_list[i]\n', 'idx = indices_list[i - 1]\n', 'C07.writeback'),
    Mutant('wb-parent-child-swapped', CG, 'idx.indexed_val_set(prev, sub)', 'idx.indexed_val_set(sub, prev)',
           'C07.writeback'),
    Mutant('wb-guard-inverted', CG, 'if sub.base is not prev:', 'if sub.base is prev:', 'C07.writeback'),
    Mutant('wb-chain-from-arr', CG, 'chain.append(idx.indexed_val(chain[-1]))', 'chain.append(idx.indexed_val(arr))',
           'C07.writeback'),
    Mutant('wb-chain-reversed', CG, '                for idx in indices_list:\n                    chain.append',
           '                for idx in indices_list[::-1]:\n                    chain.append', 'C07.writeback'),
    Mutant('wb-inner-write-dropped', CG, '        else:\n            last[:] = val\n\n        for i in range',
           '        else:\n            pass\n\n        for i in range', 'C07.writeback'),
    Mutant('wb-full-write-dropped', CG, _FULLW, '                return', 'C07.writeback'),
    # ---- store
    Mutant('store-branches-swapped', IDX, _IVS_IF,
           "        if not self._flat_src:\n            # arr.flat writes through", 'C07.store'),
    Mutant('store-prefix-ravel', IDX, 'arr.flat[self.flat()] = val', 'arr.ravel()[self.flat()] = val', 'C07.store'),
    Mutant('store-reshape-minus-one', IDX, 'arr.flat[self.flat()] = val', 'arr.reshape(-1)[self.flat()] = val',
           'C07.store'),
    Mutant('store-shaped-uses-flat-index', IDX, '            arr[self()] = val', '            arr[self.flat()] = val',
           'C07.store'),
    Mutant('store-shaped-writes-copy', IDX, '            arr[self()] = val', '            arr.copy()[self()] = val',
           'C07.store'),
    Mutant('store-flatten', IDX, 'arr.flat[self.flat()] = val', 'arr.flatten()[self.flat()] = val', 'C07.store'),
    # ---- phase
    Mutant('phase-get-never-vec', CG, 'kind=kind, flat=flat, use_vec=system.has_vectors())',
           'kind=kind, flat=flat, use_vec=False)', 'C07.phase'),
    Mutant('phase-get-not-has-vectors', CG, 'kind=kind, flat=flat, use_vec=system.has_vectors())',
           'kind=kind, flat=flat, use_vec=not system.has_vectors())', 'C07.phase'),
    Mutant('phase-get-branches-swapped', CG, '        if use_vec:\n            val = system._abs_get_val(src_node[1]',
           '        if not use_vec:\n            val = system._abs_get_val(src_node[1]', 'C07.phase'),
    Mutant('phase-get-reads-node-not-source', CG, 'val = system._abs_get_val(src_node[1], get_remote, rank, vec_name, kind, flat,',
           'val = system._abs_get_val(node[1], get_remote, rank, vec_name, kind, flat,', 'C07.phase'),
    Mutant('phase-get-meta-of-node', CG, '        else:\n            val = src_meta.val\n\n            if is_undefined(val):',
           '        else:\n            val = node_meta.val\n\n            if is_undefined(val):', 'C07.phase'),
    Mutant('phase-set-branches-swapped', CG, '        if model.has_vectors():\n            srcval = model._abs_get_val(src, get_remote=False)',
           '        if not model.has_vectors():\n            srcval = model._abs_get_val(src, get_remote=False)', 'C07.phase'),
    Mutant('phase-set-no-vector-write', CG, '            model._outputs._abs_set_val(src, srcval)\n', '', 'C07.phase'),
    Mutant('phase-set-no-tree-write', CG,
           '            # propagate shape and value down the tree\n            self.set_tree_val(model, src_node, srcval)',
           '            pass', 'C07.phase'),
    Mutant('phase-set-writes-node-key', CG, 'model._outputs._abs_set_val(src, srcval)',
           'model._outputs._abs_set_val(node[1], srcval)', 'C07.phase'),
    Mutant('phase-tree-no-store', CG, "        src_meta.val = srcval\n        src_dist", "        src_dist", 'C07.phase'),
    Mutant('phase-carry-dropped', GRP, '                    self._outputs.set_var(name, node_meta.val)\n',
           '                    pass\n', 'C07.phase'),
    Mutant('phase-carry-guard-flipped', GRP, '            if node_meta.val is not None:\n                if node_meta.discrete:',
           '            if node_meta.val is None:\n                if node_meta.discrete:', 'C07.phase'),
    Mutant('phase-carry-discrete-flipped', GRP, '                if node_meta.discrete:\n                    self._discrete_outputs[name]',
           '                if not node_meta.discrete:\n                    self._discrete_outputs[name]', 'C07.phase'),
    Mutant('phase-carry-from-input-node', GRP, "            node = ('o', name)\n            node_meta = conn_graph.nodes[node]['attrs']",
           "            node = ('i', name)\n            node_meta = conn_graph.nodes[node]['attrs']", 'C07.phase'),
    # ---- seeded round 2
    Mutant('wb-guard-base-is-none', CG, 'if sub.base is not prev:', 'if sub.base is None:', 'C07.writeback'),
    Mutant('wb-guard-base-not-none', CG, 'if sub.base is not prev:', 'if sub.base is not None:', 'C07.writeback'),
    Mutant('wb-guard-continue-none', CG, _WB,
           "            sub = chain[i + 1]\n            prev = chain[i]\n            idx = indices_list[i]\n"
           "            if sub.base is not None:\n                continue\n"
           "            idx.indexed_val_set(prev, sub)", 'C07.writeback'),
    Mutant('order-get-reshape-on-ndim', CG, "            else:\n                val = val.reshape(node_meta.shape)",
           "            elif val.ndim != len(node_meta.shape):\n                val = val.reshape(node_meta.shape)",
           'C07.order'),
    Mutant('order-get-reshape-on-size', CG, "            else:\n                val = val.reshape(node_meta.shape)",
           "            elif val.size != np.prod(node_meta.shape):\n                val = val.reshape(node_meta.shape)",
           'C07.order'),
    Mutant('order-get-reshape-dropped', CG, "            else:\n                val = val.reshape(node_meta.shape)\n",
           "", 'C07.order'),
    Mutant('units-set-skip-on-scale', CG, "                return (val + offset) * scale\n\n        return val\n\n    def setup_global",
           "                if scale != 1.0:\n                    return (val + offset) * scale\n\n        return val\n\n    def setup_global",
           'C07.units'),
    Mutant('units-get-skip-on-offset', CG, "                return (val + offset) * scale\n\n        return val\n\n    def convert_set",
           "                if offset != 0.0:\n                    return (val + offset) * scale\n\n        return val\n\n    def convert_set",
           'C07.units'),
    Mutant('units-set-skip-and', CG, "                return (val + offset) * scale\n\n        return val\n\n    def setup_global",
           "                if scale != 1.0 and offset != 0.0:\n                    return (val + offset) * scale\n\n        return val\n\n    def setup_global",
           'C07.units'),
    Twin('twin-units-skip-identity-or', CG, "                return (val + offset) * scale\n\n        return val\n\n    def setup_global",
         "                if scale != 1.0 or offset != 0.0:\n                    return (val + offset) * scale\n\n        return val\n\n    def setup_global"),
    Twin('twin-units-skip-identity-not-and', CG, "                return (val + offset) * scale\n\n        return val\n\n    def convert_set",
         "                if not (scale == 1.0 and offset == 0.0):\n                    return (val + offset) * scale\n\n        return val\n\n    def convert_set"),
    Twin('twin-order-reshape-if-shape-differs', CG, "            else:\n                val = val.reshape(node_meta.shape)",
         "            elif val.shape != node_meta.shape:\n                val = val.reshape(node_meta.shape)"),
    Twin('twin-order-reshape-unless-equal', CG, "            else:\n                val = val.reshape(node_meta.shape)",
         "            elif not (tuple(node_meta.shape) == val.shape):\n                val = val.reshape(node_meta.shape)"),
    Twin('twin-wb-guard-not-is', CG, 'if sub.base is not prev:', 'if not (sub.base is prev):'),
    Twin('twin-wb-guard-continue', CG, _WB,
         "            sub = chain[i + 1]\n            prev = chain[i]\n            idx = indices_list[i]\n"
         "            if sub.base is prev:\n                continue\n"
         "            idx.indexed_val_set(prev, sub)"),
    Twin('twin-wb-guard-or-none', CG, 'if sub.base is not prev:', 'if sub.base is None or sub.base is not prev:'),
    # ---- resolve (pre-fix shape = guard removed)
    Mutant('resolve-guard-removed', CG, 'if val is not None and (self._first_pass or node_meta.val is None):',
           'if val is not None:', 'C07.resolve'),
    Twin('twin-resolve-guard-rewritten', CG, 'if val is not None and (self._first_pass or node_meta.val is None):',
         'if val is not None and not (node_meta.val is not None and not self._first_pass):'),
    Mutant('resolve-guard-only-not-first', CG, 'if val is not None and (self._first_pass or node_meta.val is None):',
           'if val is not None and (not self._first_pass or node_meta.val is None):', 'C07.resolve'),
    Twin('twin-resolve-guarded-outer', CG, "            if not ambig_val:\n                val = self.get_val_from_children(",
         "            if not ambig_val and (node_meta.val is None or self._first_pass):\n"
         "                val = self.get_val_from_children("),
    # ---- seeded round 3
    Mutant('value-input-gets-source-units', CG, 'model._inputs._abs_set_val(node[1], tval, idx=indices())',
           'model._inputs._abs_set_val(node[1], sval, idx=indices())', 'C07.value'),
    Mutant('value-input-gets-raw', CG, 'model._inputs._abs_set_val(node[1], tval)\n',
           'model._inputs._abs_set_val(node[1], val)\n', 'C07.value'),
    Mutant('value-scalar-source-raw', CG, '                srcval = sval\n\n            model._outputs',
           '                srcval = val\n\n            model._outputs', 'C07.value'),
    Mutant('names-prefix-without-dot', CG, "            prefix = pathname + '.'\n            if varname.startswith(prefix):",
           "            if varname.startswith(pathname):", 'C07.names'),
    Mutant('names-join-without-dot', CG, "                name = pathname + '.' + varname\n        else:\n            name = varname\n\n        if io is None:",
           "                name = pathname + varname\n        else:\n            name = varname\n\n        if io is None:", 'C07.names'),
    Mutant('names-branches-swapped', CG, "            if varname.startswith(prefix):\n                name = varname",
           "            if not varname.startswith(prefix):\n                name = varname", 'C07.names'),
    Twin('twin-names-flipped', CG,
         "            if varname.startswith(prefix):\n                name = varname\n            else:\n"
         "                name = pathname + '.' + varname\n",
         "            if not varname.startswith(pathname + '.'):\n                name = prefix + varname\n"
         "            else:\n                name = varname\n"),
    Twin('twin-value-input-inline', CG, 'model._inputs._abs_set_val(node[1], tval, idx=indices())',
         'mirrored = tval\n                    model._inputs._abs_set_val(node[1], mirrored, idx=indices())'),
    # ---- robustness round 2: newly accepted shapes, and the obligation broken inside each shape
    Twin('twin-wb-parallel-assign', CG, _WB,
         "            prev, sub = chain[i], chain[i + 1]\n            if sub.base is not prev:\n"
         "                indices_list[i].indexed_val_set(prev, sub)"),
    Mutant('wb-parallel-assign-swapped', CG, _WB,
           "            prev, sub = chain[i + 1], chain[i]\n            if sub.base is not prev:\n"
           "                indices_list[i].indexed_val_set(prev, sub)", 'C07.writeback'),
    Mutant('wb-parallel-assign-guard-none', CG, _WB,
           "            prev, sub = chain[i], chain[i + 1]\n            if sub.base is None:\n"
           "                indices_list[i].indexed_val_set(prev, sub)", 'C07.writeback'),
    Twin('twin-names-default-then-override', CG, _FINDNODE,
         "        name = varname\n        if pathname:\n            prefix = pathname + '.'\n"
         "            if not varname.startswith(prefix):\n                name = prefix + varname\n"),
    Mutant('names-default-override-inverted', CG, _FINDNODE,
           "        name = varname\n        if pathname:\n            prefix = pathname + '.'\n"
           "            if varname.startswith(prefix):\n                name = prefix + varname\n", 'C07.names'),
    Mutant('names-default-override-no-dot', CG, _FINDNODE,
           "        name = varname\n        if pathname:\n"
           "            if not varname.startswith(pathname):\n                name = pathname + '.' + varname\n",
           'C07.names'),
    Twin('twin-units-derived-local', CG, _GETUNITS,
         "            from_units = tgt_units if src_units is None else src_units\n\n"
         "            if from_units != units:\n                try:\n"
         "                    scale, offset = unit_conversion(from_units, units)\n"),
    Twin('twin-units-derived-local-or', CG, _GETUNITS,
         "            from_units = src_units or tgt_units\n\n"
         "            if from_units != units:\n                try:\n"
         "                    scale, offset = unit_conversion(from_units, units)\n"),
    Mutant('units-derived-local-swapped', CG, _GETUNITS,
           "            from_units = tgt_units if src_units is None else src_units\n\n"
           "            if from_units != units:\n                try:\n"
           "                    scale, offset = unit_conversion(units, from_units)\n", 'C07.units'),
    Mutant('units-derived-local-wrong-choice', CG, _GETUNITS,
           "            from_units = src_units if src_units is None else tgt_units\n\n"
           "            if from_units != units:\n                try:\n"
           "                    scale, offset = unit_conversion(from_units, units)\n", 'C07.units'),
    Twin('twin-units-set-early-returns', CG, _SETUNITS,
         "        if units is None:\n            units = tgt_units\n            if units is None:\n                return val\n\n"
         "        if src_units is None:\n            raise TypeError('no source units')\n"
         "        if src_units == units:\n            return val\n\n"
         "        scale, offset = unit_conversion(units, src_units)\n\n        return (val + offset) * scale\n"),
    Mutant('units-set-early-returns-swapped', CG, _SETUNITS,
           "        if units is None:\n            units = tgt_units\n            if units is None:\n                return val\n\n"
           "        if src_units is None:\n            raise TypeError('no source units')\n"
           "        if src_units == units:\n            return val\n\n"
           "        scale, offset = unit_conversion(src_units, units)\n\n        return (val + offset) * scale\n",
           'C07.units'),
    # ---- robustness round 3: input mirror extracted into a helper method
    Twin('twin-value-helper-extracted', CG, _ABSIN, _ABSIN_CALL, also=[(CG, _TREEDEF, _helper('tval', 'tval'))]),
    Mutant('value-helper-writes-raw', CG, _ABSIN, _ABSIN_CALL, 'C07.value',
           also=[(CG, _TREEDEF, _helper('tval', 'val'))]),
    Mutant('value-helper-called-with-source-units', CG, _ABSIN,
           "                self._set_abs_input_val(system, model, node, val, src_units, units, indices)\n", 'C07.value',
           also=[(CG, _TREEDEF, _helper('tval', 'tval'))]),
    # ---- twins
    Twin('twin-units-flip-compare', CG, '            if src_units != units:', '            if units != src_units:'),
    Twin('twin-units-commuted-formula', CG, 'return (val + offset) * scale', 'return scale * (offset + val)', nth=1),
    Twin('twin-units-temp', CG, '                return (val + offset) * scale\n\n        return val\n\n    def convert_set',
         '                val = (val + offset) * scale\n                return val\n\n        return val\n\n    def convert_set'),
    Twin('twin-units-renamed-tuple', CG, "                    scale, offset = unit_conversion(units, src_units)\n"
         "                except Exception:\n                    raise TypeError(f\"Can't express value with units of '{src_units}' in units of \"\n"
         "                                    f\"'{units}'.\")\n\n                return (val + offset) * scale",
         "                    fac, off = unit_conversion(units, src_units)\n"
         "                except Exception:\n                    raise TypeError(f\"Can't express value with units of '{src_units}' in units of \"\n"
         "                                    f\"'{units}'.\")\n\n                return (val + off) * fac"),
    Twin('twin-slots-keywords', SYS, _SYSGET,
         "            val = conn_graph.get_val(self, name, units=units, indices=indices, get_remote=get_remote,\n"
         "                                rank=rank, vec_name=vec_name, kind=kind, flat=flat, from_src=from_src)"),
    Twin('twin-slots-local-alias', PROB, '        self.model.set_val(name, val, units=units, indices=indices)',
         '        model = self.model\n        idxs = indices\n        model.set_val(name, val, units=units, indices=idxs)'),
    Twin('twin-order-flipped-if', CG, _INDS,
         "        if indices is not None:\n            if not isinstance(indices, Indexer):\n"
         "                indices = indexer(indices)\n            inds = [*tgt_inds_list, indices]\n"
         "        else:\n            inds = tgt_inds_list\n"),
    Twin('twin-wb-reversed-range', CG, 'for i in range(len(chain) - 2, -1, -1):',
         'for i in reversed(range(len(chain) - 1)):'),
    Twin('twin-wb-range-over-indices', CG, 'for i in range(len(chain) - 2, -1, -1):',
         'for i in range(len(indices_list) - 1, -1, -1):'),
    Twin('twin-wb-renamed-inline', CG, _WB,
         "            child = chain[i + 1]\n            parent = chain[i]\n"
         "            if child.base is not parent:\n                indices_list[i].indexed_val_set(parent, child)"),
    Twin('twin-wb-guard-flipped', CG, _WB,
         "            sub = chain[i + 1]\n            prev = chain[i]\n            idx = indices_list[i]\n"
         "            if sub.base is prev:\n                continue\n            else:\n"
         "                idx.indexed_val_set(prev, sub)"),
    Twin('twin-store-flat-read-too', IDX, 'return arr.ravel()[self.flat()]', 'return arr.flat[self.flat()]'),
    Twin('twin-phase-get-flipped', CG, _USEVEC,
         "        if not use_vec:\n            val = src_meta.val\n        else:\n"
         "            val = system._abs_get_val(src_node[1], get_remote, rank, vec_name, kind, flat,\n"
         "                                      from_root=True)\n"),
    Twin('twin-phase-carry-flipped', GRP, _CARRY,
         "                if not node_meta.discrete:\n                    self._outputs.set_var(name, node_meta.val)\n"
         "                else:\n                    self._discrete_outputs[name] = node_meta.val\n"),
)


# --------------------------------------------------------------------------- C07.resolve
def _guard_conds(stmt, stop):
    """[(test, required truth)] of the enclosing ifs of stmt up to (excluding) `stop`; None if other
    compound statements than if/try intervene."""
    conds = []
    for anc in astx.ancestors(stmt):
        if anc is stop:
            break
        if isinstance(anc, ast.If):
            if astx.in_body(stmt, anc, 'body'):
                conds.append((anc.test, True))
            elif astx.in_body(stmt, anc, 'orelse'):
                conds.append((anc.test, False))
        elif isinstance(anc, (ast.Try, ast.ExceptHandler)):
            continue
        elif isinstance(anc, (ast.For, ast.While, ast.With)):
            conds.append((None, None))
    return conds


@rule('C07.resolve', floor=1)
def resolve(repo, out):
    """The second connection-resolution pass (final_setup) does not overwrite a source value set by set_val."""
    fn = repo.func(CG, 'AllConnGraph.resolve_from_children')
    tg = Tagger(fn)
    IRRELEVANT = {'ambig_val', 'val', 'discrete', 'ambig_units'}

    def ev(t, env):
        """Evaluate guard t with env = dict(F=first pass, N=existing value is None, A=node is an auto_ivc)."""
        if isinstance(t, ast.UnaryOp) and isinstance(t.op, ast.Not):
            return not ev(t.operand, env)
        if isinstance(t, ast.BoolOp):
            vs = [ev(v, env) for v in t.values]
            return all(vs) if isinstance(t.op, ast.And) else any(vs)
        tt = tg.tags(t, tg.at(t)) if not isinstance(t, (ast.Compare,)) else set()
        if tt and tt <= {'param:self._first_pass'}:
            return env['F']
        if isinstance(t, ast.Call) and astx.callee_attr(t) == 'startswith' and t.args and \
                astx.const_str(t.args[0]) == '_auto_ivc.':
            return env['A']
        if isinstance(t, ast.Compare) and len(t.ops) == 1 and isinstance(t.ops[0], (ast.Is, ast.IsNot)) and \
                isinstance(t.comparators[0], ast.Constant) and t.comparators[0].value is None:
            lt = tg.tags(t.left, tg.at(t))
            if lt <= {meta('param:node') + '.val', meta('param:node') + '._val'}:
                return env['N'] if isinstance(t.ops[0], ast.Is) else not env['N']
            if isinstance(t.left, ast.Name) and t.left.id in IRRELEVANT:
                return isinstance(t.ops[0], ast.IsNot)      # the new value exists
        if isinstance(t, ast.Name) and t.id in IRRELEVANT:
            return False                                   # no ambiguity
        raise _Unknown(t, f'guard `{astx.src(t)}` not recognised')

    stores = []
    for st in astx.walk_stmts(fn.node.body):
        if isinstance(st, ast.Assign) and len(st.targets) == 1 and isinstance(st.targets[0], ast.Attribute) \
                and st.targets[0].attr in ('val', '_val') and \
                tg.tags(st.targets[0].value, tg.at(st)) == {meta('param:node')}:
            org = _origins(tg, st.value, tg.at(st))
            from_children = all(isinstance(o, ast.Call) and (
                astx.callee_attr(o) == 'get_val_from_children' or
                (astx.callee_attr(o) == 'deepcopy' and o.args and all(
                    isinstance(o2, ast.Call) and astx.callee_attr(o2) == 'get_val_from_children'
                    for o2, _ in _origins(tg, o.args[0], n)))) for o, n in org)
            if from_children:
                stores.append(st)
    if not stores:
        raise AnalysisError(f'{fn.ident}: store of the value derived from the children not found')
    # call sites: is the function only run on the first pass?
    caller = repo.func(CG, 'AllConnGraph.resolve_conn_tree')
    tc = Tagger(caller)
    callers_first_only = True
    for c in calls_named(caller, 'resolve_from_children'):
        conds = _guard_conds(astx.stmt_of(c), caller.node)
        prot = False
        for t, want in conds:
            if t is None:
                continue
            tt = tc.tags(t, tc.at(t)) if isinstance(t, (ast.Name, ast.Attribute)) else set()
            if tt and tt <= {'param:self._first_pass'} and want:
                prot = True
        callers_first_only &= prot
    n_src = 0
    for st in stores:
        conds = _guard_conds(st, fn.node)
        try:
            if any(t is None for t, _ in conds):
                raise _Unknown(st, 'store inside a loop/with')
            runs = all(ev(t, dict(F=False, N=False, A=True)) == want for t, want in conds)
        except _Unknown as u:
            out.unsure(fn, st, u.why)
            continue
        if not runs:
            reach_auto = None
            try:
                reach_auto = any(all(ev(t, dict(F=f, N=n_, A=True)) == want for t, want in conds)
                                 for f in (True, False) for n_ in (True, False))
            except _Unknown:
                pass
            if reach_auto:
                n_src += 1
                out.ok(fn, st, 'source value is only derived from children on the first pass or when still unset')
            continue
        n_src += 1
        if callers_first_only:
            out.ok(fn, st, 'resolve_conn_tree calls resolve_from_children on the first pass only')
        else:
            out.bad(fn, st, 'on the second resolution pass (Group._setup_part2 -> update_all_node_meta, run for every '
                    'connection tree with a shape_by_conn/copy_shape node) the value of the auto_ivc source is '
                    're-derived from the children / set_input_defaults and overwrites what set_val stored after '
                    'setup(): the value is silently lost at final_setup (guard with `self._first_pass or '
                    'node_meta.val is None`)', key='second-pass-overwrite')
    if n_src == 0:
        out.unsure(fn, stores[0], 'no store that can reach an auto_ivc source recognised')
