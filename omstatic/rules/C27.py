"""C27 -- option declarations are enforced and temporary values always restored.

Anchors: openmdao/utils/options_dictionary.py : OptionsDictionary._assert_valid / __setitem__ /
declare / _handle_deprecation / temporary.  Everything is decided from the AST:

* C27.valid      truth table of `_assert_valid` against the declaration semantics
* C27.guard      `__setitem__`: undeclared / read-only raise, validation dominates the store, nothing
                 is stored on a path that raises, alias replaces (name, meta) together
* C27.declare    `declare`: slot table of the entry, a provided default is validated
* C27.temporary  PAIR: setup saves before it sets, restore is reachable on both exits of `yield`,
                 pops what was pushed, cache bookkeeping guards
* C27.entry      a failure inside the setup loop of `temporary` rolls back what was already set
* C27.who        only `__setitem__` stores option values; `set`/`update` route through it
* C27.ctx-all    (thorough) no @contextmanager restores state only on the normal exit of `yield`
"""
import ast
import itertools

from .. import astx, cfg as cfgm
from ..core import AnalysisError
from ..engine import rule, describe, selftest, Mutant, Twin

OD = 'openmdao/utils/options_dictionary.py'
CLS = 'OptionsDictionary'

describe('C27',
         'Decides for OptionsDictionary: (valid) the accept/reject decision of _assert_valid equals the '
         'declaration semantics (allow_none skip, values membership elementwise for list options, '
         'isinstance for types, value > upper, value < lower, check_valid always) by exhaustive '
         'evaluation of its CFG over an abstract domain of ~2500 states; (guard) __setitem__ raises for '
         'undeclared and read-only, _assert_valid(name, value) dominates the store of the same value '
         'into the same entry (alias replaces name and meta together), nothing is stored on a raising '
         'path; (declare) the entry stores each declaration argument in its own slot and validates a '
         'provided default; (temporary) the current value is saved before the temporary one is set, '
         'once per option, the restore loop is reachable from the normal and the exceptional successor '
         'of yield, pops LIFO from the same cache over the same keys, cache entries are initialised '
         'only when absent and dropped only when empty; (entry) a failure during setup rolls back; '
         '(who) no other method writes option values.  Does not decide what user check_valid / '
         'set_function callables do.',
         ['user-supplied check_valid and set_function are opaque',
          'membership of a list-valued option is modelled with one-element lists',
          'states with value None, allow_none False and a declared bound are unspecified (TypeError) '
          'and skipped'])


# --------------------------------------------------------------------------- shared helpers
def _methods(repo):
    m = repo.module(OD)
    out = {}
    for qn, f in m.funcs.items():
        if qn.startswith(CLS + '.') and qn.count('.') == 1:
            out[qn.split('.', 1)[1]] = f
    if not out:
        raise AnalysisError(f'{OD}: class {CLS} has no methods')
    return out


def _has_yield(fnode):
    return any(isinstance(w, (ast.Yield, ast.YieldFrom)) for w in astx.walk(fnode))


def _self_call_stmt(n, names):
    """CFG node is an expression statement `self.<m>(...)` with m in names."""
    if n.kind != 'stmt' or not isinstance(n.ast, ast.Expr) or not isinstance(n.ast.value, ast.Call):
        return False
    c = n.ast.value
    return astx.path(astx.receiver(c)) == 'self' and astx.callee_attr(c) in names


def _stops(g, names):
    return [n for n in g.nodes if _self_call_stmt(n, names)]


def _noreturn(repo):
    """Names of OptionsDictionary methods that cannot return normally (resolved, not assumed)."""
    cached = getattr(repo, '_c27_noreturn', None)
    if cached is not None:
        return cached
    meths = _methods(repo)
    names = set()
    graphs = {}
    changed = True
    while changed:
        changed = False
        for nm, f in meths.items():
            if nm in names or _has_yield(f.node):
                continue
            g = graphs.get(nm)
            if g is None:
                g = graphs[nm] = cfgm.build(f)
            if g.path([g.entry], [g.exit], avoid=_stops(g, names), labels=cfgm.noexc) is None:
                names.add(nm)
                changed = True
    repo._c27_noreturn = names
    return names


def _npath(g, stops, starts, targets, avoid=()):
    """Witness path along normal edges that does not run through a never-returning call."""
    return g.path(starts, targets, avoid=set(avoid) | set(stops), labels=cfgm.noexc)


def _key_store(st, keys):
    """Targets `<base>['k']` (k in keys) written by a simple statement -> list of (base expr, k)."""
    out = []
    if isinstance(st, (ast.Assign, ast.AugAssign, ast.AnnAssign, ast.Delete)):
        for t in astx.assigned_targets(st):
            if isinstance(t, ast.Subscript):
                k = astx.const_str(t.slice)
                if k in keys:
                    out.append((t.value, k))
    return out


# --------------------------------------------------------------------------- C27.valid
class _Unknown(Exception):
    def __init__(self, node, why=''):
        self.node, self.why = node, why


class _Mismatch(Exception):
    def __init__(self, node, why):
        self.node, self.why = node, why


class _Need(Exception):
    def __init__(self, key):
        self.key = key


_CMP = {'lt': {'<': True, '<=': True, '>': False, '>=': False},
        'eq': {'<': False, '<=': True, '>': False, '>=': True},
        'gt': {'<': False, '<=': False, '>': True, '>=': True}}
_OPS = {ast.Lt: '<', ast.LtE: '<=', ast.Gt: '>', ast.GtE: '>='}
_SWAP = {'<': '>', '<=': '>=', '>': '<', '>=': '<='}
_FLAG = {'decl:values': 'V', 'decl:types': 'T', 'decl:upper': 'U', 'decl:lower': 'Lo',
         'decl:check_valid': 'C'}


def _states():
    for N, A in itertools.product((False, True), repeat=2):
        for V, Vin in ((False, False), (True, False), (True, True)):
            for T, L, Tin in ((False, False, False), (True, False, False), (True, False, True),
                              (True, True, False), (True, True, True)):
                for U, ru in ((False, None), (True, 'lt'), (True, 'eq'), (True, 'gt')):
                    for Lo, rl in ((False, None), (True, 'lt'), (True, 'eq'), (True, 'gt')):
                        if N and not A and (U or Lo):
                            continue   # None compared with a bound: unspecified
                        for C, CR in ((False, False), (True, False), (True, True)):
                            yield dict(N=N, A=A, V=V, Vin=Vin, T=T, L=L, Tin=Tin, U=U, ru=ru,
                                       Lo=Lo, rl=rl, C=C, CR=CR)


def _expected(s):
    """(reject?, reason) according to the declaration semantics."""
    if s['C'] and s['CR']:
        return True, 'check_valid raises'
    if s['N'] and s['A']:
        return False, 'None with allow_none'
    if s['V'] and not s['Vin']:
        return True, 'value not in values'
    if not s['V'] and s['T'] and not s['Tin']:
        return True, 'value not an instance of types'
    if s['U'] and s['ru'] == 'gt':
        return True, 'value > upper'
    if s['Lo'] and s['rl'] == 'lt':
        return True, 'value < lower'
    return False, 'declaration satisfied'


def _fmt_state(s):
    parts = ['value is None' if s['N'] else 'value not None', f"allow_none={s['A']}"]
    if s['V']:
        parts.append('values declared, value %s values' % ('in' if s['Vin'] else 'NOT in'))
    if s['T']:
        parts.append('types %s, isinstance=%s' % ('is list' if s['L'] else 'declared', s['Tin']))
    if s['U']:
        parts.append({'lt': 'value < upper', 'eq': 'value == upper', 'gt': 'value > upper'}[s['ru']])
    if s['Lo']:
        parts.append({'lt': 'value < lower', 'eq': 'value == lower', 'gt': 'value > lower'}[s['rl']])
    if s['C']:
        parts.append('check_valid %s' % ('raises' if s['CR'] else 'passes'))
    return '{' + '; '.join(parts) + '}'


class _Validity:
    """Abstract interpreter of `_assert_valid`."""

    def __init__(self, fn, noreturn):
        self.fn = fn
        self.g = cfgm.build(fn)
        a = fn.node.args
        if len(a.args) != 3 or a.vararg or a.kwarg:
            raise AnalysisError(f'{fn.ident}: expected signature (self, name, value)')
        self.p_name, self.p_value = a.args[1].arg, a.args[2].arg
        self.assigns = {}
        for st in astx.walk_stmts(fn.node.body):
            for t in astx.assigned_targets(st):
                if isinstance(t, ast.Name):
                    self.assigns.setdefault(t.id, []).append(st)
            for w in astx.walk(st) if not isinstance(st, (ast.If, ast.For, ast.While, ast.With, ast.Try)) else ():
                if isinstance(w, ast.NamedExpr):
                    self.assigns.setdefault(w.target.id, []).append(st)
        self.stops = set(_stops(self.g, noreturn))
        self._roles = {}
        self._keys = {}

    # roles ---------------------------------------------------------------
    def is_meta(self, e, depth=0):
        if isinstance(e, ast.Subscript) and astx.path(e.value) == 'self._dict':
            return self.role(e.slice, depth + 1) == 'name'
        if isinstance(e, ast.Name):
            v = self._single(e.id)
            return v is not None and self.is_meta(v, depth + 1)
        return False

    def _single(self, name):
        """Value of the only assignment to a local name, else None."""
        defs = self.assigns.get(name, [])
        if len(defs) == 1 and isinstance(defs[0], ast.Assign) and \
                all(isinstance(t, ast.Name) for t in defs[0].targets):
            return defs[0].value
        return None

    def role(self, e, depth=0):
        k = id(e)
        if k not in self._roles:
            self._roles[k] = self._role(e, depth)
        return self._roles[k]

    def _role(self, e, depth):
        if depth > 6:
            return None
        if isinstance(e, ast.Constant):
            return 'None' if e.value is None else None
        if isinstance(e, ast.Name):
            defs = self.assigns.get(e.id, [])
            if e.id == self.p_value:
                return 'value'          # reassignment is tracked per path (dirty flag)
            if e.id == self.p_name:
                return None if defs else 'name'
            if e.id == 'list' and not defs:
                return 'list'
            if len(defs) == 1 and isinstance(defs[0], ast.For) and defs[0].target is not None and \
                    isinstance(defs[0].target, ast.Name) and defs[0].target.id == e.id:
                return 'elem'
            v = self._single(e.id)
            if v is not None and not isinstance(v, ast.IfExp):
                return self.role(v, depth + 1)
            return None
        if isinstance(e, ast.Subscript):
            key = astx.const_str(e.slice)
            if key is not None and self.is_meta(e.value, depth + 1):
                return 'decl:' + key
            return None
        if isinstance(e, (ast.List, ast.Tuple)) and len(e.elts) == 1 and \
                self.role(e.elts[0], depth + 1) == 'value':
            return '[value]'
        return None

    # evaluation ----------------------------------------------------------
    def _use_value(self, e, dirty):
        if dirty:
            raise _Unknown(e, 'the value was rebound before this test')

    def ev(self, e, s, free, dirty):
        if isinstance(e, ast.BoolOp):
            isand = isinstance(e.op, ast.And)
            for v in e.values:
                b = self.ev(v, s, free, dirty)
                if isand and not b:
                    return False
                if not isand and b:
                    return True
            return isand
        if isinstance(e, ast.UnaryOp) and isinstance(e.op, ast.Not):
            return not self.ev(e.operand, s, free, dirty)
        if isinstance(e, ast.Constant):
            return bool(e.value)
        if isinstance(e, ast.Compare) and len(e.ops) == 1:
            op = type(e.ops[0])
            left, right = e.left, e.comparators[0]
            l, r = self.role(left), self.role(right)
            if op in (ast.Is, ast.IsNot, ast.Eq, ast.NotEq) and 'None' in (l, r) and (l, r) != ('None', 'None'):
                other = r if l == 'None' else l
                isnone = None
                if other == 'value':
                    self._use_value(e, dirty)
                    isnone = s['N']
                elif other in _FLAG:
                    isnone = not s[_FLAG[other]]
                if isnone is not None:
                    return isnone if op in (ast.Is, ast.Eq) else not isnone
            elif op in (ast.Is, ast.IsNot, ast.Eq, ast.NotEq) and {l, r} == {'decl:types', 'list'}:
                return s['L'] if op in (ast.Is, ast.Eq) else not s['L']
            elif op in _OPS and l is not None and r is not None:
                for bound, flag, rel in (('upper', 'U', 'ru'), ('lower', 'Lo', 'rl')):
                    if {l, r} == {'value', 'decl:' + bound}:
                        if not s[flag]:
                            raise _Mismatch(e, f'compares the value with `{bound}` on a path where '
                                               f'{bound} is not declared (None)')
                        self._use_value(e, dirty)
                        sym = _OPS[op] if l == 'value' else _SWAP[_OPS[op]]
                        return _CMP[s[rel]][sym]
                if 'value' in (l, r) or 'elem' in (l, r):
                    raise _Mismatch(e, f'orders {l} against {r}, which is not a bound')
            elif op in (ast.In, ast.NotIn) and r == 'decl:values' and l in ('elem', 'value'):
                if not s['V']:
                    raise _Mismatch(e, 'tests membership in `values` on a path where values is None')
                if l == 'value':
                    self._use_value(e, dirty)
                    if s['L']:
                        raise _Mismatch(e, 'a list-typed option is tested against `values` as a whole '
                                           'instead of element by element')
                return s['Vin'] if op is ast.In else not s['Vin']
            elif op in (ast.In, ast.NotIn) and l == 'decl:values' and r in ('elem', 'value'):
                raise _Mismatch(e, 'membership test has its operands swapped (values in value)')
        if isinstance(e, ast.Call) and astx.call_name(e) == 'isinstance' and len(e.args) == 2 and not e.keywords:
            l, r = self.role(e.args[0]), self.role(e.args[1])
            if (l, r) == ('value', 'decl:types'):
                if not s['T']:
                    raise _Mismatch(e, 'isinstance(value, types) on a path where types is None')
                self._use_value(e, dirty)
                return s['Tin']
            if (l, r) == ('decl:types', 'value'):
                raise _Mismatch(e, 'isinstance operands swapped')
        if self.role(e) == 'decl:allow_none':
            return s['A']
        key = self._keys.get(id(e))
        if key is None:
            key = self._keys[id(e)] = ast.dump(e, annotate_fields=False)
        if key in free:
            return free[key]
        raise _Need(key)

    def iter_role(self, e, s, free, dirty, depth=0):
        if depth > 6:
            return None
        if isinstance(e, ast.IfExp):
            b = self.ev(e.test, s, free, dirty)
            return self.iter_role(e.body if b else e.orelse, s, free, dirty, depth + 1)
        r = self.role(e)
        if r in ('value', '[value]'):
            return r
        if isinstance(e, ast.Name):
            v = self._single(e.id)
            if v is not None:
                return self.iter_role(v, s, free, dirty, depth + 1)
        return None

    # walker ----------------------------------------------------------------
    def outcomes(self, s):
        """List of (outcome, used_free_atoms) over all paths consistent with abstract state s."""
        g = self.g
        results = []
        budget = [4000]

        def follow(node, want, visits, dirty, free):
            nxt = [m for m, lab in g.succ[node] if lab != 'exc' and (want is None or lab == want)]
            if not nxt:
                raise _Unknown(node.ast, 'dead end in control flow')
            for m in nxt:
                go(m, visits, dirty, free)

        def go(node, visits, dirty, free):
            budget[0] -= 1
            if budget[0] < 0:
                raise _Unknown(node.ast, 'path budget exhausted')
            if node is g.exit:
                results.append(('accept', bool(free)))
                return
            if node is g.raise_exit or node in self.stops:
                results.append(('reject', bool(free)))
                return
            k = node.kind
            if k in ('join', 'entry'):
                return follow(node, None, visits, dirty, free)
            if k == 'stmt':
                a = node.ast
                if isinstance(a, ast.Raise):
                    results.append(('reject', bool(free)))
                    return
                if isinstance(a, ast.Expr) and isinstance(a.value, ast.Call) and \
                        self.role(a.value.func) == 'decl:check_valid':
                    c = a.value
                    if not s['C']:
                        raise _Mismatch(a, 'check_valid is called on a path where it is None')
                    roles = [self.role(x) for x in c.args]
                    if roles == ['value', 'name']:
                        raise _Mismatch(a, 'check_valid is called with (value, name) swapped')
                    if roles != ['name', 'value'] or c.keywords:
                        raise _Unknown(a, 'check_valid arguments not recognised')
                    self._use_value(a, dirty)
                    if s['CR']:
                        results.append(('reject', bool(free)))
                        return
                if any(isinstance(t, ast.Name) and t.id == self.p_value for t in astx.assigned_targets(a)):
                    dirty = True
                return follow(node, None, visits, dirty, free)
            if k == 'test':
                try:
                    v = self.ev(a_test(node), s, free, dirty)
                except _Need as nd:
                    for b in (False, True):
                        f2 = dict(free)
                        f2[nd.key] = b
                        go(node, visits, dirty, f2)
                    return
                return follow(node, 'true' if v else 'false', visits, dirty, free)
            if k == 'iter':
                a = node.ast
                if not isinstance(a.target, ast.Name):
                    raise _Unknown(a, 'loop target not a plain name')
                try:
                    r = self.iter_role(a.iter, s, free, dirty)
                except _Need as nd:
                    for b in (False, True):
                        f2 = dict(free)
                        f2[nd.key] = b
                        go(node, visits, dirty, f2)
                    return
                if r is None:
                    raise _Unknown(a, 'loop does not iterate over the value')
                if r == '[value]' and s['L']:
                    raise _Mismatch(a, 'types is list but the whole list is tested as one value')
                if r == 'value' and not s['L']:
                    raise _Mismatch(a, 'types is not list but the value itself is iterated')
                cnt = visits.get(node.id, 0)
                v2 = dict(visits)
                v2[node.id] = cnt + 1
                return follow(node, 'true' if cnt == 0 else 'false', v2, dirty, free)
            raise _Unknown(node.ast, f'unsupported construct ({k})')

        def a_test(node):
            return node.ast.test

        go(g.entry, {}, False, {})
        return results


@rule('C27.valid', floor=1)
def valid(repo, out):
    """_assert_valid rejects exactly when the declaration (allow_none, values, types, bounds, check_valid) is violated."""
    fn = repo.func(OD, f'{CLS}._assert_valid')
    v = _Validity(fn, _noreturn(repo))
    n = 0
    for s in _states():
        n += 1
        want, reason = _expected(s)
        try:
            res = v.outcomes(s)
        except _Mismatch as m:
            out.bad(fn, m.node, f'{m.why} in abstract state {_fmt_state(s)}', key='decision-structure')
            return
        except _Unknown as u:
            out.unsure(fn, u.node, f'not recognised: {u.why or astx.src(u.node)} in state {_fmt_state(s)}')
            return
        wrong = [r for r in res if (r[0] == 'reject') != want]
        if wrong:
            got = 'rejects' if want is False else 'accepts'
            why = (f'{got} the value although the declaration says "{reason}" in abstract state '
                   f'{_fmt_state(s)}')
            if any(not used for _, used in wrong) or len(wrong) == len(res):
                out.bad(fn, fn.node, why, key='decision-structure')
            else:
                out.unsure(fn, fn.node, why + ' (depends on an unrecognised condition)')
            return
    out.count('abstract_states', n)
    out.ok(fn, fn.node, f'accept/reject equals the declaration semantics on {n} abstract states')


# --------------------------------------------------------------------------- C27.guard
KNOWN_HELPERS = ('_raise', '_assert_valid', '_handle_deprecation')


def _deref(rd, at, e, depth=0):
    """Follow plain local names through their unique defining assignment: (expr, node)."""
    while isinstance(e, ast.Name) and depth < 4:
        ds = rd.defs(at, e.id)
        if len(ds) != 1:
            break
        d = next(iter(ds))
        if d.kind != 'stmt' or not isinstance(d.ast, ast.Assign) or len(d.ast.targets) != 1 or \
                not isinstance(d.ast.targets[0], ast.Name):
            break
        e, at, depth = d.ast.value, d, depth + 1
    return e, at


def _alias_unpacks(g, p_name):
    """Statements `<a>, <b> = self._handle_deprecation(...)` -> list of (node, target names, call)."""
    out = []
    for n in g.calling('_handle_deprecation', recv='self'):
        call = [c for c in n.calls() if astx.callee_attr(c) == '_handle_deprecation'][0]
        names = None
        if n.kind == 'stmt' and isinstance(n.ast, ast.Assign) and n.ast.value is call and \
                len(n.ast.targets) == 1 and isinstance(n.ast.targets[0], (ast.Tuple, ast.List)):
            names = [t.id if isinstance(t, ast.Name) else None for t in n.ast.targets[0].elts]
        out.append((n, names, call))
    return out


def _return_slots(repo):
    """Positions (name_pos, entry_pos) of the pair returned by _handle_deprecation, or None.

    An element is the entry if it denotes the entry parameter or the result of a `self._dict[...]` lookup.
    """
    f = repo.try_func(OD, f'{CLS}._handle_deprecation')
    if f is None or len(f.node.args.args) != 3:
        return None
    pn, pm = f.node.args.args[1].arg, f.node.args.args[2].arg
    g = cfgm.build(f)
    B = _Bind(g, cfgm.ReachingDefs(g), [], None, entry_params={pm: pn})
    slots = None
    for R in g.nodes:
        if R.kind != 'stmt' or not isinstance(R.ast, ast.Return):
            continue
        v = R.ast.value
        if not (isinstance(v, ast.Tuple) and len(v.elts) == 2):
            return None
        is_entry = []
        for x in v.elts:
            et = B.entry_tokens(x, R)
            is_entry.append(et is not None and all(t[0] in ('param', 'def') for t in et))
        if is_entry.count(True) != 1:
            return None
        cur = (is_entry.index(False), is_entry.index(True))
        if slots is not None and slots != cur:
            return 'conflict'
        slots = cur
    return slots


class _Bind:
    """Which *version* of the option name an expression denotes / an entry expression is indexed by.

    Tokens: ('param', x) the argument x as passed in; ('alias', id) the name returned by the alias
    resolution at unpack node id.  Wrong-kind tokens ('entry-as-name', ...), ('name-as-entry', ...),
    ('alias-entry-only', ...) never compare equal to a good one.  None = not recognised.
    """

    def __init__(self, g, rd, unpacks, slots, entry_params=None):
        self.g, self.rd, self.slots = g, rd, slots
        self.unpack = {n: names for n, names, _ in unpacks}
        self.entry_params = entry_params or {}   # parameter holding the entry of the option named by another one

    @staticmethod
    def def_value(d, var):
        """Expression assigned to local `var` by definition node d (simple or tuple-to-tuple assignment)."""
        if d.kind != 'stmt' or not isinstance(d.ast, ast.Assign):
            return None
        for t in d.ast.targets:
            if isinstance(t, ast.Name) and t.id == var:
                return d.ast.value
            if isinstance(t, (ast.Tuple, ast.List)) and isinstance(d.ast.value, (ast.Tuple, ast.List)) and \
                    len(t.elts) == len(d.ast.value.elts):
                for te, ve in zip(t.elts, d.ast.value.elts):
                    if isinstance(te, ast.Name) and te.id == var:
                        return ve
        return None

    def _walk(self, e, at, as_entry, depth):
        if depth > 6:
            return None
        if as_entry and isinstance(e, ast.Subscript) and astx.path(e.value) == 'self._dict':
            return self._walk(e.slice, at, False, depth + 1)
        if not isinstance(e, ast.Name):
            return None
        ds = self.rd.defs(at, e.id)
        if not ds:
            return None
        out = set()
        for d in ds:
            if d is self.g.entry:
                if as_entry:
                    out.add(('param', self.entry_params[e.id]) if e.id in self.entry_params
                            else ('not-an-entry', e.id))
                else:
                    out.add(('param', e.id))
                continue
            if d in self.unpack:
                names = self.unpack[d]
                if names is None or self.slots is None or len(names) != 2:
                    return None
                nm_t, en_t = names[self.slots[0]], names[self.slots[1]]
                if as_entry:
                    if en_t == e.id:
                        out.add(('alias', d.id) if nm_t not in (None, '_') and nm_t != en_t
                                else ('alias-entry-only', d.id))
                    elif nm_t == e.id:
                        out.add(('name-as-entry', d.id))
                    else:
                        return None
                else:
                    if nm_t == e.id and en_t != e.id:
                        out.add(('alias', d.id))
                    elif en_t == e.id:
                        out.add(('entry-as-name', d.id))
                    else:
                        return None
                continue
            v = self.def_value(d, e.id)
            sub = self._walk(v, d, as_entry, depth + 1) if v is not None else None
            if sub is None:
                if as_entry:
                    return None
                sub = {('def', d.id)}     # a name computed locally: its own version
            out |= sub
        return frozenset(out)

    def name_tokens(self, e, at):
        return self._walk(e, at, False, 0)

    def entry_tokens(self, e, at):
        return self._walk(e, at, True, 0)

    def entry_roots(self, e, at, depth=0):
        """Nodes where the entry denoted by e is looked up (`self._dict[...]` loads / alias unpacks), or None."""
        if depth > 6:
            return None
        if isinstance(e, ast.Subscript) and astx.path(e.value) == 'self._dict':
            return {('lookup', at, e)}
        if not isinstance(e, ast.Name):
            return None
        out = set()
        for d in self.rd.defs(at, e.id):
            if d in self.unpack:
                out.add(('unpack', d, None))
                continue
            v = self.def_value(d, e.id) if d is not self.g.entry else None
            sub = self.entry_roots(v, d, depth + 1) if v is not None else None
            if sub is None:
                return None
            out |= sub
        return out or None

    def describe(self, toks):
        if toks is None:
            return 'an unrecognised binding'
        parts = []
        for t in sorted(toks, key=str):
            if t[0] == 'param':
                parts.append(f'the name passed in (`{t[1]}`)')
            elif t[0] == 'alias':
                parts.append('the alias target returned by _handle_deprecation')
            elif t[0] == 'def':
                parts.append(f'the name computed by `{astx.src(self.g.nodes[t[1]].ast, 60)}`')
            else:
                parts.append(t[0].replace('-', ' '))
        return ' or '.join(parts)


@rule('C27.guard', floor=9)
def guard(repo, out):
    """__setitem__: undeclared/read-only raise; _assert_valid(name, value) dominates the store of that value into that entry; no store on a raising path."""
    nr = _noreturn(repo)
    meths = _methods(repo)
    # (0) _raise never returns
    fr = repo.func(OD, f'{CLS}._raise')
    if '_raise' in nr:
        out.ok(fr, fr.node, '_raise raises on every path')
    else:
        out.bad(fr, fr.node, '_raise can return normally: every rejection that relies on it falls through '
                'to the store', key='raise-returns')
    repo.func(OD, f'{CLS}._assert_valid')
    fn = repo.func(OD, f'{CLS}.__setitem__')
    a = fn.node.args.args
    if len(a) != 3:
        raise AnalysisError(f'{fn.ident}: expected signature (self, name, value)')
    p_name, p_value = a[1].arg, a[2].arg
    g = cfgm.build(fn)
    rd = cfgm.ReachingDefs(g)
    stops = _stops(g, nr)

    val_stores = [n for n in g.nodes if n.kind == 'stmt' and any(k == 'val' for _, k in _key_store(n.ast, ('val',)))]
    flag_stores = [n for n in g.nodes if n.kind == 'stmt' and _key_store(n.ast, ('has_been_set',))]
    if not val_stores:
        raise AnalysisError(f"{fn.ident}: no store to <meta>['val'] found")
    stores = val_stores + [n for n in flag_stores if n not in val_stores]
    unpacks = _alias_unpacks(g, p_name)
    unpack_nodes = {n for n, _, _ in unpacks}
    slots = _return_slots(repo)
    if slots == 'conflict':
        fh_ = repo.func(OD, f'{CLS}._handle_deprecation')
        out.bad(fh_, fh_.node, 'the return statements of _handle_deprecation disagree on the order of (name, entry): '
                'the caller unpacks an entry as the option name on some paths', key='alias-pair')
        slots = None
    B = _Bind(g, rd, unpacks, slots)

    def is_sf_call(dv, d):
        """dv is `<entry>['set_function'](..., <the assigned value>, ...)` (callee possibly through a local)."""
        if not isinstance(dv, ast.Call):
            return False
        df = _deref(rd, d, dv.func)[0]
        return isinstance(df, ast.Subscript) and astx.const_str(df.slice) == 'set_function' and \
            any(role(x, d) in ('value', 'processed') for x in dv.args)

    def role(e, at, depth=0):
        if isinstance(e, ast.Name) and depth < 4:
            ds = rd.defs(at, e.id)
            sf = [d for d in ds if d is not g.entry and is_sf_call(B.def_value(d, e.id), d)]
            if sf and all(d in sf or (d is g.entry and e.id == p_value) or
                          (d is not g.entry and B.def_value(d, e.id) is not None and
                           role(B.def_value(d, e.id), d, depth + 1) in ('value', 'processed')) for d in ds):
                return 'processed'
            toks = B.name_tokens(e, at)
            if toks:
                if all(t == ('param', p_name) or t[0] == 'alias' for t in toks):
                    return 'name'
                if toks == {('param', p_value)}:
                    return 'value'
                if any(t[0] == 'entry-as-name' for t in toks):
                    return 'entry'
        e2, at2 = _deref(rd, at, e)
        if isinstance(e2, ast.Constant):
            return 'const'
        if isinstance(e2, ast.Subscript) and astx.path(e2.value) == 'self._dict':
            return 'entry'
        if isinstance(e2, ast.Subscript) and astx.const_str(e2.slice) is not None:
            return 'entry-field'
        return None

    # (1) validation dominates the store, with the right operands
    validators = g.calling('_assert_valid', recv='self')
    S = val_stores[0]
    if not validators:
        out.bad(fn, S.ast, 'no call to self._assert_valid before the value is stored', key='validate-before-store')
    else:
        w = None
        for s_ in val_stores:
            w = w or _npath(g, stops, [g.entry], [s_], avoid=validators)
        if w is not None:
            out.bad(fn, S.ast, 'the value can be stored without passing self._assert_valid: ' + g.fmt_path(w),
                    key='validate-before-store')
        else:
            okv = True
            for V in validators:
                call = [c for c in V.calls() if astx.callee_attr(c) == '_assert_valid'][0]
                a0, a1 = astx.arg(call, 0, 'name'), astx.arg(call, 1, 'value')
                r0 = role(a0, V) if a0 is not None else None
                r1 = role(a1, V) if a1 is not None else None
                if (r0, r1) == ('name', 'value'):
                    continue
                okv = False
                if r0 == 'name' and r1 == 'processed':
                    out.bad(fn, V.ast, f'_assert_valid checks the result of set_function, not the value that was '
                            f'assigned: a value violating the declaration is accepted whenever set_function maps '
                            f'it to an admissible one (validate first, post-process afterwards)',
                            key='validate-operands')
                    continue
                if r0 in ('value', 'entry', 'const', 'entry-field') or r1 in ('name', 'entry', 'const', 'entry-field'):
                    out.bad(fn, V.ast, f'_assert_valid is not applied to (option name, new value): got '
                            f'({astx.src(a0)} [{r0 or "?"}], {astx.src(a1)} [{r1 or "?"}])', key='validate-operands')
                else:
                    out.unsure(fn, V.ast, 'arguments of _assert_valid not recognised')
            if okv:
                out.ok(fn, validators[0].ast, '_assert_valid(name, value) dominates the store')

    # (2) the stored value is the validated one (possibly passed through set_function)
    okst = True
    for s_ in val_stores:
        v = s_.ast.value if isinstance(s_.ast, ast.Assign) else None
        if v is None:
            out.unsure(fn, s_.ast, 'store form not recognised')
            okst = False
            continue
        r = role(v, s_)
        if r in ('value', 'processed'):
            continue
        okst = False
        if r in ('name', 'const', 'entry-field', 'entry'):
            out.bad(fn, s_.ast, f'stores {astx.src(v)} instead of the validated value', key='stored-value')
        else:
            out.unsure(fn, s_.ast, 'stored expression not recognised (the value is rebound before it is stored)')
    if okst:
        out.ok(fn, S.ast, 'the stored value is the validated argument (optionally through set_function)')

    # (3) nothing is stored on a path that still can raise
    w = None
    for s_ in stores:
        w = w or g.path(g.normal_succ(s_), [g.raise_exit] + stops)
    if w is not None:
        out.bad(fn, w[0].ast if w else S.ast, 'after the store the assignment can still be rejected, the new '
                'value stays: ' + g.fmt_path(w), key='store-before-reject')
    else:
        out.ok(fn, S.ast, 'no raising statement is reachable after the first store')

    # (4) entry binding: the written entry is looked up with self._dict[<name>]; undeclared raises
    store_bases = []      # (store node, base expression)
    for s_ in stores:
        for b_, _ in _key_store(s_.ast, ('val', 'has_been_set')):
            store_bases.append((s_, b_))
    roots, okb = set(), True
    for s_, b_ in store_bases:
        r = B.entry_roots(b_, s_)
        if r is None:
            out.unsure(fn, s_.ast, f'the entry `{astx.src(b_)}` is not bound by a `self._dict[...]` lookup')
            okb = False
            break
        roots |= r
    base = astx.path(store_bases[0][1]) if store_bases else None
    lookups = []
    if okb:
        for kind, d, e_ in roots:
            if kind != 'lookup':
                continue
            if role(e_.slice, d) != 'name':
                out.unsure(fn, d.ast if d.kind == 'stmt' else fn.node,
                           f'entry looked up with `{astx.src(e_.slice)}`, not with the option name')
                okb = False
            lookups.append(d)
    if okb:
        if not lookups:
            out.unsure(fn, S.ast, 'no `self._dict[name]` lookup binds the entry')
        else:
            w = None
            for D in lookups:
                handlers = [m for m, lab in g.succ[D] if lab == 'exc' and m.kind == 'except']
                for h in handlers:
                    w = w or _npath(g, stops, [h], [g.exit] + stores)
            if w is not None:
                out.bad(fn, w[0].ast, 'assigning an undeclared option does not raise: ' + g.fmt_path(w),
                        key='undeclared-accepted')
            else:
                out.ok(fn, lookups[0].ast, 'an undeclared name raises (KeyError handler never completes normally)')

    # (5) read-only
    tests = []
    odd = None
    for n in g.nodes:
        if n.kind != 'test' or not isinstance(n.ast, ast.If):
            continue
        t, neg = n.ast.test, False
        while isinstance(t, ast.UnaryOp) and isinstance(t.op, ast.Not):
            t, neg = t.operand, not neg
        t2, _ = _deref(rd, n, t)
        if astx.path(t2) == 'self._read_only':
            tests.append((n, 'false' if neg else 'true'))
        elif astx.mentions(n.ast.test, '_read_only'):
            odd = n
    if odd is not None:
        out.unsure(fn, odd.ast, 'read-only test form not recognised')
    elif not tests:
        others = [c for n in g.nodes for c in n.calls() if astx.path(astx.receiver(c)) == 'self' and
                  astx.callee_attr(c) not in KNOWN_HELPERS]
        if others:
            out.unsure(fn, fn.node, 'no read-only test; unknown helper calls present')
        else:
            out.bad(fn, fn.node, 'self._read_only is never tested: a read-only dictionary accepts assignments',
                    key='read-only-guard')
    else:
        w = None
        for n, lab in tests:
            w = w or _npath(g, stops, [m for m, l2 in g.succ[n] if l2 == lab], [g.exit] + stores)
        if w is not None:
            out.bad(fn, tests[0][0].ast, 'a read-only dictionary can still be assigned: ' + g.fmt_path(w),
                    key='read-only-guard')
        else:
            w = None
            for s_ in val_stores:
                w = w or _npath(g, stops, [g.entry], [s_], avoid=[n for n, _ in tests])
            if w is not None:
                out.bad(fn, tests[0][0].ast, 'the store is reachable without the read-only test: ' +
                        g.fmt_path(w), key='read-only-guard')
            else:
                out.ok(fn, tests[0][0].ast, 'read-only raises before validation and store')

    # (6) alias: name and entry are replaced together, for the option that was looked up
    if not unpacks:
        fd = meths.get('declare')
        if fd is not None and astx.mentions(fd.node, 'deprecation'):
            out.bad(fn, fn.node, 'deprecated options are declared but __setitem__ never resolves the alias',
                    key='alias-coherence')
    for n, names, call in unpacks:
        if slots is None:
            out.unsure(fn, n.ast, '_handle_deprecation return shape not recognised')
            continue
        if names is None or len(names) != 2:
            out.bad(fn, n.ast, 'the (name, entry) pair returned by _handle_deprecation is not unpacked: the '
                    'alias is not followed', key='alias-coherence')
            continue
        a0, a1 = astx.arg(call, 0, 'name'), astx.arg(call, 1, 'meta')
        nt = B.name_tokens(a0, n) if a0 is not None else None
        et = B.entry_tokens(a1, n) if a1 is not None else None
        if None in names or '_' in names or names[0] == names[1]:
            out.bad(fn, n.ast, f'alias resolution must rebind the option name and its entry together; found targets '
                    f'{names}: validation and store would use different options', key='alias-coherence')
        elif nt is not None and et is not None and nt == et and role(a0, n) == 'name':
            out.ok(fn, n.ast, 'alias replaces option name and entry together')
        elif a0 is not None and a1 is not None and B.entry_tokens(a0, n) is not None and \
                B.name_tokens(a1, n) is not None:
            out.bad(fn, n.ast, '_handle_deprecation is called with (entry, name) swapped', key='alias-coherence')
        elif nt is not None and et is not None:
            out.bad(fn, n.ast, f'the alias is resolved for {B.describe(nt)} but with the entry of {B.describe(et)}',
                    key='alias-coherence')
        else:
            out.unsure(fn, n.ast, 'arguments of _handle_deprecation not recognised')

    # (8) the declaration validated against is the declaration whose value is written
    if validators:
        vinfo = []
        for V in validators:
            call = [c for c in V.calls() if astx.callee_attr(c) == '_assert_valid'][0]
            a0 = astx.arg(call, 0, 'name')
            vinfo.append((V, B.name_tokens(a0, V) if a0 is not None else None))
        ok8, first = True, None
        for s_, b_ in store_bases:
            et = B.entry_tokens(b_, s_)
            match = [V for V, nt in vinfo if nt is not None and et is not None and nt == et]
            w = _npath(g, stops, [g.entry], [s_], avoid=match)
            if w is None:
                first = first or s_
                continue
            ok8 = False
            if et is None or any(nt is None for _, nt in vinfo):
                out.unsure(fn, s_.ast, 'cannot relate the validated option to the written entry')
            else:
                seen = ' / '.join(sorted({B.describe(nt) for _, nt in vinfo}))
                out.bad(fn, s_.ast, f'the value is validated against the declaration of {seen} but written into '
                        f'the entry of {B.describe(et)}: name/entry are rebound (alias resolution) between '
                        f'_assert_valid and the store, or a stale name/entry is used, so a value set through a '
                        f'deprecated alias is not checked against the option that receives it: ' + g.fmt_path(w),
                        key='validated-entry')
            break
        if ok8 and first is not None:
            out.ok(fn, first.ast, 'every store writes the entry of exactly the option version that was validated')

    # (7) _handle_deprecation returns the alias name together with the entry looked up under that very name
    fh = repo.func(OD, f'{CLS}._handle_deprecation')
    gh = cfgm.build(fh)
    rdh = cfgm.ReachingDefs(gh)
    hstops = _stops(gh, nr)
    ah = fh.node.args.args
    if slots is None or len(ah) != 3:
        out.unsure(fh, fh.node, 'return shape not recognised')
        return
    hn, hm = ah[1].arg, ah[2].arg
    Bh = _Bind(gh, rdh, [], None, entry_params={hm: hn})
    rets = [n for n in gh.nodes if n.kind == 'stmt' and isinstance(n.ast, ast.Return)]
    resolved, ok7 = False, True
    for R in rets:
        n_e, m_e = R.ast.value.elts[slots[0]], R.ast.value.elts[slots[1]]
        nt, et = Bh.name_tokens(n_e, R), Bh.entry_tokens(m_e, R)
        if nt is None or et is None:
            out.unsure(fh, R.ast, 'returned name/entry not recognised')
            ok7 = False
            break
        if nt != et:
            out.bad(fh, R.ast, f'returns {Bh.describe(nt)} together with the entry of {Bh.describe(et)}: '
                    'the caller validates against one option and stores into another', key='alias-pair')
            ok7 = False
            break
        if nt != {('param', hn)}:
            resolved = True
        # when the parameters themselves are rebound, both must be rebound on the same paths
        if isinstance(n_e, ast.Name) and isinstance(m_e, ast.Name) and (n_e.id, m_e.id) == (hn, hm):
            ndefs = rdh.defs(R, hn) - {gh.entry}
            mdefs = rdh.defs(R, hm) - {gh.entry}
            w = None
            for d in mdefs:
                w = w or _npath(gh, hstops, gh.normal_succ(d), [R], avoid=ndefs)
            for d in ndefs:
                if _npath(gh, hstops, [gh.entry], [d], avoid=mdefs) is not None:
                    w = w or _npath(gh, hstops, gh.normal_succ(d), [R], avoid=mdefs)
            if w is not None:
                out.bad(fh, w[0].ast, 'name and entry of the alias are not replaced together: ' + gh.fmt_path(w),
                        key='alias-pair')
                ok7 = False
                break
    if ok7 and not resolved:
        out.bad(fh, fh.node, 'the alias is never resolved: name and entry are returned unchanged', key='alias-pair')
    elif ok7:
        out.ok(fh, rets[-1].ast, f'every return ({len(rets)}) pairs a name with the entry looked up under that name')


# --------------------------------------------------------------------------- C27.declare
# entry key -> declare() argument that must be stored under it (the keyword IS the declaration)
SLOTS = {'val': 'default', 'values': 'values', 'types': 'types', 'upper': 'upper', 'lower': 'lower',
         'check_valid': 'check_valid', 'allow_none': 'allow_none', 'set_function': 'set_function',
         'deprecation': 'deprecation'}
READERS = ('_assert_valid', '__setitem__', '__getitem__', '_handle_deprecation')


def _is_provided_test(e, p_default, flip=False):
    """+1 if e is true exactly when a default was provided, -1 if exactly when not, else 0."""
    while isinstance(e, ast.UnaryOp) and isinstance(e.op, ast.Not):
        e, flip = e.operand, not flip
    if isinstance(e, ast.Compare) and len(e.ops) == 1 and isinstance(e.ops[0], (ast.Is, ast.IsNot, ast.Eq, ast.NotEq)):
        ids = {astx.path(e.left), astx.path(e.comparators[0])}
        if ids == {p_default, '_UNDEFINED'}:
            pos = isinstance(e.ops[0], (ast.IsNot, ast.NotEq))
            return 1 if pos != flip else -1
    return 0


@rule('C27.declare', floor=3)
def declare(repo, out):
    """declare: every declaration argument lands in its own slot of the entry and a provided default is validated against it."""
    nr = _noreturn(repo)
    fn = repo.func(OD, f'{CLS}.declare')
    g = cfgm.build(fn)
    rd = cfgm.ReachingDefs(g)
    stops = _stops(g, nr)
    params = [a.arg for a in fn.node.args.args + fn.node.args.kwonlyargs]
    if len(params) < 3 or 'default' not in params:
        raise AnalysisError(f'{fn.ident}: signature not recognised')
    p_name = params[1]
    entry_nodes = [n for n in g.nodes if n.kind == 'stmt' and isinstance(n.ast, ast.Assign) and
                   isinstance(n.ast.value, ast.Dict) and len(n.ast.targets) == 1 and
                   isinstance(n.ast.targets[0], ast.Subscript) and
                   astx.path(n.ast.targets[0].value) == 'self._dict']
    if len(entry_nodes) != 1:
        raise AnalysisError(f'{fn.ident}: expected one `self._dict[name] = {{...}}`, found {len(entry_nodes)}')
    E = entry_nodes[0]
    tgt = E.ast.targets[0]
    if not (isinstance(tgt.slice, ast.Name) and tgt.slice.id == p_name and rd.defs(E, p_name) == {g.entry}):
        out.bad(fn, E.ast, f'the entry is stored under {astx.src(tgt.slice)}, not under the declared name',
                key='entry-key')
    table = {}
    for k, v in zip(E.ast.value.keys, E.ast.value.values):
        ks = astx.const_str(k) if k is not None else None
        if ks is None:
            out.unsure(fn, E.ast, 'entry literal has a non-constant key')
            return
        table[ks] = v
    # slots
    bad_slot = False
    for k, want in SLOTS.items():
        if k not in table:
            out.bad(fn, E.ast, f"entry has no '{k}' slot", key=f'slot-{k}')
            bad_slot = True
            continue
        v = table[k]
        if isinstance(v, ast.Name) and v.id == want:
            continue
        bad_slot = True
        if isinstance(v, ast.Name) and v.id in params or isinstance(v, ast.Constant):
            out.bad(fn, E.ast, f"slot '{k}' stores {astx.src(v)} instead of the `{want}` argument",
                    key=f'slot-{k}')
        else:
            out.unsure(fn, E.ast, f"slot '{k}' stores {astx.src(v)}")
    # has_been_set <=> default provided
    hv = table.get('has_been_set')
    if hv is None:
        out.bad(fn, E.ast, "entry has no 'has_been_set' slot", key='slot-has_been_set')
        bad_slot = True
    else:
        e2, _ = _deref(rd, E, hv)
        sgn = _is_provided_test(e2, 'default')
        if sgn == 1:
            pass
        elif sgn == -1 or isinstance(e2, ast.Constant):
            out.bad(fn, E.ast, f"'has_been_set' is {astx.src(e2)}; it must be true exactly when a default "
                    'was provided', key='slot-has_been_set')
            bad_slot = True
        else:
            out.unsure(fn, E.ast, f"'has_been_set' value {astx.src(e2)} not recognised")
            bad_slot = True
    if not bad_slot:
        out.ok(fn, E.ast, f'{len(SLOTS) + 1} slots hold their own declaration argument')
    # schema: every field read from an entry exists
    missing = None
    nread = 0
    for mname in READERS:
        f = repo.try_func(OD, f'{CLS}.{mname}')
        if f is None:
            continue
        for w in astx.walk(f.node):
            if isinstance(w, ast.Subscript) and isinstance(w.ctx, ast.Load) and isinstance(w.value, ast.Name) \
                    and w.value.id == 'meta' and astx.const_str(w.slice) is not None:
                nread += 1
                if astx.const_str(w.slice) not in table:
                    missing = (f, w)
    if missing:
        out.bad(missing[0], missing[1], f"reads entry field {astx.src(missing[1].slice)} that declare() never "
                'creates', key='schema')
    else:
        out.count('entry_reads', nread)
        out.ok(fn, E.ast, f'all {nread} entry-field reads name a declared slot')
    # default validation
    if any(isinstance(t, ast.Name) and t.id == 'default' for n in g.nodes if n.kind == 'stmt'
           for t in astx.assigned_targets(n.ast)):
        out.unsure(fn, fn.node, '`default` is rebound inside declare')
        return
    validators = g.calling('_assert_valid', recv='self')
    good = []
    for V in validators:
        call = [c for c in V.calls() if astx.callee_attr(c) == '_assert_valid'][0]
        a0, a1 = astx.arg(call, 0, 'name'), astx.arg(call, 1, 'value')
        e1 = _deref(rd, V, a1)[0] if a1 is not None else None
        if isinstance(a0, ast.Name) and a0.id == p_name and isinstance(e1, ast.Name) and e1.id == 'default':
            good.append(V)
        elif isinstance(e1, ast.Name) and e1.id in params or isinstance(e1, ast.Constant) or \
                (isinstance(a0, ast.Name) and a0.id == 'default'):
            out.bad(fn, V.ast, f'_assert_valid is applied to ({astx.src(a0)}, {astx.src(a1)}) instead of '
                    f'({p_name}, default)', key='default-validated')
            return
        else:
            out.unsure(fn, V.ast, 'arguments of _assert_valid not recognised')
            return
    # search a normal path store -> exit that neither validates nor takes a "no default" edge
    from collections import deque
    avoid = set(good) | set(stops)
    dq = deque(m for m in g.normal_succ(E) if m not in avoid)
    par = {m: None for m in dq}
    leak = None
    while dq:
        n = dq.popleft()
        if n is g.exit:
            leak = n
            break
        sgn = 0
        if n.kind == 'test' and isinstance(n.ast, ast.If):
            sgn = _is_provided_test(_deref(rd, n, _strip_not(n.ast.test)[0])[0], 'default',
                                    flip=_strip_not(n.ast.test)[1])
        for m, lab in g.succ[n]:
            if lab == 'exc' or m in avoid or m in par:
                continue
            if sgn and lab == ('false' if sgn == 1 else 'true'):
                continue   # edge taken only when no default was provided
            par[m] = n
            dq.append(m)
    if leak is not None:
        p = []
        n = leak
        while n is not None:
            p.append(n)
            n = par[n]
        out.bad(fn, E.ast, 'a provided default is not validated against the new declaration: ' +
                g.fmt_path(p[::-1]), key='default-validated')
    elif not good:
        out.unsure(fn, E.ast, 'no validation of the default found')
    else:
        out.ok(fn, good[0].ast, 'every path with a provided default validates it after the entry is stored')


def _strip_not(e):
    neg = False
    while isinstance(e, ast.UnaryOp) and isinstance(e.op, ast.Not):
        e, neg = e.operand, not neg
    return e, neg


# --------------------------------------------------------------------------- C27.temporary
class _Temp:
    """Recognised pieces of OptionsDictionary.temporary."""

    def __init__(self, repo):
        fn = self.fn = repo.func(OD, f'{CLS}.temporary')
        if 'contextmanager' not in fn.decorators():
            raise AnalysisError(f'{fn.ident}: not a @contextmanager any more')
        if fn.node.args.kwarg is None:
            raise AnalysisError(f'{fn.ident}: no **kwargs parameter')
        self.kw = fn.node.args.kwarg.arg
        g = self.g = cfgm.build(fn)
        self.rd = cfgm.ReachingDefs(g)
        self.yields = [n for n in g.nodes if n.kind == 'stmt' and
                       any(isinstance(w, (ast.Yield, ast.YieldFrom)) for e in n.exprs() for w in astx.walk(e))]
        if not self.yields:
            raise AnalysisError(f'{fn.ident}: no yield')
        self.pre = g.reach([g.entry], avoid=self.yields)
        self.post = g.reach([m for y in self.yields for m, _ in g.succ[y]]) - set(self.yields)
        # hoisted attribute lookups: `cache = self._context_cache` (single assignment, attribute never rebound)
        assigned = {}
        for st in astx.walk_stmts(fn.node.body):
            for t in astx.assigned_targets(st):
                p_ = astx.path(t)
                if p_:
                    assigned.setdefault(p_, []).append(st)
        self.alias = {}
        for nm, sts in assigned.items():
            st = sts[0]
            if len(sts) == 1 and '.' not in nm and '[' not in nm and isinstance(st, ast.Assign) and \
                    len(st.targets) == 1 and isinstance(st.value, ast.Attribute):
                vp = astx.path(st.value)
                if vp and vp.startswith('self.') and '(' not in vp and '[' not in vp and vp not in assigned:
                    self.alias[nm] = vp
        self.kw_dirty = any(isinstance(t, ast.Name) and t.id == self.kw
                            for st in astx.walk_stmts(fn.node.body) for t in astx.assigned_targets(st)) or \
            any(astx.path(astx.receiver(c)) == self.kw and astx.callee_attr(c) in
                ('pop', 'popitem', 'clear', 'update', 'setdefault') for c in astx.calls(fn.node))

    def loops(self, region):
        seen, out = set(), []
        for n in self.g.nodes:
            if n.kind == 'iter' and n in region and id(n.ast) not in seen:
                seen.add(id(n.ast))
                out.append(n.ast)
        return out

    def key_of_iter(self, loop):
        """(key var, value var or None) if the loop runs over the options given in **kwargs."""
        it, tg = _strip_iter(loop.iter), loop.target
        if isinstance(it, ast.Call) and astx.call_name(it) == 'sorted' and len(it.args) == 1 and not it.keywords:
            it = _strip_iter(it.args[0])
        if isinstance(it, ast.Name) and it.id == self.kw and isinstance(tg, ast.Name):
            return tg.id, None
        if isinstance(it, ast.Call) and astx.path(astx.receiver(it)) == self.kw and not it.args:
            m = astx.callee_attr(it)
            if m == 'keys' and isinstance(tg, ast.Name):
                return tg.id, None
            if m == 'items' and isinstance(tg, ast.Tuple) and len(tg.elts) == 2 and \
                    all(isinstance(x, ast.Name) for x in tg.elts):
                return tg.elts[0].id, tg.elts[1].id
        return None

    @staticmethod
    def self_item(e, key):
        return isinstance(e, ast.Subscript) and isinstance(e.value, ast.Name) and e.value.id == 'self' and \
            isinstance(e.slice, ast.Name) and e.slice.id == key

    def path(self, e):
        """Access path with a leading hoisted alias replaced by the attribute it stands for."""
        p_ = astx.path(e)
        if p_ is None:
            return None
        head = p_.split('.', 1)[0].split('[', 1)[0]
        if head in self.alias:
            return self.alias[head] + p_[len(head):]
        return p_

    def cache_item(self, e, key):
        """path of C if e is `C[key]` (or `C.setdefault(key, [])`), else None."""
        if isinstance(e, ast.Subscript) and isinstance(e.slice, ast.Name) and e.slice.id == key:
            return self.path(e.value)
        if isinstance(e, ast.Call) and astx.callee_attr(e) == 'setdefault' and len(e.args) == 2 and \
                isinstance(e.args[0], ast.Name) and e.args[0].id == key and \
                isinstance(e.args[1], ast.List) and not e.args[1].elts:
            return self.path(astx.receiver(e))
        return None

    def stack_of(self, e, key, at, depth=0):
        """Cache path C if e denotes the per-option stack `C[key]`, directly or through a local alias whose every
        definition is `x = C[key]`, `x = C.setdefault(key, [])` or the chained `C[key] = x = []`; else None."""
        cp = self.cache_item(e, key)
        if cp is not None or not isinstance(e, ast.Name) or depth > 3:
            return cp
        paths = set()
        for d in self.rd.defs(at, e.id):
            a = d.ast if d.kind == 'stmt' else None
            if not isinstance(a, ast.Assign) or not any(isinstance(t, ast.Name) and t.id == e.id for t in a.targets):
                return None
            cp = self.stack_of(a.value, key, d, depth + 1)
            if cp is None and isinstance(a.value, ast.List) and not a.value.elts:
                others = {self.cache_item(t, key) for t in a.targets if isinstance(t, ast.Subscript)}
                cp = next(iter(others)) if len(others) == 1 else None
            if cp is None:
                return None
            paths.add(cp)
        return next(iter(paths)) if len(paths) == 1 else None

    def temp_value(self, e, key, val, at=None):
        """True if e denotes the requested temporary value of option `key`: the items() value var or kwargs[key]
        (possibly through a local that holds it)."""
        if isinstance(e, ast.Name):
            if val is not None and e.id == val:
                return True
            if at is None:
                return False
            e2, at2 = _deref(self.rd, at, e)
            return e2 is not e and self.temp_value(e2, key, val, at2)
        return isinstance(e, ast.Subscript) and isinstance(e.value, ast.Name) and e.value.id == self.kw and \
            isinstance(e.slice, ast.Name) and e.slice.id == key

    def body_nodes(self, loop):
        return [n for n in self.g.body_nodes(loop)]


def _empty_guard(T, at, test, cache, key):
    """Truth of `test` as a function of the stack length (0,1,2) or None if not evaluable."""
    def stack(e):
        e = _deref(T.rd, at, e)[0]
        return isinstance(e, ast.Subscript) and T.cache_item(e, key) == cache

    def ev(e, n):
        if isinstance(e, ast.UnaryOp) and isinstance(e.op, ast.Not):
            return not ev(e.operand, n)
        if isinstance(e, ast.Call) and astx.call_name(e) == 'len' and len(e.args) == 1 and stack(e.args[0]):
            return n
        if isinstance(e, (ast.Subscript, ast.Name)) and stack(e):
            return n   # truthiness of the list
        if isinstance(e, ast.Constant) and isinstance(e.value, int):
            return e.value
        if isinstance(e, ast.Compare) and len(e.ops) == 1:
            a, b = ev(e.left, n), ev(e.comparators[0], n)
            op = type(e.ops[0])
            fn = {ast.Eq: lambda x, y: x == y, ast.NotEq: lambda x, y: x != y, ast.Lt: lambda x, y: x < y,
                  ast.LtE: lambda x, y: x <= y, ast.Gt: lambda x, y: x > y, ast.GtE: lambda x, y: x >= y}.get(op)
            if fn is None:
                raise ValueError
            return fn(a, b)
        raise ValueError
    try:
        return [bool(ev(test, n)) for n in (0, 1, 2)]
    except ValueError:
        return None


def _branch_of(stmt, loop):
    """(If, taken-branch) of the innermost `if` between stmt and loop, or (None, None) if unconditional."""
    cur = stmt
    while cur is not None and cur is not loop:
        par = getattr(cur, '_parent', None)
        if isinstance(par, ast.If):
            return par, ('body' if cur in par.body else 'orelse')
        if isinstance(par, (ast.Try, ast.With, ast.For, ast.While)) and par is not loop:
            return par, None
        cur = par
    return None, None


def _strip_iter(it):
    """Drop order-only wrappers: reversed(x), list(x), tuple(x), x[::-1], x[:]."""
    while True:
        if isinstance(it, ast.Call) and len(it.args) == 1 and not it.keywords and \
                astx.call_name(it) in ('reversed', 'list', 'tuple'):
            it = it.args[0]
        elif isinstance(it, ast.Subscript) and isinstance(it.slice, ast.Slice) and it.slice.lower is None and \
                it.slice.upper is None and (it.slice.step is None or astx.dump(it.slice.step) in
                                            (astx.dump(ast.Constant(value=-1)), astx.dump(ast.Constant(value=1)))):
            it = it.value
        else:
            return it


def _analyse_temporary(repo):
    """Shared recognition for C27.temporary / C27.entry; returns dict or raises AnalysisError."""
    T = _Temp(repo)
    g, fn = T.g, T.fn
    res = dict(T=T)
    can_yield = {id(n.ast) for n in g.nodes if n.kind == 'iter' and set(T.yields) & g.reach([n], labels=cfgm.noexc)}
    setup = [l for l in T.loops(T.pre) if T.key_of_iter(l) and id(l) in can_yield]
    restore = [l for l in T.loops(T.post) if l not in setup]
    if len(setup) != 1:
        raise AnalysisError(f'{fn.ident}: setup loop `for k, v in {T.kw}.items()` not found before the yield')
    L1 = setup[0]
    k1, v1 = T.key_of_iter(L1)
    body1 = T.body_nodes(L1)
    sets, saves, reads, inits, unresolved = [], [], [], [], []
    for n in body1:
        a = n.ast
        if n.kind != 'stmt':
            continue
        if isinstance(a, ast.Assign) and len(a.targets) == 1 and T.self_item(a.targets[0], k1):
            sets.append(n)
            continue
        if isinstance(a, ast.Assign) and isinstance(a.value, ast.List) and not a.value.elts and \
                any(isinstance(t, ast.Subscript) and T.cache_item(t, k1) for t in a.targets) and \
                all(isinstance(t, ast.Name) or isinstance(t, ast.Subscript) and T.cache_item(t, k1)
                    for t in a.targets):
            inits.append(n)      # `C[k] = []`, possibly chained with a local alias: `C[k] = stack = []`
            continue
        for c in n.calls():
            if astx.callee_attr(c) in ('append',) and len(c.args) == 1:
                cp = T.stack_of(astx.receiver(c), k1, n)
                if cp is None:
                    unresolved.append(n)
                    continue
                saves.append((n, c, cp))
        if any(T.self_item(w, k1) and isinstance(w.ctx, ast.Load) for e in n.exprs() for w in astx.walk(e)):
            reads.append(n)
    # local lists that record which options were pushed so far: `L = []` before the loop, `L.append(k)` inside
    records = {}
    for n in T.pre:
        a = n.ast
        if n.kind == 'stmt' and isinstance(a, ast.Assign) and len(a.targets) == 1 and \
                isinstance(a.targets[0], ast.Name) and n not in body1 and \
                (isinstance(a.value, ast.List) and not a.value.elts or
                 isinstance(a.value, ast.Call) and astx.call_name(a.value) == 'list' and not a.value.args):
            records.setdefault(a.targets[0].id, dict(inits=[], appends=[], wrong_arg=[], odd=[]))['inits'].append(n)
    for nm, rec in records.items():
        for st in astx.walk_stmts(fn.node.body):
            if any(isinstance(t, ast.Name) and t.id == nm for t in astx.assigned_targets(st)) and \
                    not any(st is i.ast for i in rec['inits']):
                rec['odd'].append(st)
        for n in g.nodes:
            for c in n.calls():
                if astx.path(astx.receiver(c)) != nm:
                    continue
                if astx.callee_attr(c) == 'append' and len(c.args) == 1 and n in body1 and n.kind == 'stmt':
                    if n not in rec['appends']:
                        rec['appends'].append(n)
                    if not (isinstance(c.args[0], ast.Name) and c.args[0].id == k1):
                        rec['wrong_arg'].append(n)
                elif astx.callee_attr(c) not in ('copy', 'index', 'count', '__len__'):
                    rec['odd'].append(n.ast)
    unresolved = [n for n in unresolved if not any(n in rec['appends'] for rec in records.values())]
    res.update(L1=L1, k1=k1, v1=v1, sets=sets, saves=saves, reads=reads, inits=inits, restore=restore,
               records=records, unresolved=unresolved)
    return res


@rule('C27.temporary', floor=5)
def temporary(repo, out):
    """temporary(): saves before it sets (once per option), restores from the same stack on the normal and the exceptional exit of yield, keeps the stack bookkeeping sound."""
    R = _analyse_temporary(repo)
    T = R['T']
    g, fn, rd = T.g, T.fn, T.rd
    L1, k1, v1 = R['L1'], R['k1'], R['v1']
    if len(T.yields) != 1:
        out.unsure(fn, fn.node, f'{len(T.yields)} yield statements')
        return
    Y = T.yields[0]
    if T.kw_dirty:
        out.unsure(fn, fn.node, f'{T.kw} is modified inside temporary()')
        return
    sets, saves, reads, inits = R['sets'], R['saves'], R['reads'], R['inits']
    H1 = [n for n in g.nodes_of(L1) if n.kind == 'iter']
    entry1 = [m for h in H1 for m, lab in g.succ[h] if lab == 'true']

    # ---- (1) setup discipline
    ok1 = True
    good_sets = [n for n in sets if T.temp_value(n.ast.value, k1, v1, n)]
    v1s = v1 or f'{T.kw}[{k1}]'
    if not sets or len(good_sets) != len(sets):
        x = ([n for n in sets if n not in good_sets] or [None])[0]
        out.bad(fn, x.ast if x else L1, f'setup does not assign self[{k1}] = {v1s} for the requested options',
                key='setup-set')
        ok1 = False
    if not saves and R['unresolved']:
        out.unsure(fn, R['unresolved'][0].ast, 'cannot tell whether this append pushes onto the per-option stack')
        return
    if not saves:
        out.bad(fn, L1, 'the current value is never pushed onto the cache before it is overwritten',
                key='save-every-option')
        ok1 = False
    caches = {cp for _, _, cp in saves}
    cache = next(iter(caches)) if len(caches) == 1 else None
    if ok1 and cache is None:
        out.unsure(fn, L1, f'values are saved into several containers {sorted(map(str, caches))}')
        ok1 = False
    read_nodes = []
    if ok1:
        for n, c, _ in saves:
            e, at = _deref(rd, n, c.args[0])
            if T.self_item(e, k1):
                read_nodes.append(at)
            elif T.temp_value(e, k1, v1, at):
                out.bad(fn, n.ast, f'the temporary value `{v1s}` is pushed instead of the current value '
                        f'self[{k1}]', key='save-before-set')
                ok1 = False
            else:
                out.unsure(fn, n.ast, f'saved expression {astx.src(c.args[0])} not recognised')
                ok1 = False
    if ok1:
        save_nodes = [n for n, _, _ in saves]
        w = g.path(entry1, H1, avoid=save_nodes, labels=cfgm.noexc)
        if w is not None:
            out.bad(fn, saves[0][0].ast, 'an option can be overwritten without its current value being pushed '
                    '(nested contexts pop the wrong value): ' + g.fmt_path(w), key='save-every-option')
            ok1 = False
        w = g.path(entry1, H1, avoid=good_sets, labels=cfgm.noexc)
        if ok1 and w is not None:
            out.bad(fn, L1, 'an iteration can finish without assigning the temporary value: ' + g.fmt_path(w),
                    key='setup-set')
            ok1 = False
        w = g.path(entry1, good_sets, avoid=read_nodes, labels=cfgm.noexc)
        if ok1 and w is not None:
            out.bad(fn, good_sets[0].ast, f'self[{k1}] is overwritten before its current value is read: the '
                    'temporary value itself is saved and "restored": ' + g.fmt_path(w), key='save-before-set')
            ok1 = False
        for s_ in save_nodes:
            if ok1 and s_ in g.reach([m for x in save_nodes for m in g.normal_succ(x)], avoid=H1, labels=cfgm.noexc):
                out.bad(fn, s_.ast, 'the current value is pushed twice in one iteration', key='save-every-option')
                ok1 = False
    if ok1:
        out.ok(fn, L1, f'each option: read self[{k1}] -> push on {cache}[{k1}] -> self[{k1}] = {v1s}, once per iteration')
    if cache is None:
        return

    # ---- (2) init guard of the per-option stack
    ok2 = True
    uses_setdefault = any(isinstance(astx.receiver(c), ast.Call) for _, c, _ in saves)
    for n in inits:
        par, br = _branch_of(n.ast, L1)
        if par is None:
            out.bad(fn, n.ast, f'{cache}[{k1}] is reset to [] unconditionally: values saved by an enclosing '
                    'temporary() of the same option are discarded', key='init-guard')
            ok2 = False
            continue
        t = par.test if isinstance(par, ast.If) else None
        sgn = None
        if isinstance(t, ast.Compare) and len(t.ops) == 1 and isinstance(t.ops[0], (ast.In, ast.NotIn)) and \
                isinstance(t.left, ast.Name) and t.left.id == k1 and astx.path(t.comparators[0]) == cache:
            sgn = isinstance(t.ops[0], ast.NotIn)
        if sgn is None or br is None:
            out.unsure(fn, n.ast, 'guard of the stack initialisation not recognised')
            ok2 = False
        elif (br == 'body') != sgn:
            out.bad(fn, n.ast, f'{cache}[{k1}] is reset to [] when the option already has saved values',
                    key='init-guard')
            ok2 = False
    if ok2 and not inits and not uses_setdefault:
        out.unsure(fn, L1, f'no initialisation of {cache}[{k1}] found')
        ok2 = False
    if ok2:
        out.ok(fn, (inits[0].ast if inits else saves[0][0].ast), 'the per-option stack is created only when absent')

    # ---- (3) restore reachable on both exits of yield
    cand = []
    records = R['records']
    rec_of = {}
    for l in R['restore']:
        kk = T.key_of_iter(l)
        it = _strip_iter(l.iter)
        if kk is None and isinstance(it, ast.Name) and it.id in records and isinstance(l.target, ast.Name):
            kk = (l.target.id, None)
            rec_of[id(l)] = it.id
        uses = any(isinstance(n.ast, ast.Assign) and len(n.ast.targets) == 1 and
                   isinstance(n.ast.targets[0], ast.Subscript) and astx.path(n.ast.targets[0].value) == 'self'
                   for n in T.body_nodes(l) if n.kind == 'stmt')
        if uses:
            cand.append((l, kk))
    if not cand:
        out.bad(fn, Y.ast, 'nothing after the yield assigns self[...] back: temporary values are never restored',
                key='restore-on-exit')
        return
    H2 = []
    for L2, kk in cand:
        if kk is None:
            it = L2.iter
            while isinstance(it, ast.Call) and len(it.args) == 1 and \
                    astx.call_name(it) in ('reversed', 'list', 'tuple', 'sorted'):
                it = it.args[0]
            if isinstance(it, ast.Call) and not it.args and astx.callee_attr(it) in ('keys', 'items', 'copy'):
                it = astx.receiver(it)
            if T.path(it) == cache:
                out.bad(fn, L2, f'the restore loop runs over {cache} (all saved options, including those of '
                        f'enclosing contexts) instead of the options given to this call', key='restore-keys')
            else:
                out.unsure(fn, L2, 'restore loop iterable not recognised')
            return
        H2 += [n for n in g.nodes_of(L2) if n.kind == 'iter']
    keys_ok = _check_restore_keys(T, out, R, cand, rec_of, H2)
    ok3 = True
    for lab_is_exc, key, what in ((False, 'restore-on-exit', 'normal'), (True, 'restore-on-exception', 'exceptional')):
        starts = [m for m, lab in g.succ[Y] if (lab == 'exc') == lab_is_exc]
        w = g.path(starts, [g.exit, g.raise_exit], avoid=H2)
        if w is not None or not starts:
            out.bad(fn, Y.ast, f'on the {what} exit of the with-block the restore loop is not executed, the '
                    f'options keep their temporary values: yield -> ' + g.fmt_path(w), key=key)
            ok3 = False
    if ok3:
        # at most one restore per exit: a second loop would pop an enclosing context's value
        for h in H2:
            if set(H2) & g.reach([m for m, lab in g.succ[h] if lab == 'false'], labels=cfgm.noexc):
                out.bad(fn, h.ast, 'two restore loops run on the same exit: the second pops values saved by an '
                        'enclosing context', key='restore-twice')
                ok3 = False
                break
    if ok3:
        out.ok(fn, cand[0][0], f'restore loop reached from the normal and the exceptional successor of yield '
               f'({len(H2)} copies)')

    ok4, ok5 = keys_ok, True
    first_restore, first_drop = None, None
    for L2, kk in cand:
        r4, r5, fr, fd = _check_restore_loop(T, out, L2, kk[0], cache, k1, v1)
        ok4, ok5 = ok4 and r4, ok5 and r5
        first_restore = first_restore or fr
        first_drop = first_drop or fd
    if ok4:
        out.ok(fn, first_restore, f'self[k] = {cache}[k].pop() for exactly the options pushed by the setup loop '
               f'({"recorded in " + ", ".join(sorted(set(rec_of.values()))) if rec_of else "keys of " + T.kw})')
    if ok4 and ok5:
        out.ok(fn, first_drop or cand[0][0], 'cache entry removed only when its stack is empty'
               if first_drop is not None else 'cache entries are never removed')


def _check_restore_keys(T, out, R, cand, rec_of, H2):
    """The restore loops run over exactly the options whose value was pushed when they are reached."""
    g, fn = T.g, T.fn
    L1, k1 = R['L1'], R['k1']
    H1 = [n for n in g.nodes_of(L1) if n.kind == 'iter']
    entry1 = [m for h in H1 for m, lab in g.succ[h] if lab == 'true']
    pushes = [n for n, _, _ in R['saves']]
    risky = set(R['reads']) | set(R['sets'])      # statements evaluating self[k]: they can reject
    ok = True
    for L2, kk in cand:
        nm = rec_of.get(id(L2))
        if nm is None:
            # restore over **kwargs: right only if the restore is never reached from a partial setup
            for x in risky:
                w = g.path([m for m, lab in g.succ[x] if lab == 'exc'], H2)
                if w is not None:
                    out.bad(fn, L2, f'the restore loop runs over all of {T.kw} but is also reached when the setup '
                            f'loop fails half-way: it pops options whose value was never pushed (KeyError, or the '
                            f'value of an enclosing context): ' + g.fmt_path([x] + w), key='restore-keys')
                    return False
            continue
        rec = R['records'][nm]
        resets = [st for st in rec['odd'] if isinstance(st, ast.stmt) and astx.in_body(st, L1, 'body')
                  and any(isinstance(t, ast.Name) and t.id == nm for t in astx.assigned_targets(st))]
        if resets:
            out.bad(fn, resets[0], f'`{nm}` is rebound inside the setup loop: options recorded in earlier iterations '
                    'are forgotten and never restored', key='record-every-option')
            return False
        if rec['odd'] or len(rec['inits']) != 1:
            out.unsure(fn, L2, f'`{nm}` is modified in ways that are not recognised')
            return False
        init = rec['inits'][0]
        if g.dominated_by(H1[0], [init], labels=cfgm.noexc) is not None or \
                any(g.dominated_by(h, [init]) is not None for h in H2):
            out.unsure(fn, init.ast, f'`{nm} = []` does not dominate the setup and restore loops')
            return False
        if rec['wrong_arg']:
            out.bad(fn, rec['wrong_arg'][0].ast, f'`{nm}` must record the option name `{k1}`; the restore loop '
                    f'uses its elements as option names', key='record-key')
            return False
        apps = rec['appends']
        w = g.path(entry1, H1, avoid=apps, labels=cfgm.noexc) if pushes else None
        if not apps or w is not None:
            out.bad(fn, (pushes[0].ast if pushes else L1), f'an option can be pushed and switched without being '
                    f'recorded in `{nm}`: the restore loop (over `{nm}`) never restores it' +
                    (': ' + g.fmt_path(w) if w else ''), key='record-every-option')
            return False
        for a_ in apps:
            if set(apps) & g.reach(g.normal_succ(a_), avoid=H1, labels=cfgm.noexc):
                out.bad(fn, a_.ast, f'an option is recorded twice in `{nm}`: it is restored twice and pops a value '
                        'of an enclosing context', key='record-every-option')
                return False
        # pushed but not yet recorded while something can still reject -> value stays on the stack
        for p_ in pushes:
            if g.path(entry1, [p_], avoid=apps, labels=cfgm.noexc) is None:
                continue   # already recorded when the push happens
            w = g.path(g.normal_succ(p_), risky, avoid=set(apps) | set(H1), labels=cfgm.noexc)
            if w is not None:
                out.bad(fn, w[-1].ast, f'the value is already pushed on the cache but the option is not yet recorded '
                        f'in `{nm}` when this statement can raise: the failing option is not rolled back and its '
                        f'pushed value is never popped: ' + g.fmt_path([p_] + w), key='record-after-push')
                return False
        # recorded but not yet pushed while something can reject -> restore pops what was never pushed
        for a_ in apps:
            if g.path(entry1, [a_], avoid=pushes, labels=cfgm.noexc) is None:
                continue
            w = g.path(g.normal_succ(a_), risky, avoid=(set(pushes) - risky) | set(H1), labels=cfgm.noexc)
            if w is not None:
                out.bad(fn, a_.ast, f'the option is recorded in `{nm}` before its current value is pushed; if '
                        f'`{astx.src(w[-1].ast)}` raises, the restore loop pops a value this call never pushed: ' +
                        g.fmt_path([a_] + w), key='record-before-push')
                return False
    return ok


def _check_restore_loop(T, out, L2, k2, cache, k1, v1):
    """Checks (4) pop symmetry and (5) clean-up guard of one restore loop -> (ok4, ok5, restore stmt, drop stmt)."""
    g, fn, rd = T.g, T.fn, T.rd
    H2 = [n for n in g.nodes_of(L2) if n.kind == 'iter']
    body2 = T.body_nodes(L2)
    ok4 = True
    restores = []
    for n in body2:
        a = n.ast
        if n.kind == 'stmt' and isinstance(a, ast.Assign) and len(a.targets) == 1 and T.self_item(a.targets[0], k2):
            restores.append(n)
    if not restores:
        out.bad(fn, L2, f'the loop after yield does not assign self[{k2}]', key='restore-source')
        return False, False, None, None
    for n in restores:
        e, at = _deref(rd, n, n.ast.value)
        if isinstance(e, ast.Call) and astx.callee_attr(e) == 'pop':
            recv = _deref(rd, at, astx.receiver(e))[0]
            cp = T.cache_item(recv, k2)
            if cp != cache or not isinstance(recv, ast.Subscript):
                out.bad(fn, n.ast, f'restores from {astx.src(astx.receiver(e))} but the value was pushed on '
                        f'{cache}[{k1}]', key='restore-source')
                ok4 = False
            elif e.keywords or len(e.args) > 1 or (e.args and not (astx.dump(e.args[0]) == astx.dump(ast.Constant(value=-1)))):
                out.bad(fn, n.ast, f'pop({astx.src(e.args[0]) if e.args else "..."}) does not take the most '
                        'recently pushed value: nested contexts on the same option restore the wrong value',
                        key='restore-lifo')
                ok4 = False
        elif isinstance(e, ast.Subscript) and T.cache_item(e.value, k2) == cache:
            shrinks = any(astx.callee_attr(c) in ('pop', 'remove', 'clear') for m_ in body2 for c in m_.calls()
                          if T.cache_item(astx.receiver(c), k2) == cache) or \
                any(isinstance(m_.ast, ast.Delete) for m_ in body2 if m_.kind == 'stmt')
            if shrinks:
                out.unsure(fn, n.ast, 'restore reads the stack by index and shrinks it elsewhere')
            else:
                out.bad(fn, n.ast, 'the saved value is read but not removed from the stack: an enclosing context '
                        'on the same option later restores this inner value', key='restore-lifo')
            ok4 = False
        elif T.temp_value(e, k2, v1, at) or isinstance(e, ast.Subscript) and astx.path(e.value) == T.kw:
            out.bad(fn, n.ast, 'assigns the temporary value again instead of the saved one', key='restore-source')
            ok4 = False
        else:
            out.unsure(fn, n.ast, f'restored expression {astx.src(n.ast.value)} not recognised')
            ok4 = False
    if ok4:
        for h in H2:
            ent = [m for m, lab in g.succ[h] if lab == 'true']
            w = g.path(ent, [h], avoid=restores, labels=cfgm.noexc)
            if w is not None:
                out.unsure(fn, L2, 'an iteration of the restore loop can skip the restore: ' + g.fmt_path(w))
                ok4 = False
                break

    # ---- (5) stack entry dropped only when empty
    ok5 = True
    drops = []
    for n in body2:
        if n.kind != 'stmt':
            continue
        if isinstance(n.ast, ast.Delete) and any(T.cache_item(t, k2) == cache for t in n.ast.targets):
            drops.append(n)
        for c in n.calls():
            if astx.callee_attr(c) == 'pop' and T.path(astx.receiver(c)) == cache and c.args and \
                    isinstance(c.args[0], ast.Name) and c.args[0].id == k2:
                drops.append(n)
    seen = set()
    for n in drops:
        if id(n.ast) in seen:
            continue
        seen.add(id(n.ast))
        par, br = _branch_of(n.ast, L2)
        if par is None:
            out.bad(fn, n.ast, f'{cache}[{k2}] is dropped unconditionally although an enclosing context may '
                    'still have a value on it', key='cleanup-guard')
            ok5 = False
            continue
        tnodes = [x for x in g.nodes_of(par) if x.kind == 'test'] if isinstance(par, ast.If) else []
        tv = _empty_guard(T, tnodes[0], par.test, cache, k2) if tnodes and br else None
        if tv is None:
            out.unsure(fn, n.ast, 'guard of the cache clean-up not recognised')
            ok5 = False
            continue
        taken = tv if br == 'body' else [not x for x in tv]
        if taken != [True, False, False]:
            out.bad(fn, par, f'the cache entry is dropped when the stack has '
                    f'{[n_ for n_, t_ in zip((0, 1, 2), taken) if t_]} element(s); it must be dropped only when '
                    'empty (enclosing contexts still need their saved value)', key='cleanup-guard')
            ok5 = False
            continue
        for x in [x for x in g.nodes_of(par) if x.kind == 'test']:
            hs = [h for h in H2 if x in g.reach([h], avoid=[y for y in H2 if y is not h], labels=cfgm.noexc)]
            ent = [m for h in hs for m, lab in g.succ[h] if lab == 'true']
            if g.path(ent, [x], avoid=restores, labels=cfgm.noexc) is not None:
                out.unsure(fn, par, 'emptiness is tested before the pop')
                ok5 = False
                break
    return ok4, ok5, restores[0].ast, (drops[0].ast if drops else None)


@rule('C27.entry', floor=1)
def entry(repo, out):
    """temporary(): if a later option fails during setup, options already switched are restored."""
    R = _analyse_temporary(repo)
    T = R['T']
    g, fn = T.g, T.fn
    sets = R['sets']
    if not sets or not R['restore']:
        raise AnalysisError(f'{fn.ident}: setup/restore loops not recognised (see C27.temporary)')
    H2 = [n for l in R['restore'] for n in g.nodes_of(l) if n.kind == 'iter']
    ops = set(sets) | set(R['reads']) | {n for n, _, _ in R['saves']}
    for s_ in sets:
        for x in ops:
            p1 = g.path(g.normal_succ(s_), [x], avoid=H2, labels=cfgm.noexc)
            if p1 is None:
                continue
            p2 = g.path([m for m, lab in g.succ[x] if lab == 'exc'], [g.raise_exit], avoid=H2)
            if p2 is not None:
                out.bad(fn, x.ast, 'if this statement raises for a later option (rejected temporary value, '
                        'unset required option), options already switched by the same temporary() call keep '
                        'their temporary values: the failure leaves the setup loop without passing the restore '
                        'loop: ' + g.fmt_path(p1 + p2), key='setup-failure-not-rolled-back')
                return
    out.ok(fn, R['L1'], 'every failure after the first assignment reaches the restore loop')


# --------------------------------------------------------------------------- C27.who
VALUE_WRITERS = {'__setitem__': 'the validated store (C27.guard)'}
ENTRY_WRITERS = {'declare': 'creates the entry, validates the default (C27.declare)',
                 'undeclare': 'removes an entry'}
ROUTERS = ('set', 'update')


@rule('C27.who', floor=4)
def who(repo, out):
    """Only __setitem__ stores option values; declare/undeclare alone touch entries; set/update assign through self[...]."""
    meths = _methods(repo)
    for nm, f in meths.items():
        for st in astx.walk_stmts(f.node.body):
            for b, k in _key_store(st, ('val', 'has_been_set')):
                if nm in VALUE_WRITERS:
                    out.ok(f, st, VALUE_WRITERS[nm])
                else:
                    out.bad(f, st, f"{nm} writes an option's '{k}' directly, bypassing the validation in "
                            '__setitem__', key='value-writer')
            if isinstance(st, (ast.Assign, ast.AugAssign, ast.Delete)):
                for t in astx.assigned_targets(st):
                    if isinstance(t, ast.Subscript) and astx.path(t.value) == 'self._dict' and nm not in ENTRY_WRITERS:
                        out.bad(f, st, f'{nm} replaces/removes a whole option entry', key='entry-writer')
            for c in astx.calls(st) if isinstance(st, (ast.Expr, ast.Assign)) else ():
                if astx.path(astx.receiver(c)) == 'self._dict' and astx.callee_attr(c) in \
                        ('update', 'setdefault', 'pop', 'clear', 'popitem', '__setitem__') and nm not in ENTRY_WRITERS:
                    out.bad(f, st, f'{nm} mutates self._dict through {astx.callee_attr(c)}()', key='entry-writer')
    for nm in ROUTERS:
        f = meths.get(nm)
        if f is None:
            raise AnalysisError(f'{OD}:{CLS}.{nm} vanished')
        params = [a.arg for a in f.node.args.args[1:]] + ([f.node.args.kwarg.arg] if f.node.args.kwarg else [])
        routed = False
        for st in astx.walk_stmts(f.node.body):
            if isinstance(st, ast.Assign) and len(st.targets) == 1:
                t = st.targets[0]
                if isinstance(t, ast.Subscript) and isinstance(t.value, ast.Name) and t.value.id == 'self':
                    loop = astx.enclosing(st, (ast.For,))
                    if loop is None or not (astx.names(loop.iter) & set(params)):
                        out.unsure(f, st, 'assignment not inside a loop over the argument')
                        continue
                    tn = astx.names(loop.target)
                    key_ok = isinstance(t.slice, ast.Name) and t.slice.id in tn
                    val_ok = bool(astx.names(st.value) & (tn | set(params))) and \
                        not (isinstance(st.value, ast.Name) and isinstance(t.slice, ast.Name) and
                             st.value.id == t.slice.id)
                    if key_ok and val_ok:
                        routed = True
                        out.ok(f, st, f'{nm} assigns each item through __setitem__')
                    else:
                        out.bad(f, st, f'{nm} does not assign value to its own key: {astx.src(st)}', key=f'route-{nm}')
                        routed = True
        if not routed:
            out.bad(f, f.node, f'{nm} no longer assigns through self[...] = ...: values are not validated or not set',
                    key=f'route-{nm}')


# --------------------------------------------------------------------------- C27.ctx-all (thorough)
CTX_SKIP = {
    'openmdao/utils/assert_utils.py': 'test helpers: the code after yield is the assertion itself and must '
                                      'run only on normal exit',
    'openmdao/utils/mpi.py': 'collective error propagation: the code after yield is the check itself',
}


@rule('C27.ctx-all', floor=16, tier='thorough')
def ctx_all(repo, out):
    """Generalisation of F9: no @contextmanager writes state back (attribute/item store, or call using a pre-yield snapshot) only on the normal exit of yield."""
    for rel in repo.shipped():
        if rel in CTX_SKIP or 'contextmanager' not in repo.source(rel):
            continue
        m = repo.module(rel)
        for f in m.funcs.values():
            if 'contextmanager' not in f.decorators():
                continue
            g = cfgm.build(f)
            ys = [n for n in g.nodes if n.kind == 'stmt' and
                  any(isinstance(w, (ast.Yield, ast.YieldFrom)) for e in n.exprs() for w in astx.walk(e))]
            if not ys:
                out.unsure(f, f.node, 'contextmanager without yield')
                continue
            pre = g.reach([g.entry], avoid=ys)
            snap = set()
            for n in pre:
                if n.kind == 'stmt' and isinstance(n.ast, ast.Assign):
                    for t in astx.assigned_targets(n.ast):
                        if isinstance(t, ast.Name):
                            snap.add(t.id)
            bad = None
            nrest = 0
            for y in ys:
                ns = [x for x, lab in g.succ[y] if lab != 'exc']
                es = [x for x, lab in g.succ[y] if lab == 'exc']
                post = [p for p in g.reach(ns, labels=cfgm.noexc) if p.kind == 'stmt' and p not in pre]
                exc_asts = {id(q.ast) for q in g.reach(es)}
                for p in post:
                    a = p.ast
                    is_store = isinstance(a, (ast.Assign, ast.AugAssign, ast.Delete)) and \
                        any(isinstance(t, (ast.Attribute, ast.Subscript)) for t in astx.assigned_targets(a))
                    uses_snap = isinstance(a, ast.Expr) and isinstance(a.value, ast.Call) and \
                        bool(astx.names(a) & snap)
                    if not (is_store or uses_snap):
                        continue
                    nrest += 1
                    if id(a) not in exc_asts and bad is None:
                        bad = p
            if bad is not None:
                out.bad(f, bad.ast, 'this restore runs only when the with-block exits normally; after an '
                        'exception the state set up before yield stays in place (put it in try/finally)',
                        key='restore-only-on-normal-exit')
            else:
                out.count('restore_statements', nrest)
                out.ok(f, ys[0].ast, f'{nrest} restoring statement(s) after yield, all reachable on exception')


# --------------------------------------------------------------------------- self-test
_UNDECL = ("        try:\n            meta = self._dict[name]\n        except KeyError:\n"
           "            # The key must not have been declared.\n"
           "            self._raise(f\"Option '{name}' cannot be set because it has not been declared.\",\n"
           "                        exc_type=KeyError)\n")
_RO = ("        if self._read_only:\n"
       "            self._raise(f\"Tried to set read-only option '{name}'.\", exc_type=KeyError)\n")
selftest(
    'C27',
    # ---- valid
    Mutant('valid-upper-ge', OD, 'if value > upper:', 'if value >= upper:', 'C27.valid'),
    Mutant('valid-lower-le', OD, 'if value < lower:', 'if value <= lower:', 'C27.valid'),
    Mutant('valid-none-or', OD, "if not (value is None and meta['allow_none']):",
           "if not (value is None or meta['allow_none']):", 'C27.valid'),
    Mutant('valid-drop-allow-none', OD, "if not (value is None and meta['allow_none']):",
           'if value is not None:', 'C27.valid'),
    Mutant('valid-list-swapped', OD, 'check_vals = [value] if types is not list else value',
           'check_vals = [value] if types is list else value', 'C27.valid'),
    Mutant('valid-elif-to-if', OD, '            elif types is not None:\n                if not isinstance(value, types):',
           '            if types is not None:\n                if not isinstance(value, types):', 'C27.valid'),
    Mutant('valid-bounds-read-swapped', OD, "        lower = meta['lower']\n        upper = meta['upper']",
           "        lower = meta['upper']\n        upper = meta['lower']", 'C27.valid'),
    Mutant('valid-check-valid-skips-none', OD, "        if meta['check_valid'] is not None:\n            meta['check_valid'](name, value)",
           "        if meta['check_valid'] is not None and value is not None:\n            meta['check_valid'](name, value)",
           'C27.valid'),
    Mutant('valid-guard-mismatch', OD, '            if upper is not None:\n                if value > upper:',
           '            if lower is not None:\n                if value > upper:', 'C27.valid'),
    Mutant('valid-lower-vs-upper', OD, 'if value < lower:', 'if value < upper:', 'C27.valid'),
    Mutant('valid-membership-whole-list', OD, 'if val not in values:', 'if value not in values:', 'C27.valid'),
    Mutant('valid-isinstance-inverted', OD, 'if not isinstance(value, types):', 'if isinstance(value, types):', 'C27.valid'),
    # ---- guard
    Mutant('guard-store-before-validate', OD, '        self._assert_valid(name, value)\n\n        # General function test\n        if meta[\'set_function\']',
           "        meta['val'] = value\n        self._assert_valid(name, value)\n\n        # General function test\n        if meta['set_function']",
           'C27.guard'),
    Mutant('guard-flag-before-validate', OD, '        self._assert_valid(name, value)\n\n        # General function test\n        if meta[\'set_function\']',
           "        meta['has_been_set'] = True\n        self._assert_valid(name, value)\n\n        # General function test\n        if meta['set_function']",
           'C27.guard'),
    Mutant('guard-no-read-only', OD, _RO, '', 'C27.guard'),
    Mutant('guard-read-only-warns', OD, "self._raise(f\"Tried to set read-only option '{name}'.\", exc_type=KeyError)",
           "warn_deprecation(f\"Tried to set read-only option '{name}'.\")", 'C27.guard'),
    Mutant('guard-read-only-after-store', OD, _RO + "\n        if meta['deprecation'] is not None:\n            name, meta = self._handle_deprecation(name, meta)\n\n        self._assert_valid(name, value)\n",
           "        if meta['deprecation'] is not None:\n            name, meta = self._handle_deprecation(name, meta)\n\n        self._assert_valid(name, value)\n        meta['val'] = value\n" + _RO,
           'C27.guard'),
    Mutant('guard-undeclared-ignored', OD, "            self._raise(f\"Option '{name}' cannot be set because it has not been declared.\",\n                        exc_type=KeyError)",
           '            return', 'C27.guard'),
    Mutant('guard-alias-meta-only', OD, 'name, meta = self._handle_deprecation(name, meta)',
           '_, meta = self._handle_deprecation(name, meta)', 'C27.guard'),
    Mutant('guard-alias-name-only', OD, 'name, meta = self._handle_deprecation(name, meta)',
           'name, _ = self._handle_deprecation(name, meta)', 'C27.guard'),
    Mutant('guard-alias-swapped', OD, 'name, meta = self._handle_deprecation(name, meta)',
           'meta, name = self._handle_deprecation(name, meta)', 'C27.guard'),
    Mutant('guard-validates-old-value', OD, 'self._assert_valid(name, value)', "self._assert_valid(name, meta['val'])",
           'C27.guard'),
    Mutant('guard-validate-only-if-set', OD, '        self._assert_valid(name, value)\n\n        # General function test\n        if meta[\'set_function\']',
           "        if meta['has_been_set']:\n            self._assert_valid(name, value)\n\n        # General function test\n        if meta['set_function']",
           'C27.guard'),
    Mutant('guard-alias-name-not-rebound', OD, '            name = alias\n', '', 'C27.guard'),
    Mutant('guard-alias-entry-of-old-name', OD, 'meta = self._dict[alias]', 'meta = self._dict[name]', 'C27.guard'),
    Mutant('guard-raise-warns', OD, '        raise exc_type(full_msg)', '        warn_deprecation(full_msg)', 'C27.guard'),
    # ---- declare
    Mutant('declare-bounds-swapped', OD, "            'upper': upper,\n            'lower': lower,",
           "            'upper': lower,\n            'lower': upper,", 'C27.declare'),
    Mutant('declare-default-not-validated', OD, '        if default_provided:\n            self._assert_valid(name, default)\n',
           '', 'C27.declare'),
    Mutant('declare-default-validated-sometimes', OD, '        if default_provided:\n            self._assert_valid(name, default)',
           '        if default_provided and values is not None:\n            self._assert_valid(name, default)', 'C27.declare'),
    Mutant('declare-always-set', OD, "'has_been_set': default_provided,", "'has_been_set': True,", 'C27.declare'),
    Mutant('declare-allow-none-slot', OD, "'allow_none': allow_none,", "'allow_none': recordable,", 'C27.declare'),
    Mutant('declare-validates-values', OD, 'self._assert_valid(name, default)', 'self._assert_valid(name, values)',
           'C27.declare'),
    # ---- temporary (statements whose text is the same before and after the setup-rollback repair)
    Mutant('temporary-fifo', OD, 'self[option] = self._context_cache[option].pop()',
           'self[option] = self._context_cache[option].pop(0)', 'C27.temporary'),
    Mutant('temporary-peek-no-pop', OD, 'self[option] = self._context_cache[option].pop()',
           'self[option] = self._context_cache[option][-1]', 'C27.temporary'),
    Mutant('temporary-cleanup-le-1', OD, 'if len(self._context_cache[option]) == 0:',
           'if len(self._context_cache[option]) <= 1:', 'C27.temporary'),
    Mutant('temporary-cleanup-always', OD, '                if len(self._context_cache[option]) == 0:\n                    self._context_cache.pop(option)',
           '                self._context_cache.pop(option)', 'C27.temporary'),
    Mutant('temporary-restores-new-value', OD, 'self[option] = self._context_cache[option].pop()',
           'self._context_cache[option].pop()\n                self[option] = kwargs[option]', 'C27.temporary'),
    # ---- who
    Mutant('who-update-bypasses', OD, '            self[name] = in_dict[name]', "            self._dict[name]['val'] = in_dict[name]", 'C27.who'),
    Mutant('who-set-bypasses', OD, '            self[option] = val\n', "            self._dict[option]['val'] = val\n", 'C27.who'),
    Mutant('who-restore-bypasses', OD, 'self[option] = self._context_cache[option].pop()',
           "self._dict[option]['val'] = self._context_cache[option].pop()", ['C27.who', 'C27.temporary']),
    Mutant('who-set-key-as-value', OD, '            self[option] = val\n', '            self[option] = option\n', 'C27.who'),
    # ---- twins
    Twin('twin-flip-bound-compare', OD, 'if value > upper:', 'if upper < value:'),
    Twin('twin-demorgan-none', OD, "if not (value is None and meta['allow_none']):",
         "if value is not None or not meta['allow_none']:"),
    Twin('twin-merged-bound-test', OD, '            if lower is not None:\n                if value < lower:',
         '            if lower is not None and lower > value:\n                if True:'),
    Twin('twin-read-only-temp', OD, '        if self._read_only:\n', '        ro = self._read_only\n        if ro:\n'),
    Twin('twin-undeclared-if', OD, _UNDECL,
         "        if name not in self._dict:\n            self._raise(f\"Option '{name}' cannot be set.\", exc_type=KeyError)\n"
         "        meta = self._dict[name]\n"),
    Twin('twin-flag-first', OD, "        meta['val'] = value\n        meta['has_been_set'] = True",
         "        meta['has_been_set'] = True\n        meta['val'] = value"),
    Twin('twin-cleanup-not', OD, 'if len(self._context_cache[option]) == 0:', 'if not self._context_cache[option]:'),
    Twin('twin-declare-inline-test', OD, '        if default_provided:\n            self._assert_valid(name, default)',
         '        if default is not _UNDEFINED:\n            self._assert_valid(name, default)'),
)

_SETITEM_TAIL = ("        if self._read_only:\n"
                 "            self._raise(f\"Tried to set read-only option '{name}'.\", exc_type=KeyError)\n\n"
                 "        if meta['deprecation'] is not None:\n"
                 "            name, meta = self._handle_deprecation(name, meta)\n\n"
                 "        self._assert_valid(name, value)\n\n"
                 "        # General function test\n"
                 "        if meta['set_function'] is not None:\n"
                 "            value = meta['set_function'](meta, value)\n\n"
                 "        meta['val'] = value\n"
                 "        meta['has_been_set'] = True\n")
_SETITEM_RENAMED = ("        if not self._read_only:\n            pass\n        else:\n"
                    "            self._raise(f\"Tried to set read-only option '{name}'.\", exc_type=KeyError)\n\n"
                    "        entry = meta\n"
                    "        if entry['deprecation'] is not None:\n"
                    "            name, entry = self._handle_deprecation(name, entry)\n\n"
                    "        self._assert_valid(name, value)\n\n"
                    "        setter = entry['set_function']\n"
                    "        if setter is not None:\n"
                    "            value = entry['set_function'](entry, value)\n\n"
                    "        entry['val'] = value\n"
                    "        entry['has_been_set'] = True\n")

selftest(
    'C27',
    Twin('twin-setitem-renamed-flipped', OD, _SETITEM_TAIL, _SETITEM_RENAMED),
    Twin('twin-valid-renamed-bound', OD, "        upper = meta['upper']\n", "        upper = hi = meta['upper']\n"),
    Twin('twin-check-valid-local', OD, "        if meta['check_valid'] is not None:\n            meta['check_valid'](name, value)",
         "        checker = meta['check_valid']\n        if checker is not None:\n            checker(name, value)"),
)


# ---- temporary(): texts of the repaired function body (setup inside the try, restore over `switched`)
_SETUP = ("            for option, val in kwargs.items():\n"
          "                old = self[option]\n"
          "                if option not in self._context_cache:\n"
          "                    self._context_cache[option] = []\n"
          "                self._context_cache[option].append(old)\n"
          "                switched.append(option)\n"
          "                self[option] = val\n")
_RESTORE_HDR = ("            # restore (in reverse order) every option switched so far, also if entering failed\n"
                "            for option in reversed(switched):\n")
_RESTORE_BODY = ("                self[option] = self._context_cache[option].pop()\n"
                 "                if len(self._context_cache[option]) == 0:\n"
                 "                    self._context_cache.pop(option)\n")
_TMP = ("        switched = []\n        try:\n" + _SETUP + "            yield\n        finally:\n" +
        _RESTORE_HDR + _RESTORE_BODY)
_OLD_SETUP = ("        for option, val in kwargs.items():\n"
              "            if option not in self._context_cache:\n"
              "                self._context_cache[option] = []\n"
              "            self._context_cache[option].append(self[option])\n"
              "            self[option] = val\n")
# F9: no try/finally at all (snapshot 79e2ee4)
_PRE_F9 = (_OLD_SETUP + "        yield\n        for option in kwargs:\n"
           "            self[option] = self._context_cache[option].pop()\n"
           "            if len(self._context_cache[option]) == 0:\n"
           "                self._context_cache.pop(option)\n")
# second pre-fix shape: setup outside the try, restore over kwargs (commit d3e23ee)
_PRE_ENTRY = (_OLD_SETUP + "        try:\n            yield\n        finally:\n            for option in kwargs:\n" +
              _RESTORE_BODY)


def _dedent4(txt):
    return ''.join(ln[4:] + '\n' for ln in txt.splitlines())


def _setup(*lines):
    return "            for option, val in kwargs.items():\n" + ''.join(' ' * 16 + ln + '\n' for ln in lines)


selftest(
    'C27',
    Mutant('temporary-prefix-F9', OD, _TMP, _PRE_F9, 'C27.temporary'),
    Mutant('entry-prefix-setup-outside-try', OD, _TMP, _PRE_ENTRY, 'C27.entry'),
    Mutant('entry-setup-outside-try-recorded', OD, "        switched = []\n        try:\n" + _SETUP + "            yield\n",
           "        switched = []\n" + _dedent4(_SETUP) + "        try:\n            yield\n", 'C27.entry'),
    Mutant('temporary-restore-in-else', OD, "            yield\n        finally:\n",
           "            yield\n        except BaseException:\n            raise\n        else:\n", 'C27.temporary'),
    Mutant('temporary-restore-over-kwargs-in-try', OD, 'for option in reversed(switched):', 'for option in kwargs:',
           'C27.temporary'),
    Mutant('temporary-restore-all-cached', OD, 'for option in reversed(switched):',
           'for option in list(self._context_cache):', 'C27.temporary'),
    Mutant('temporary-set-before-read', OD, _SETUP,
           _setup('if option not in self._context_cache:', '    self._context_cache[option] = []', 'switched.append(option)',
                  'self[option] = val', 'old = self[option]', 'self._context_cache[option].append(old)'), 'C27.temporary'),
    Mutant('temporary-saves-new-value', OD, 'self._context_cache[option].append(old)',
           'self._context_cache[option].append(val)', 'C27.temporary'),
    Mutant('temporary-init-always', OD, "                if option not in self._context_cache:\n                    self._context_cache[option] = []\n",
           "                self._context_cache[option] = []\n", 'C27.temporary'),
    Mutant('temporary-init-inverted', OD, "                if option not in self._context_cache:\n                    self._context_cache[option] = []\n",
           "                if option in self._context_cache:\n                    self._context_cache[option] = []\n", 'C27.temporary'),
    Mutant('temporary-save-under-init', OD, "                    self._context_cache[option] = []\n                self._context_cache[option].append(old)",
           "                    self._context_cache[option] = []\n                    self._context_cache[option].append(old)",
           'C27.temporary'),
    Mutant('temporary-record-after-store', OD, "                switched.append(option)\n                self[option] = val\n",
           "                self[option] = val\n                switched.append(option)\n", 'C27.temporary'),
    Mutant('temporary-record-before-read', OD, _SETUP,
           _setup('switched.append(option)', 'old = self[option]', 'if option not in self._context_cache:',
                  '    self._context_cache[option] = []', 'self._context_cache[option].append(old)', 'self[option] = val'),
           'C27.temporary'),
    Mutant('temporary-record-missing', OD, "                switched.append(option)\n", '', 'C27.temporary'),
    Mutant('temporary-record-value', OD, 'switched.append(option)', 'switched.append(val)', 'C27.temporary'),
    Mutant('temporary-record-under-init', OD, _SETUP,
           _setup('old = self[option]', 'if option not in self._context_cache:', '    self._context_cache[option] = []',
                  '    switched.append(option)', 'self._context_cache[option].append(old)', 'self[option] = val'),
           'C27.temporary'),
    Mutant('temporary-record-twice', OD, "                switched.append(option)\n",
           "                switched.append(option)\n                switched.append(option)\n", 'C27.temporary'),
    Mutant('temporary-record-reset-in-loop', OD, "                old = self[option]\n",
           "                switched = []\n                old = self[option]\n", ['C27.temporary', 'C27.entry']),
    Twin('twin-setdefault', OD, "                if option not in self._context_cache:\n                    self._context_cache[option] = []\n"
         "                self._context_cache[option].append(old)",
         "                self._context_cache.setdefault(option, []).append(old)"),
    Twin('twin-inline-old', OD, _SETUP,
         _setup('if option not in self._context_cache:', '    self._context_cache[option] = []',
                'self._context_cache[option].append(self[option])', 'switched.append(option)', 'self[option] = val')),
    Twin('twin-restore-forward', OD, 'for option in reversed(switched):', 'for option in switched:'),
    Twin('twin-restore-reversed-list', OD, 'for option in reversed(switched):', 'for option in reversed(list(switched)):'),
    Twin('twin-init-before-read', OD, _SETUP,
         _setup('if option not in self._context_cache:', '    self._context_cache[option] = []', 'old = self[option]',
                'self._context_cache[option].append(old)', 'switched.append(option)', 'self[option] = val')),
    Twin('twin-except-reraise', OD, "        finally:\n" + _RESTORE_HDR + _RESTORE_BODY,
         "        except BaseException:\n            for option in reversed(switched):\n" + _RESTORE_BODY +
         "            raise\n        else:\n            for option in reversed(switched):\n" + _RESTORE_BODY),
    Twin('twin-record-renamed', OD, _TMP, _TMP.replace('switched', 'done')),
    # list.append cannot fail, so recording directly before the push (nothing that can reject in between) is harmless
    Twin('twin-record-directly-before-push', OD, _SETUP,
         _setup('old = self[option]', 'if option not in self._context_cache:', '    self._context_cache[option] = []',
                'switched.append(option)', 'self._context_cache[option].append(old)', 'self[option] = val')),
)


# ---- __setitem__: the declaration validated against is the declaration that is written (alias resolution)
_DEP = ("        if meta['deprecation'] is not None:\n"
        "            name, meta = self._handle_deprecation(name, meta)\n")
_VAL = "        self._assert_valid(name, value)\n"
_STORE = "        meta['val'] = value\n        meta['has_been_set'] = True\n"
_RO_HEAD = ("        if self._read_only:\n"
            "            self._raise(f\"Tried to set read-only option '{name}'.\", exc_type=KeyError)\n\n")

selftest(
    'C27',
    # the independently seeded change: validate first, resolve the alias afterwards
    Mutant('guard-validate-before-alias', OD, _DEP + "\n" + _VAL, _VAL + "\n" + _DEP, 'C27.guard'),
    Mutant('guard-stale-entry-written', OD, _RO_HEAD + _DEP, _RO_HEAD + "        target = meta\n" + _DEP, 'C27.guard',
           also=[(OD, _STORE, "        target['val'] = value\n        target['has_been_set'] = True\n")]),
    Mutant('guard-flag-on-stale-entry', OD, _RO_HEAD + _DEP, _RO_HEAD + "        target = meta\n" + _DEP, 'C27.guard',
           also=[(OD, _STORE, "        meta['val'] = value\n        target['has_been_set'] = True\n")]),
    Mutant('guard-store-under-old-name', OD, _RO_HEAD + _DEP, _RO_HEAD + "        orig = name\n" + _DEP, 'C27.guard',
           also=[(OD, _STORE, "        self._dict[orig]['val'] = value\n        self._dict[orig]['has_been_set'] = True\n")]),
    Mutant('guard-validates-original-name', OD, _RO_HEAD + _DEP + "\n" + _VAL,
           _RO_HEAD + "        orig = name\n" + _DEP + "\n        self._assert_valid(orig, value)\n", 'C27.guard'),
    Mutant('guard-alias-resolved-again-after-validate', OD, _DEP + "\n" + _VAL, _DEP + "\n" + _VAL + _DEP, 'C27.guard'),
    Mutant('guard-alias-of-other-entry', OD, _RO_HEAD + _DEP,
           _RO_HEAD + "        first = meta\n" + _DEP + _DEP.replace('(name, meta)', '(name, first)'), 'C27.guard'),
    Twin('twin-alias-into-fresh-locals', OD, _SETITEM_TAIL,
         _RO_HEAD +
         "        key, entry = name, meta\n"
         "        if meta['deprecation'] is not None:\n"
         "            key, entry = self._handle_deprecation(name, meta)\n\n"
         "        self._assert_valid(key, value)\n\n"
         "        if entry['set_function'] is not None:\n"
         "            value = entry['set_function'](entry, value)\n\n"
         "        entry['val'] = value\n"
         "        entry['has_been_set'] = True\n"),
    Twin('twin-store-through-fresh-lookup', OD, _STORE,
         "        slot = self._dict[name]\n        slot['val'] = value\n        slot['has_been_set'] = True\n"),
    Twin('twin-entry-copied-after-alias', OD, _STORE,
         "        target = meta\n        target['val'] = value\n        target['has_been_set'] = True\n"),
)


# ---- robustness round: shapes accepted after behaviour-preserving refactors (benign/C27_1, C27_3)
_TMP_HOISTED = ("        cache = self._context_cache\n"
                "        switched = []\n"
                "        try:\n"
                "            for option in kwargs:\n"
                "                old = self[option]\n"
                "                cache.setdefault(option, []).append(old)\n"
                "                switched.append(option)\n"
                "                self[option] = kwargs[option]\n"
                "            yield\n"
                "        finally:\n"
                "            for option in switched[::-1]:\n"
                "                saved = cache[option]\n"
                "                self[option] = saved.pop()\n"
                "                if not saved:\n"
                "                    del cache[option]\n")

selftest(
    'C27',
    Twin('twin-set-function-local', OD, "        if meta['set_function'] is not None:\n            value = meta['set_function'](meta, value)",
         "        set_function = meta['set_function']\n        if set_function is not None:\n            value = set_function(meta, value)"),
    Twin('twin-temporary-hoisted-cache-keys-slice', OD, _TMP, _TMP_HOISTED),
    Twin('twin-restore-slice-reversed', OD, 'for option in reversed(switched):', 'for option in switched[::-1]:'),
    # the same refactored shape must still be checked
    Mutant('hoisted-fifo', OD, _TMP, _TMP_HOISTED.replace('saved.pop()', 'saved.pop(0)'), 'C27.temporary'),
    Mutant('hoisted-cleanup-inverted', OD, _TMP, _TMP_HOISTED.replace('if not saved:', 'if saved:'), 'C27.temporary'),
    Mutant('hoisted-set-before-read', OD, _TMP,
           _TMP_HOISTED.replace("                old = self[option]\n", "")
           .replace("                self[option] = kwargs[option]\n", "")
           .replace("                cache.setdefault", "                self[option] = kwargs[option]\n                old = self[option]\n                cache.setdefault"),
           'C27.temporary'),
    Mutant('hoisted-pushes-new-value', OD, _TMP, _TMP_HOISTED.replace('.append(old)', '.append(kwargs[option])'), 'C27.temporary'),
    Mutant('hoisted-restore-all-cached', OD, _TMP, _TMP_HOISTED.replace('switched[::-1]', 'list(cache)'), 'C27.temporary'),
    Mutant('hoisted-record-after-store', OD, _TMP,
           _TMP_HOISTED.replace("                switched.append(option)\n                self[option] = kwargs[option]\n",
                                "                self[option] = kwargs[option]\n                switched.append(option)\n"),
           'C27.temporary'),
    Mutant('setfunction-local-skips-validation', OD, "        self._assert_valid(name, value)\n\n        # General function test\n        if meta['set_function'] is not None:\n            value = meta['set_function'](meta, value)",
           "        set_function = meta['set_function']\n        if set_function is not None:\n            value = set_function(meta, value)\n        else:\n            self._assert_valid(name, value)",
           'C27.guard'),
)


# ---- round-2 seeds.  #1 (None skips every check) == Mutant 'valid-drop-allow-none', #2 (restore writes
# self._dict[option]['val']) == Mutant 'who-restore-bypasses'; #3: set_function runs before validation
_SF = ("        if meta['set_function'] is not None:\n"
       "            value = meta['set_function'](meta, value)\n")

selftest(
    'C27',
    Mutant('guard-set-function-before-validate', OD, _VAL + "\n        # General function test\n" + _SF,
           "        # General function test\n" + _SF + "\n" + _VAL, 'C27.guard'),
    Mutant('guard-set-function-local-before-validate', OD, _VAL + "\n        # General function test\n" + _SF,
           "        setter = meta['set_function']\n        if setter is not None:\n            value = setter(meta, value)\n\n" + _VAL,
           'C27.guard'),
    Mutant('guard-validates-processed-copy', OD, _VAL + "\n        # General function test\n" + _SF,
           "        new = value\n        if meta['set_function'] is not None:\n            new = meta['set_function'](meta, value)\n"
           "        self._assert_valid(name, new)\n", 'C27.guard',
           also=[(OD, "        meta['val'] = value\n", "        meta['val'] = new\n")]),
    Twin('twin-processed-into-fresh-local', OD, _SF,
         "        new = value\n        if meta['set_function'] is not None:\n            new = meta['set_function'](meta, value)\n",
         also=[(OD, "        meta['val'] = value\n", "        meta['val'] = new\n")]),
    Twin('twin-validated-copy', OD, _VAL, "        given = value\n        self._assert_valid(name, given)\n"),
)


# ---- second robustness round (benign/C27_b2_2, C27_b2_3)
_TMP_RENAMED = ("        changed = []\n"
                "        try:\n"
                "            for opt_name in kwargs:\n"
                "                tmp_val = kwargs[opt_name]\n"
                "                prev_val = self[opt_name]\n"
                "                if opt_name not in self._context_cache:\n"
                "                    self._context_cache[opt_name] = []\n"
                "                self._context_cache[opt_name].append(prev_val)\n"
                "                changed.append(opt_name)\n"
                "                self[opt_name] = tmp_val\n"
                "            yield\n"
                "        finally:\n"
                "            for opt_name in reversed(changed):\n"
                "                saved_vals = self._context_cache[opt_name]\n"
                "                self[opt_name] = saved_vals.pop()\n"
                "                if not saved_vals:\n"
                "                    self._context_cache.pop(opt_name)\n")
_HD = ("        msg, alias, show_warn = meta['deprecation']\n"
       "        if show_warn:\n"
       "            warn_deprecation(msg)\n"
       "            meta['deprecation'][2] = False  # turn off future warnings for this variable\n"
       "\n"
       "        if alias:\n"
       "            try:\n"
       "                meta = self._dict[alias]\n"
       "            except KeyError:\n"
       "                msg = f\"Can't find aliased option '{alias}' for deprecated option '{name}'.\"\n"
       "                self._raise(msg, exc_type=KeyError)\n"
       "            name = alias\n"
       "\n"
       "        return name, meta\n")
_HD_EARLY = ("        dep_info = meta['deprecation']\n"
             "        msg = dep_info[0]\n"
             "        alias = dep_info[1]\n"
             "        if dep_info[2]:\n"
             "            warn_deprecation(msg)\n"
             "            dep_info[2] = False\n"
             "\n"
             "        if not alias:\n"
             "            return name, meta\n"
             "\n"
             "        try:\n"
             "            alias_meta = self._dict[alias]\n"
             "        except KeyError:\n"
             "            msg = f\"Can't find aliased option '{alias}' for deprecated option '{name}'.\"\n"
             "            self._raise(msg, exc_type=KeyError)\n"
             "\n"
             "        return alias, alias_meta\n")

selftest(
    'C27',
    Twin('twin-temporary-renamed-value-local', OD, _TMP, _TMP_RENAMED),
    Mutant('renamed-pushes-temp-value', OD, _TMP, _TMP_RENAMED.replace('.append(prev_val)', '.append(tmp_val)'),
           'C27.temporary'),
    Mutant('renamed-sets-previous-value', OD, _TMP, _TMP_RENAMED.replace('self[opt_name] = tmp_val', 'self[opt_name] = prev_val'),
           'C27.temporary'),
    Mutant('renamed-read-after-set', OD, _TMP,
           _TMP_RENAMED.replace("                prev_val = self[opt_name]\n", "")
           .replace("                if opt_name not in", "                self[opt_name] = tmp_val\n                prev_val = self[opt_name]\n                if opt_name not in")
           .replace("                changed.append(opt_name)\n                self[opt_name] = tmp_val\n", "                changed.append(opt_name)\n"),
           'C27.temporary'),
    Mutant('renamed-cleanup-inverted', OD, _TMP, _TMP_RENAMED.replace('if not saved_vals:', 'if saved_vals:'), 'C27.temporary'),
    Twin('twin-handle-deprecation-early-return', OD, _HD, _HD_EARLY),
    Mutant('early-return-alias-with-old-entry', OD, _HD, _HD_EARLY.replace('return alias, alias_meta', 'return alias, meta'),
           'C27.guard'),
    Mutant('early-return-old-name-with-alias-entry', OD, _HD, _HD_EARLY.replace('return alias, alias_meta', 'return name, alias_meta'),
           'C27.guard'),
    Mutant('early-return-looks-up-old-name', OD, _HD, _HD_EARLY.replace('alias_meta = self._dict[alias]', 'alias_meta = self._dict[name]'),
           'C27.guard'),
    Mutant('early-return-never-resolves', OD, _HD, _HD_EARLY.replace('return alias, alias_meta', 'return name, meta'),
           'C27.guard'),
    Mutant('early-return-swapped-pair', OD, _HD, _HD_EARLY.replace('return alias, alias_meta', 'return alias_meta, alias'),
           'C27.guard'),
)


# ---- third robustness round (benign/C27_b3_2): stack reached through a local bound in both branches of the
# presence test (`C[k] = stack = []` chained in the absent branch), restored value through a local
_TMP_STACK_ALIAS = ("        switched = []\n"
                    "        try:\n"
                    "            for option in kwargs:\n"
                    "                prev_val = self[option]\n"
                    "                if option in self._context_cache:\n"
                    "                    saved_stack = self._context_cache[option]\n"
                    "                else:\n"
                    "                    self._context_cache[option] = saved_stack = []\n"
                    "                saved_stack.append(prev_val)\n"
                    "                switched.append(option)\n"
                    "                self[option] = kwargs[option]\n"
                    "            yield\n"
                    "        finally:\n"
                    "            for option in reversed(switched):\n"
                    "                restored = self._context_cache[option].pop()\n"
                    "                self[option] = restored\n"
                    "                if not self._context_cache[option]:\n"
                    "                    self._context_cache.pop(option)\n")

selftest(
    'C27',
    Twin('twin-temporary-stack-alias-two-branches', OD, _TMP, _TMP_STACK_ALIAS),
    Mutant('stack-alias-pushes-temp-value', OD, _TMP, _TMP_STACK_ALIAS.replace('.append(prev_val)', '.append(kwargs[option])'),
           'C27.temporary'),
    Mutant('stack-alias-init-when-present', OD, _TMP,
           _TMP_STACK_ALIAS.replace('if option in self._context_cache:', 'if option not in self._context_cache:'),
           'C27.temporary'),
    Mutant('stack-alias-peek-no-pop', OD, _TMP,
           _TMP_STACK_ALIAS.replace('restored = self._context_cache[option].pop()', 'restored = self._context_cache[option][-1]'),
           'C27.temporary'),
    Mutant('stack-alias-push-only-when-absent', OD, _TMP,
           _TMP_STACK_ALIAS.replace("                saved_stack.append(prev_val)\n", "")
           .replace("saved_stack = []\n", "saved_stack = []\n                    saved_stack.append(prev_val)\n"),
           'C27.temporary'),
    Mutant('stack-alias-set-before-read', OD, _TMP,
           _TMP_STACK_ALIAS.replace("                prev_val = self[option]\n", "                self[option] = kwargs[option]\n                prev_val = self[option]\n")
           .replace("                switched.append(option)\n                self[option] = kwargs[option]\n", "                switched.append(option)\n"),
           'C27.temporary'),
)
